#!/bin/bash
# confirm_seed.sh <stagingdir> <name>: confirm a seeded change in a fresh scratch worktree:
#  (a) builds, (b) existing suite passes with it, (c) demo fails with it, (d) demo passes without it.
set -u
ST=$1; NAME=$2
WT=/tmp/confirm-$NAME
export GOFLAGS=-mod=mod GOPROXY=off
LOG=$ST/confirm.log
: > $LOG
git -C /repo worktree remove --force $WT >/dev/null 2>&1
git -C /repo worktree add -q --detach $WT HEAD || { echo "worktree failed" >> $LOG; exit 2; }
cd $WT
META=$ST/meta.json
DEMO=$(python3 -c "import json;print(json.load(open('$META')).get('demo_file',''))")
DEST=$(python3 -c "import json;print(json.load(open('$META')).get('demo_dest',''))")
CMD=$(python3 -c "import json;print(json.load(open('$META')).get('demo_cmd',''))")
echo "demo=$DEMO dest=$DEST cmd=$CMD" >> $LOG
if ! git apply $ST/patch.diff 2>>$LOG; then echo "RESULT apply=FAIL" >> $LOG; cd /; git -C /repo worktree remove --force $WT; exit 1; fi
if go build ./... >>$LOG 2>&1; then B=ok; else B=FAIL; fi
if go test -vet=off -count=1 ./... >>$LOG 2>&1; then T=ok; else T=FAIL; fi
cp $ST/$DEMO $WT/$DEST
( eval "$CMD" ) >>$LOG 2>&1; WITH=$?
git apply -R $ST/patch.diff
( eval "$CMD" ) >>$LOG 2>&1; WITHOUT=$?
echo "RESULT build=$B suite_with_change=$T demo_with_change_exit=$WITH demo_without_change_exit=$WITHOUT" >> $LOG
cd /
git -C /repo worktree remove --force $WT
tail -1 $LOG
