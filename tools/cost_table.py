#!/usr/bin/env python3
"""cost_table.py: print a markdown table of what the last run of every check covered and cost (from evidence/*.json)."""
import json, glob, os
rows = []
for f in sorted(glob.glob(os.path.join(os.path.dirname(os.path.dirname(os.path.abspath(__file__))), "evidence", "C*.json"))):
    e = json.load(open(f))
    c = e["coverage"]
    rows.append((e["property_id"], e["tier"], e["seed"], round(e["wall_s"]), c.get("states", 0), c.get("evaluations", 0),
                 c.get("distinct_nontrivial", 0), c.get("traces_validated_against_impl", 0), e.get("violations", 0)))
print("| id | tier | seed | wall s | TLC distinct states | executions on the real code | non-trivial, distinct | traces validated | unlisted violations |")
print("|---|---|---|---|---|---|---|---|---|")
for r in rows:
    print("| " + " | ".join(str(x) for x in r) + " |")

# --update: write the table between the markers of DESIGN.md
import sys, io
if "--update" in sys.argv:
    buf = ["| id | tier | seed | wall s | TLC distinct states | executions on the real code | non-trivial, distinct | traces validated | unlisted violations |",
           "|---|---|---|---|---|---|---|---|---|"] + ["| " + " | ".join(str(x) for x in r) + " |" for r in rows]
    d = os.path.join(os.path.dirname(os.path.dirname(os.path.abspath(__file__))), "DESIGN.md")
    s = open(d).read()
    a, b = s.index("<!-- COST-TABLE-BEGIN -->"), s.index("<!-- COST-TABLE-END -->")
    s = s[:a] + "<!-- COST-TABLE-BEGIN -->\n" + "\n".join(buf) + "\n" + s[b:]
    open(d, "w").write(s)
