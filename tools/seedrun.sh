#!/bin/bash
# seedrun.sh <patch> <check-id> [tier]: apply a seeded change to /repo, run a check, undo the change.
PATCH=$1; ID=$2; TIER=${3:-quick}
cd /repo || exit 2
if ! git diff --quiet; then echo "/repo has uncommitted changes"; exit 2; fi
git apply "$PATCH" || { echo "patch does not apply"; exit 2; }
cd /verif && VERIF_EVIDENCE_DIR=/tmp/seed-evidence ./check $ID $TIER; RC=$?
git -C /repo checkout -- . 
echo "seedrun: check $ID $TIER exit=$RC"
exit $RC
