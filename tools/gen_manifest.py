#!/usr/bin/env python3
"""Regenerates /verif/MANIFEST.json from the table below."""
import json, subprocess
props = [json.loads(l) for l in open('/verif/properties.jsonl')]
TECH_TRACE = "TLA+ model checking (TLC) of Cache.tla + TLC trace validation of recorded executions against LruTrace.tla"
TECH_CASE = "TLA+ decision model checked by TLC (Mechanism refines Policy over the whole case space) + replay of every TLC-generated case against the real servers"
NOTE = ("Exhaustive only within the stated small constants; beyond them the assurance is trace validation / case replay of sampled executions. "
        "Trusted: TLC, Go runtime, placement of the verif hooks at linearization points, kernel file semantics, SHA-256 and an independent zstd decoder as byte oracles.")
CLAIMED = {
 "C01": (TECH_CASE, "Ingress.tla enumerates every (write path x defect kind x already-present x limit) case with the set of outcomes the property allows and checks that the implementation's size/hash plumbing (which request field reaches disk.Put as size and as hash) cannot acknowledge a defective upload; every case is then executed on real gRPC/HTTP front ends in both storage modes at the 4 KiB / 1 MiB size edges, and the claimed digest's presence and content are checked afterwards through FindMissingBlobs and ByteStream.Read."),
 "C03": (TECH_TRACE, "TLC exhaustively checks the accounting invariants (accounted = entries rounded to blocks + reservations <= max_size; logical total; reserved = sum held by in-flight requests; zero at quiescence) on Cache.tla for all interleavings of 2-3 request goroutines at lock-region / file-step granularity; the same index operators (Lru.tla) are then bound to the real code by trace validation: every index operation, reservation, hand-over to the remover and file step of recorded sequential, failing and concurrent executions must be a step of the specification with identical counters, and the invariants are evaluated after every recorded step. A direct oracle (Stats vs index snapshot vs directory) cross-checks at every quiescent point."),
 "C04": (TECH_TRACE, "Cache.tla states 'directory = indexed entries at quiescence' and 'no indexed entry lacks its file' as invariants over all interleavings incl. failing uploads; recorded executions (file create/complete/remove events, remover order, per-request ownership of temporary files, file names computed by the specification's naming function, directory listings at quiescence) are validated against the specification with TLC."),
 "C05": (TECH_TRACE, "The specification evicts from the back of the recency list only inside Reserve/Add and only while the incoming item does not fit; an independent logical clock shows in the model that the list order is the last-use order. Recorded executions must evict exactly the victims, in exactly the order, the specification computes; the recency order of the real index is compared with the specification's after every operation, and the keys an operation hit or stored must be the most recently used ones."),
 "C07": (TECH_TRACE, "All interleavings of 2 goroutines x 2 requests / 3 x 1 over shared keys incl. an initially unreadable file are model-checked for accounting, map/list consistency, directory and whole-value reads; free-running concurrent executions of the real code (8-16 goroutines, damaged and lost files, overwrites, lost-file read storms) are validated step by step against the specification, reads are compared with the uploaded values."),
 "C06": (TECH_CASE, "ActionCache.tla enumerates every ActionResult shape of up to 3 references (7 reference categories x 6 blob states) and checks that the traversal of GetValidatedActionResult answers hit exactly when every non-inline reference is satisfied; FindMissing.tla checks the fail-fast dependency check for all worker interleavings (it refuted the pre-fix code). Every shape is materialised with real protobufs and queried through gRPC GetActionResult, HTTP GET and HEAD, with and without a backend; after a hit the recency order of the index is inspected; the race schedule found by TLC is replayed through a verif gate."),
 "C10": (TECH_CASE, "FindMissing.tla model-checks the batching / worker hand-off / compaction algorithm for all request lists of length <= 4 over 6 digest classes and all interleavings of 2 backend workers (safety: exactly the absent digests, order and duplicates kept; liveness: terminates); every abstract list is scaled to lengths around the real batch size of 20 and sent to the gRPC endpoint with and without a (slow) backend while unrelated uploads run."),
 "C11": (TECH_CASE, "ActionCache.tla enumerates all histories of up to 2 uploads to one action key over 4 encodings (gRPC, HTTP proto / JSON / zstd) x 23 message classes (each invalid kind separately) and checks that what is stored always validates and the latest accepted upload wins; every history is executed and the stored message is read back through gRPC, HTTP proto and HTTP JSON and compared with proto.Equal after undoing the documented server-side changes."),
 "C13": (TECH_CASE, "Auth.tla states the policy of the property and a mechanism model of main.go's wiring (wrappers per handler and option, client-certificate checks per method, gRPC interceptors with their read-only table) and checks Mechanism = Policy over 3 auth modes x allow_unauthenticated_reads x endpoint metrics x every endpoint x every credential state (it refutes the pre-fix wiring); the resulting 1444-row decision table is replayed against the real binary started once per configuration, with every registered gRPC method (methods unknown to the specification count as mutating)."),
 "C17": (TECH_TRACE, "Reserve's admission test (accounted + deletion backlog + item <= hard limit, refusal changes nothing) is part of Lru.tla; recorded executions with a hard limit must take the branch the specification takes for the backlog value they actually read, which must lie within the bounds implied by the logged remover events."),
 "C18": (TECH_CASE, "Ingress.tla's limit dimension (max_blob_size = size-1 / size / size+1) is enumerated over all write paths; every case is executed on real front ends configured with that limit: over-limit uploads must be refused with a client error and leave nothing behind, uploads of exactly the limit must be accepted."),
}
checks = []
for p in sorted(CLAIMED):
    tech, text = CLAIMED[p]
    checks.append({"property_id": p, "quick_cmd": f"./check {p} quick", "thorough_cmd": f"./check {p} thorough",
                   "evidence_file": f"/verif/evidence/{p}.json", "replay_cmd_template": f"./check replay {p} {{path}}",
                   "engine": "tlc+vh",
                   "level_claimed": {"category": "model_checking", "text": text, "design_ref": "DESIGN.md §5 " + p},
                   "level_note": NOTE, "technique": tech})
na = [{"property_id": p["id"], "reason": "check under construction in this session; not claimed yet"} for p in props if p["id"] not in CLAIMED]
hooks = subprocess.run(["git", "-C", "/repo", "log", "--format=%h %s"], capture_output=True, text=True).stdout.splitlines()
hook_commits = [l.split()[0] for l in hooks if l.split(" ", 1)[1].startswith("verif hooks")]
m = {"version": 1, "setup_cmd": "./check setup",
     "hooks": {"guard": "verif", "enable": "go build -tags verif (harness module /verif/harness with replace => /repo)",
               "baseline_off_cmd": "cd /repo && GOFLAGS=-mod=mod go test -json -vet=off -count=1 -timeout 25m ./...",
               "source_commits": hook_commits, "add_only": True},
     "engines": [{"name": "tlc+vh", "path": "/verif/check", "serves_properties": sorted(CLAIMED),
                  "kind_free_text": "python runner: TLC (exhaustive models, case tables, trace validation) and the Go conformance harness vh built from /repo with -tags verif"}],
     "checks": checks, "not_applicable": na,
     "notes": "Specifications in /verif/spec, harness in /verif/harness, runner in /verif/runner, seeded changes in /verif/seeded. Known findings: /verif/known_findings.jsonl."}
json.dump(m, open('/verif/MANIFEST.json', 'w'), indent=1)
print("claimed:", sorted(CLAIMED), "hooks:", hook_commits)
