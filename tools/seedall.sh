#!/bin/bash
# seedall.sh [jobs]: run every seeded change (seeded/C*/patch.diff) against the quick check of its property and
# write seeded/REGRESSION.txt.  /repo is never touched: each change is applied in a scratch worktree of /repo's
# HEAD under /tmp, the check is pointed at it with VERIF_REPO, and the worktree is removed afterwards.
# Evidence of these runs goes to a scratch directory, not to /verif/evidence.
# Entries already present in REGRESSION.txt.tmp are kept (a killed run can be resumed).
cd /verif
JOBS=${1:-3}
OUT=/verif/seeded/REGRESSION.txt
touch $OUT.tmp
one() {
  d=$1; name=$(basename $d); id=${name:0:3}
  grep -q "^$name " $OUT.tmp && return
  wt=/tmp/seedwt-$name
  git -C /repo worktree remove --force $wt >/dev/null 2>&1
  git -C /repo worktree add -q --detach $wt HEAD || { echo "$name WORKTREE-FAILED" >> $OUT.tmp; return; }
  if ! git -C $wt apply /verif/$d/patch.diff 2>/dev/null; then
    echo "$name APPLY-FAILED" >> $OUT.tmp
  else
    VERIF_REPO=$wt VERIF_EVIDENCE_DIR=/tmp/seed-evidence-$name ./check $id quick > /tmp/seedall-$name.log 2>&1; rc=$?
    first=$(grep -m1 "what:" /tmp/seedall-$name.log | cut -c1-200)
    echo "$name check=$id exit=$rc $first" >> $OUT.tmp
    [ $rc = 1 ] && rm -f /tmp/seedall-$name.log
  fi
  git -C /repo worktree remove --force $wt >/dev/null 2>&1
  rm -rf /tmp/seed-evidence-$name
}
export -f one; export OUT
ls -d seeded/C*/ | xargs -P $JOBS -I{} bash -c 'one {}'
sort $OUT.tmp > $OUT && rm -f $OUT.tmp
echo "done: $(grep -c 'exit=1' $OUT) of $(wc -l < $OUT) detected"
