#!/bin/bash
# repotest.sh [pkgs...]: run the repository's tests with the guard OFF; exit status is the suite's.
cd /repo || exit 2
PK=${@:-./...}
env -u GOTOOLCHAIN -u GOSUMDB -u GOPROXY GOFLAGS=-mod=mod go test -vet=off -count=1 -timeout 25m $PK > /tmp/repotest.log 2>&1; RC=$?
grep -v "no test files" /tmp/repotest.log | grep "^ok\|^FAIL\|^---\|panic" | head -40
echo "repotest exit=$RC"; exit $RC
