#!/usr/bin/env python3
"""finalize_seed.py <staging-id> <slug> <detected-by text>: move a confirmed seeded change to /verif/seeded/<id>-<slug>/."""
import json, os, shutil, sys
sid, slug, detected = sys.argv[1], sys.argv[2], sys.argv[3]
src = f"/verif/seeded/_staging/{sid}"
dst = f"/verif/seeded/{sid[:3]}-{slug}"
m = json.load(open(os.path.join(src, "meta.json")))
log = open(os.path.join(src, "confirm.log")).read().strip().splitlines()
res = [l for l in log if l.startswith("RESULT")]
meta = {
    "property": sid[:3],
    "summary": m.get("summary"),
    "needs": m.get("needs"),
    "files_changed": m.get("files_changed"),
    "demo_file": m.get("demo_file"), "demo_dest": m.get("demo_dest"), "demo_cmd": m.get("demo_cmd"),
    "origin": "written by an independent sub-agent that was given only the property text and a scratch worktree",
    "confirmed": {"how": "tools/confirm_seed.sh in a fresh scratch worktree of /repo HEAD: build, full existing suite with the change, demo with and without the change",
                  "result": res[-1] if res else "?"},
    "detected_by": detected,
}
os.makedirs(dst, exist_ok=True)
for f in os.listdir(src):
    if f not in ("meta.json", "confirm.log"):
        shutil.copy(os.path.join(src, f), dst)
json.dump(meta, open(os.path.join(dst, "meta.json"), "w"), indent=1)
shutil.rmtree(src)
print(dst, meta["confirmed"]["result"])
