package main

import (
	"encoding/json"
	"flag"
	"fmt"
	"os"

	"verif/harness/internal/eng"
)

func init() {
	register("config", "render Config.tla's configurations as flags, environment and YAML and compare what the real parsers make of them (C19)", func(args []string) int {
		fs := flag.NewFlagSet("config", flag.ExitOnError)
		seed := fs.Int64("seed", 1, "seed")
		casesPath := fs.String("cases", "", "table written by TLC")
		tier := fs.String("tier", "quick", "quick|thorough")
		resPath := fs.String("result", "", "result JSON")
		_ = fs.Parse(args)
		res := &Result{Command: "config", Seed: *seed, Rule: "one execution (three syntaxes) per configuration of the TLC table: required settings plus every single and every pair of further settings, and every invalid class combined with every single valid setting; non-trivial = at least one setting beyond the required ones; distinct by the set of settings"}
		b, err := os.ReadFile(*casesPath)
		var tab eng.CfgTable
		if err == nil {
			err = json.Unmarshal(b, &tab)
		}
		if err != nil {
			res.Error = "reading cases: " + err.Error()
			writeResult(*resPath, res)
			return 2
		}
		stride := 1
		_ = tier
		runs, viols, err := eng.RunConfig(tab, *seed, stride)
		if err != nil {
			res.Error = err.Error()
			writeResult(*resPath, res)
			return 2
		}
		res.Cases = len(runs)
		seen := map[string]bool{}
		for i, r := range runs {
			if len(r.Row.Settings) > 2 || r.Class != "" {
				seen[fmt.Sprintf("%v/%s", r.Row.Settings, r.Class)] = true
			}
			if i%(len(runs)/4+1) == 0 && len(res.Samples) < 6 {
				res.Samples = append(res.Samples, r)
			}
		}
		res.Nontrivial = len(seen)
		res.Violations = viols
		writeResult(*resPath, res)
		return 0
	})
}
