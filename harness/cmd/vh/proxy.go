package main

import (
	"encoding/json"
	"flag"
	"fmt"
	"os"

	"verif/harness/internal/eng"
)

func init() {
	register("proxy", "fault scripts of Proxy.tla against the disk layer (interface-level fake) and the real http / s3 / grpc proxy clients (C12)", func(args []string) int {
		fs := flag.NewFlagSet("proxy", flag.ExitOnError)
		seed := fs.Int64("seed", 1, "seed")
		casesPath := fs.String("cases", "", "table written by TLC")
		backend := fs.String("backend", "iface", "iface|http|s3|grpc")
		stride := fs.Int("stride", 1, "execute every stride-th script")
		maxLen := fs.Int("maxlen", 3, "longest script to execute")
		part := fs.String("part", "reads", "reads|writes")
		resPath := fs.String("result", "", "result JSON")
		_ = fs.Parse(args)
		res := &Result{Command: "proxy", Seed: *seed, Rule: "one execution per (configuration, fault script) of the TLC table on a fresh key, each request through a randomly chosen front end with the fault at a randomly chosen byte; non-trivial = scripts with at least one fault; distinct by (backend, configuration, script)"}
		if *part == "writes" {
			runs, viols, err := eng.RunProxyWrites(*seed)
			if err != nil {
				res.Error = err.Error()
				writeResult(*resPath, res)
				return 2
			}
			res.Rule = "one experiment per backend x storage mode: write-through of CAS/AC/raw entries, recovery by a peer on the same backend, exactly-once hand-over, full upload queue, cancelled reads"
			res.Cases = len(runs)
			res.Nontrivial = len(runs)
			res.Violations = viols
			for i, r := range runs {
				if i < 4 {
					res.Samples = append(res.Samples, r)
				}
			}
			writeResult(*resPath, res)
			return 0
		}
		b, err := os.ReadFile(*casesPath)
		var cases []eng.PxCase
		if err == nil {
			err = json.Unmarshal(b, &cases)
		}
		if err != nil {
			res.Error = "reading cases: " + err.Error()
			writeResult(*resPath, res)
			return 2
		}
		runs, viols, err := eng.RunProxy(cases, *backend, *seed, *stride, *maxLen)
		if err != nil {
			res.Error = err.Error()
			writeResult(*resPath, res)
			return 2
		}
		res.Cases = len(runs)
		seen := map[string]bool{}
		for i, r := range runs {
			faulty := false
			for _, f := range r.Script {
				if f != "none" {
					faulty = true
				}
			}
			if faulty {
				seen[fmt.Sprintf("%s/%v/%v", r.Backend, r.Cfg, r.Script)] = true
			}
			if i%(len(runs)/4+1) == 0 {
				res.Samples = append(res.Samples, r)
			}
		}
		res.Nontrivial = len(seen)
		res.Violations = viols
		writeResult(*resPath, res)
		return 0
	})
}
