package main

import (
	"encoding/json"
	"flag"
	"fmt"
	"os"

	"verif/harness/internal/eng"
)

func init() {
	register("achist", "execute ActionCache.tla's upload histories through gRPC and HTTP (proto, JSON, zstd) (C11)", func(args []string) int {
		fs := flag.NewFlagSet("achist", flag.ExitOnError)
		seed := fs.Int64("seed", 1, "seed")
		casesPath := fs.String("cases", "", "case table written by TLC")
		tier := fs.String("tier", "quick", "quick|thorough")
		resPath := fs.String("result", "", "result JSON")
		_ = fs.Parse(args)
		res := &Result{Command: "achist", Seed: *seed, Rule: "one execution per upload history of the TLC table (quick: every 4th, chosen by seed); non-trivial = the history contains a rejected upload or an overwrite; distinct by history"}
		b, err := os.ReadFile(*casesPath)
		var tab acTable
		if err == nil {
			err = json.Unmarshal(b, &tab)
		}
		if err != nil {
			res.Error = "reading cases: " + err.Error()
			writeResult(*resPath, res)
			return 2
		}
		modes := []string{"zstd"}
		stride := 4
		if *tier == "thorough" {
			modes = []string{"zstd", "uncompressed"}
			stride = 1
		}
		seen := map[string]bool{}
		for _, mode := range modes {
			runs, viols, err := eng.RunACHists(tab.Hists, *seed, mode, stride)
			if err != nil {
				res.Error = err.Error()
				writeResult(*resPath, res)
				return 2
			}
			res.Cases += len(runs)
			res.Violations = append(res.Violations, viols...)
			for i, r := range runs {
				nt := len(r.Hist.Uploads) > 1
				for _, o := range r.Hist.Outcomes {
					if o == "reject" {
						nt = true
					}
				}
				if nt {
					seen[fmt.Sprintf("%v/%s", r.Hist.Uploads, mode)] = true
				}
				if i%(len(runs)/3+1) == 0 && len(res.Samples) < 6 {
					res.Samples = append(res.Samples, r)
				}
			}
		}
		res.Nontrivial = len(seen)
		writeResult(*resPath, res)
		return 0
	})
}
