package main

import (
	"bufio"
	"encoding/json"
	"flag"
	"fmt"
	"math/rand"
	"os"
	"os/exec"
	"strings"
	"time"

	"verif/harness/internal/drv"
	"verif/harness/internal/eng"
	"verif/harness/internal/fe"
)

func robustCases(casesPath string) ([]eng.RobustCase, error) {
	b, err := os.ReadFile(casesPath)
	if err != nil {
		return nil, err
	}
	var rows []eng.RobustRow
	if err := json.Unmarshal(b, &rows); err != nil {
		return nil, err
	}
	return append(eng.LatticeCases(rows), eng.CatalogueCases()...), nil
}

func init() {
	// the child runs cases from -from on and reports one line per case; a crash of the
	// server code (it runs in this process) is seen by the parent as a dead child
	register("robust-child", "internal: run robustness cases in this process", func(args []string) int {
		fs := flag.NewFlagSet("robust-child", flag.ExitOnError)
		seed := fs.Int64("seed", 1, "seed")
		casesPath := fs.String("cases", "", "lattice written by TLC")
		from := fs.Int("from", 0, "first case")
		mode := fs.String("mode", "zstd", "storage mode")
		_ = fs.Parse(args)
		cases, err := robustCases(*casesPath)
		if err != nil {
			fmt.Println("FATAL", err)
			return 2
		}
		p := drv.NewFakeProxy()
		p.Delay = 100 * time.Millisecond
		f, err := fe.New(fe.Opts{Mode: *mode, Proxy: p, MaxSize: 1 << 30})
		if err != nil {
			fmt.Println("FATAL", err)
			return 2
		}
		defer f.Close()
		rng := rand.New(rand.NewSource(*seed))
		out := bufio.NewWriter(os.Stdout)
		for i := *from; i < len(cases); i++ {
			fmt.Fprintf(out, "BEGIN %d\n", i)
			out.Flush()
			done := make(chan struct{})
			var ans string
			var cerr error
			go func() { ans, cerr = cases[i].Run(f, rng); close(done) }()
			select {
			case <-done:
			case <-time.After(90 * time.Second):
				ans, cerr = "HANG", nil
			}
			leaks := eng.AfterRequest(f)
			rec := map[string]any{"i": i, "answer": ans, "leaks": leaks}
			if cerr != nil {
				rec["error"] = cerr.Error()
			}
			b, _ := json.Marshal(rec)
			fmt.Fprintf(out, "END %s\n", b)
			out.Flush()
		}
		return 0
	})

	register("robust", "structure-level and directed malformed inputs, each observed from outside the serving process (C14)", func(args []string) int {
		fs := flag.NewFlagSet("robust", flag.ExitOnError)
		seed := fs.Int64("seed", 1, "seed")
		casesPath := fs.String("cases", "", "lattice written by TLC")
		tier := fs.String("tier", "quick", "quick|thorough")
		resPath := fs.String("result", "", "result JSON")
		_ = fs.Parse(args)
		res := &Result{Command: "robust", Seed: *seed, Rule: "one request (or short request sequence) per point of the TLC lattice of unset optional fields and per catalogue entry, per storage mode, executed in a child process; non-trivial = a field is unset or the input is from the malformed catalogue; distinct by case and mode"}
		cases, err := robustCases(*casesPath)
		if err != nil {
			res.Error = err.Error()
			writeResult(*resPath, res)
			return 2
		}
		modes := []string{"zstd"}
		if *tier == "thorough" {
			modes = []string{"zstd", "uncompressed"}
		}
		self, _ := os.Executable()
		for _, mode := range modes {
			from := 0
			for from < len(cases) {
				cmd := exec.Command(self, "robust-child", "-seed", fmt.Sprint(*seed), "-cases", *casesPath, "-from", fmt.Sprint(from), "-mode", mode)
				var stderr strings.Builder
				cmd.Stderr = &stderr
				stdout, _ := cmd.StdoutPipe()
				if err := cmd.Start(); err != nil {
					res.Error = err.Error()
					writeResult(*resPath, res)
					return 2
				}
				sc := bufio.NewScanner(stdout)
				sc.Buffer(make([]byte, 1<<20), 1<<24)
				cur := -1
				for sc.Scan() {
					line := sc.Text()
					switch {
					case strings.HasPrefix(line, "FATAL"):
						res.Error = line
					case strings.HasPrefix(line, "BEGIN "):
						fmt.Sscanf(line, "BEGIN %d", &cur)
					case strings.HasPrefix(line, "END "):
						var rec struct {
							I      int      `json:"i"`
							Answer string   `json:"answer"`
							Leaks  []string `json:"leaks"`
							Error  string   `json:"error"`
						}
						if json.Unmarshal([]byte(line[4:]), &rec) != nil {
							continue
						}
						c := cases[rec.I]
						res.Cases++
						if strings.Contains(c.Name, "unset=[") && !strings.HasSuffix(c.Name, "unset=[]") || c.Malformed || !strings.Contains(c.Name, "unset=") {
							res.Nontrivial++
						}
						if len(res.Samples) < 6 && rec.I%17 == 0 {
							res.Samples = append(res.Samples, map[string]any{"case": c.Name, "mode": mode, "answer": rec.Answer})
						}
						if rec.Error != "" {
							res.Error = fmt.Sprintf("case %q could not be set up: %s", c.Name, rec.Error)
						}
						if rec.Answer == "HANG" {
							res.Violations = append(res.Violations, drv.Violation{Prop: "C14", What: fmt.Sprintf("%s (mode %s): the request did not return within 90 s", c.Name, mode), Hist: rec.I})
						}
						if c.Malformed && (rec.Answer == "OK" || strings.HasPrefix(rec.Answer, "OK/")) && strings.Contains(c.Name, "unset=") {
							res.Violations = append(res.Violations, drv.Violation{Prop: "C14", What: fmt.Sprintf("%s (mode %s): malformed request answered %s instead of an error status", c.Name, mode, rec.Answer), Hist: rec.I})
						}
						for _, l := range rec.Leaks {
							res.Violations = append(res.Violations, drv.Violation{Prop: "C14", What: fmt.Sprintf("%s (mode %s): %s", c.Name, mode, l), Hist: rec.I})
						}
						cur = -1
						from = rec.I + 1
					}
				}
				err := cmd.Wait()
				if res.Error != "" {
					writeResult(*resPath, res)
					return 2
				}
				if cur >= 0 {
					// the child died inside case cur
					msg := stderr.String()
					if i := strings.Index(msg, "panic:"); i >= 0 {
						msg = msg[i:]
					}
					if len(msg) > 600 {
						msg = msg[:600]
					}
					res.Cases++
					res.Nontrivial++
					res.Violations = append(res.Violations, drv.Violation{Prop: "C14", What: fmt.Sprintf("%s (mode %s): the serving process died (%v): %s", cases[cur].Name, mode, err, strings.ReplaceAll(msg, "\n", " | ")), Hist: cur})
					from = cur + 1
				} else if err != nil && from < len(cases) {
					res.Error = fmt.Sprintf("child failed outside a case: %v: %s", err, stderr.String())
					writeResult(*resPath, res)
					return 2
				}
			}
		}
		writeResult(*resPath, res)
		return 0
	})
}
