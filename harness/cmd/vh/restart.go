package main

import (
	"encoding/json"
	"flag"
	"fmt"
	"os"

	"verif/harness/internal/eng"
)

func init() {
	register("restart", "materialise Restart.tla's directory populations and start the real cache on them (C09)", func(args []string) int {
		fs := flag.NewFlagSet("restart", flag.ExitOnError)
		seed := fs.Int64("seed", 1, "seed")
		casesPath := fs.String("cases", "", "case table written by TLC")
		tier := fs.String("tier", "quick", "quick|thorough")
		resPath := fs.String("result", "", "result JSON")
		_ = fs.Parse(args)
		res := &Result{Command: "restart", Seed: *seed, Rule: "one start-up per (population of the TLC table, max_size) with random kinds, layouts (v2 / two-level / flat), suffixes and storage mode after restart (quick: every 12th row, thorough: every 3rd row per repetition - three repetitions cover the table -, chosen by seed); non-trivial = the population exceeds max_size or holds a duplicate key; distinct by row"}
		b, err := os.ReadFile(*casesPath)
		var cases []eng.RestartCase
		if err == nil {
			err = json.Unmarshal(b, &cases)
		}
		if err != nil {
			res.Error = "reading cases: " + err.Error()
			writeResult(*resPath, res)
			return 2
		}
		stride := 12
		if *tier == "thorough" {
			stride = 3 // the runner repeats with seeds 1000 apart: three repetitions visit every row once
		}
		runs, viols, err := eng.RunRestart(cases, *seed, stride)
		if err != nil {
			res.Error = err.Error()
			writeResult(*resPath, res)
			return 2
		}
		res.Cases = len(runs)
		seen := map[string]bool{}
		for i, r := range runs {
			tot := 0
			keys := map[string]int{}
			for _, f := range r.Case.Files {
				tot += f.Size
				keys[f.Key]++
			}
			dup := false
			for _, n := range keys {
				if n > 1 {
					dup = true
				}
			}
			if tot > r.Case.Max || dup {
				seen[fmt.Sprintf("%v/%d", r.Case.Files, r.Case.Max)] = true
			}
			if i%(len(runs)/3+1) == 0 && len(res.Samples) < 6 {
				res.Samples = append(res.Samples, r)
			}
		}
		res.Nontrivial = len(seen)
		res.Violations = viols
		writeResult(*resPath, res)
		return 0
	})
}
