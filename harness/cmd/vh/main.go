// vh is the conformance harness: it drives the real bazel-remote code built
// from /repo's working tree (build tag verif) and writes traces, results and
// replays for the runner (/verif/check).
package main

import (
	"fmt"
	"io"
	"log"
	"os"
)

type command struct {
	name string
	run  func(args []string) int
	help string
}

var commands []command

func register(name, help string, run func(args []string) int) {
	commands = append(commands, command{name, run, help})
}

func main() {
	log.SetOutput(io.Discard)
	if len(os.Args) < 2 {
		usage()
		os.Exit(2)
	}
	for _, c := range commands {
		if c.name == os.Args[1] {
			os.Exit(c.run(os.Args[2:]))
		}
	}
	usage()
	os.Exit(2)
}

func usage() {
	fmt.Fprintln(os.Stderr, "usage: vh <command> [flags]")
	for _, c := range commands {
		fmt.Fprintf(os.Stderr, "  %-12s %s\n", c.name, c.help)
	}
}
