package main

import (
	"encoding/json"
	"flag"
	"fmt"
	"os"

	"verif/harness/internal/eng"
)

func init() {
	register("reads", "concretise CasBlob.tla's read plans: real and independent writers, every read path, offsets and limits (C02)", func(args []string) int {
		fs := flag.NewFlagSet("reads", flag.ExitOnError)
		seed := fs.Int64("seed", 1, "seed")
		casesPath := fs.String("cases", "", "plans written by TLC")
		tier := fs.String("tier", "quick", "quick|thorough")
		resPath := fs.String("result", "", "result JSON")
		_ = fs.Parse(args)
		res := &Result{Command: "reads", Seed: *seed, Rule: "one blob x offset per (read plan of the TLC table, writer, chunk size, size and offset perturbation by -1/0/+1, writer mode, reader mode, codec), each read through 8-17 paths; non-trivial = offset > 0 or more than one chunk; distinct by that tuple"}
		b, err := os.ReadFile(*casesPath)
		var plans []eng.ReadPlan
		if err == nil {
			err = json.Unmarshal(b, &plans)
		}
		if err != nil {
			res.Error = "reading cases: " + err.Error()
			writeResult(*resPath, res)
			return 2
		}
		runs, viols, err := eng.RunReads(plans, *seed, *tier)
		if err != nil {
			res.Error = err.Error()
			writeResult(*resPath, res)
			return 2
		}
		res.Cases = len(runs)
		seen := map[string]bool{}
		paths := 0
		for i, r := range runs {
			paths += r.Paths
			if r.Offset > 0 || r.Plan.Chunks > 1 {
				seen[fmt.Sprintf("%s/%d/%d/%d/%s/%s/%s", r.Writer, r.ChunkSize, r.Size, r.Offset, r.WriterMode, r.ReaderMode, r.Impl)] = true
			}
			if i%(len(runs)/4+1) == 0 && len(res.Samples) < 6 {
				res.Samples = append(res.Samples, r)
			}
		}
		res.Nontrivial = len(seen)
		res.Violations = viols
		res.Extra = map[string]any{"reads_performed": paths}
		writeResult(*resPath, res)
		return 0
	})
}
