package main

import (
	"encoding/json"
	"flag"
	"fmt"
	"os"

	"verif/harness/internal/eng"
)

type acTable struct {
	Shapes []eng.ACShape `json:"shapes"`
	Hists  []eng.ACHist  `json:"hists"`
}

func init() {
	register("acdeps", "execute ActionCache.tla's dependency shapes against gRPC GetActionResult and HTTP GET/HEAD (C06)", func(args []string) int {
		fs := flag.NewFlagSet("acdeps", flag.ExitOnError)
		seed := fs.Int64("seed", 1, "seed")
		casesPath := fs.String("cases", "", "case table written by TLC")
		tier := fs.String("tier", "quick", "quick|thorough")
		backend := fs.Bool("backend", false, "configure a proxy backend (the table must come from the matching configuration)")
		resPath := fs.String("result", "", "result JSON")
		_ = fs.Parse(args)
		res := &Result{Command: "acdeps", Seed: *seed, Rule: "one execution per (shape of the TLC table, storage mode, backend); non-trivial = the shape has a reference that is absent, mis-sized, oversize or only in the backend; distinct by shape"}
		b, err := os.ReadFile(*casesPath)
		var tab acTable
		if err == nil {
			err = json.Unmarshal(b, &tab)
		}
		if err != nil {
			res.Error = "reading cases: " + err.Error()
			writeResult(*resPath, res)
			return 2
		}
		modes := []string{"zstd"}
		if *tier == "thorough" {
			modes = []string{"zstd", "uncompressed"}
		}
		seen := map[string]bool{}
		for _, mode := range modes {
			runs, viols, err := eng.RunACDeps(tab.Shapes, *seed, mode, *backend)
			if err != nil {
				res.Error = err.Error()
				writeResult(*resPath, res)
				return 2
			}
			res.Cases += len(runs)
			res.Violations = append(res.Violations, viols...)
			for i, r := range runs {
				for _, x := range r.Shape.Refs {
					if x.State != "present" {
						seen[fmt.Sprintf("%v/%s", r.Shape.Refs, mode)] = true
					}
				}
				if i%(len(runs)/3+1) == 0 && len(res.Samples) < 6 {
					res.Samples = append(res.Samples, r)
				}
			}
		}
		res.Nontrivial = len(seen)
		writeResult(*resPath, res)
		return 0
	})
}
