package main

import (
	"bufio"
	"encoding/json"
	"flag"
	"fmt"
	"os"
	"strings"

	"verif/harness/internal/eng"
)

func init() {
	register("keyspace", "execute Keyspace.tla's write histories and probe every namespace / instance / front end (C15)", func(args []string) int {
		fs := flag.NewFlagSet("keyspace", flag.ExitOnError)
		seed := fs.Int64("seed", 1, "seed")
		casesPath := fs.String("cases", "", "final states printed by TLC (comma separated list of files)")
		tier := fs.String("tier", "quick", "quick|thorough")
		resPath := fs.String("result", "", "result JSON")
		_ = fs.Parse(args)
		res := &Result{Command: "keyspace", Seed: *seed, Rule: "one execution per write history of the TLC model (4 configurations: mangling x HTTP validation) with two instance names drawn from a catalogue (quick: every 4th history); after the history all 12 (front end, namespace, instance) reads are probed; non-trivial = the history writes to two namespaces or two instances; distinct by history and configuration"}
		var finals []eng.KSFinal
		for _, p := range strings.Split(*casesPath, ",") {
			fh, err := os.Open(p)
			if err != nil {
				res.Error = err.Error()
				writeResult(*resPath, res)
				return 2
			}
			sc := bufio.NewScanner(fh)
			sc.Buffer(make([]byte, 1<<20), 1<<24)
			for sc.Scan() {
				var f eng.KSFinal
				if json.Unmarshal([]byte(strings.TrimSpace(sc.Text())), &f) == nil && len(f.Hist) > 0 {
					finals = append(finals, f)
				}
			}
			fh.Close()
		}
		stride := 4
		if *tier == "thorough" {
			stride = 1
		}
		runs, viols, err := eng.RunKeyspace(finals, *seed, stride)
		if err != nil {
			res.Error = err.Error()
			writeResult(*resPath, res)
			return 2
		}
		res.Cases = len(runs)
		seen := map[string]bool{}
		for i, r := range runs {
			kinds, insts := map[string]bool{}, map[string]bool{}
			for _, w := range r.Hist {
				kinds[w.Kind+w.Front] = true
				insts[w.Inst] = true
			}
			if len(kinds) > 1 || len(insts) > 1 {
				seen[fmt.Sprintf("%v/%v/%v", r.Hist, r.Mangle, r.Validate)] = true
			}
			if i%(len(runs)/3+1) == 0 && len(res.Samples) < 6 {
				res.Samples = append(res.Samples, r)
			}
		}
		res.Nontrivial = len(seen)
		res.Violations = viols
		writeResult(*resPath, res)
		return 0
	})
}
