package main

import (
	"encoding/json"
	"flag"
	"fmt"
	"os"
	"strings"

	"verif/harness/internal/drv"
	"verif/harness/internal/eng"
)

func sizeList(tier string) []int {
	if tier == "thorough" {
		return []int{1, 4095, 4096, 4097, 1048575, 1048576, 1048577, 2109497, 3145728}
	}
	return []int{1, 4097, 1048576, 1048577}
}

func init() {
	register("ingress", "execute the Ingress.tla case table (C01 / C18) against real servers", func(args []string) int {
		fs := flag.NewFlagSet("ingress", flag.ExitOnError)
		seed := fs.Int64("seed", 1, "seed")
		casesPath := fs.String("cases", "", "case table written by TLC")
		tier := fs.String("tier", "quick", "quick|thorough")
		limits := fs.Bool("limits", false, "run the size-limit part of the table (C18)")
		only := fs.String("only", "", "report only violations of this property (the engine observes C01 / C18 outcomes and C14 residue)")
		resPath := fs.String("result", "", "result JSON")
		_ = fs.Parse(args)
		res := &Result{Command: "ingress", Seed: *seed, Rule: "one execution per (case of the TLC table, storage mode, zstd implementation, blob size); non-trivial = the upload is defective, pre-existing or at a limit; distinct by that tuple"}
		b, err := os.ReadFile(*casesPath)
		var cases []eng.IngressCase
		if err == nil {
			err = json.Unmarshal(b, &cases)
		}
		if err != nil {
			res.Error = "reading cases: " + err.Error()
			writeResult(*resPath, res)
			return 2
		}
		sizes := sizeList(*tier)
		impls := []string{"go"}
		if *tier == "thorough" {
			impls = []string{"go", "cgo"}
		}
		if *limits {
			sizes = []int{4097, 1048577}
			if *tier == "thorough" {
				sizes = []int{1, 4096, 4097, 1048576, 1048577}
			}
		}
		runs, viols, err := eng.RunIngress(cases, *seed, sizes, []string{"zstd", "uncompressed"}, impls, *limits)
		if err != nil {
			res.Error = err.Error()
			writeResult(*resPath, res)
			return 2
		}
		if *only != "" {
			var keep []drv.Violation
			for _, v := range viols {
				if v.Prop == *only {
					keep = append(keep, v)
				}
			}
			viols = keep
		}
		res.Cases = len(runs)
		seen := map[string]bool{}
		outcomes := map[string]int{}
		for _, r := range runs {
			outcomes[r.Case.Path+":"+r.Outcome]++
			if r.Case.Defect != "none" || r.Case.Present || r.Case.Limit != "none" {
				k := fmt.Sprintf("%s/%s/%v/%s/%s/%s/%d", r.Case.Path, r.Case.Defect, r.Case.Present, r.Case.Limit, r.Mode, r.Impl, r.Size)
				seen[k] = true
			}
		}
		res.Nontrivial = len(seen)
		for i, r := range runs {
			if i%(len(runs)/3+1) == 0 {
				res.Samples = append(res.Samples, r)
			}
		}
		res.Violations = viols
		res.Extra = map[string]any{"outcomes": outcomes, "sizes": sizes, "impls": strings.Join(impls, ",")}
		writeResult(*resPath, res)
		return 0
	})
}
