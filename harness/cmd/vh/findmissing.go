package main

import (
	"encoding/json"
	"flag"
	"fmt"
	"os"

	"verif/harness/internal/eng"
)

func init() {
	register("findmissing", "execute scaled FindMissing.tla request lists against the gRPC endpoint (C10)", func(args []string) int {
		fs := flag.NewFlagSet("findmissing", flag.ExitOnError)
		seed := fs.Int64("seed", 1, "seed")
		casesPath := fs.String("cases", "", "case table written by TLC")
		tier := fs.String("tier", "quick", "quick|thorough")
		resPath := fs.String("result", "", "result JSON")
		_ = fs.Parse(args)
		res := &Result{Command: "findmissing", Seed: *seed, Rule: "one request per (abstract class list of the TLC table, target length, layout, backend on/off); non-trivial = the request crosses a batch boundary of 20 or mixes present and absent classes; distinct by that tuple"}
		b, err := os.ReadFile(*casesPath)
		var cases []eng.FMCase
		if err == nil {
			err = json.Unmarshal(b, &cases)
		}
		if err != nil {
			res.Error = "reading cases: " + err.Error()
			writeResult(*resPath, res)
			return 2
		}
		lengths := []int{19, 20, 21, 41}
		if *tier == "thorough" {
			lengths = []int{1, 19, 20, 21, 39, 40, 41, 100, 300}
		}
		seen := map[string]bool{}
		for _, mode := range []string{"zstd", "uncompressed"} {
			if *tier != "thorough" && mode == "uncompressed" {
				continue
			}
			runs, viols, err := eng.RunFindMissing(cases, *seed, lengths, mode)
			if err != nil {
				res.Error = err.Error()
				writeResult(*resPath, res)
				return 2
			}
			res.Cases += len(runs)
			res.Violations = append(res.Violations, viols...)
			for i, r := range runs {
				mixed := r.Expected > 0 && r.Expected < r.Len
				if r.Len > 20 || mixed {
					seen[fmt.Sprintf("%v/%d/%s/%v/%s", r.Pattern, r.Len, r.Layout, r.Backend, mode)] = true
				}
				if i%(len(runs)/3+1) == 0 && len(res.Samples) < 6 {
					res.Samples = append(res.Samples, r)
				}
			}
		}
		res.Nontrivial = len(seen)
		writeResult(*resPath, res)
		return 0
	})
}
