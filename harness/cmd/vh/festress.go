package main

import (
	"encoding/json"
	"flag"
	"fmt"
	"os"
	"os/exec"
	"strings"

	"verif/harness/internal/drv"
	"verif/harness/internal/eng"
)

func init() {
	register("festress-child", "(child of festress) several clients upload and download the same blobs at once through HTTP and gRPC, identity and zstd; every successful download must be the blob (C07)", func(args []string) int {
		fs := flag.NewFlagSet("festress", flag.ExitOnError)
		seed := fs.Int64("seed", 1, "seed")
		tier := fs.String("tier", "quick", "quick|thorough")
		resPath := fs.String("result", "", "result JSON")
		_ = fs.Parse(args)
		res := &Result{Command: "festress", Seed: *seed, Rule: "one run per storage mode: 8 (thorough: 16) clients x 40 (200) random uploads / downloads of 8 blobs of 900 B .. 5 MiB through HTTP PUT/GET and ByteStream Write/Read, identity and zstd, BatchReadBlobs; non-trivial = runs in which downloads with content overlapped; distinct by mode and seed"}
		runs, viols, err := eng.RunFeStress(*seed, *tier)
		if err != nil {
			res.Error = err.Error()
			writeResult(*resPath, res)
			return 2
		}
		res.Cases = len(runs)
		for _, r := range runs {
			if r.Hits > 10 {
				res.Nontrivial++
			}
			res.Samples = append(res.Samples, r)
		}
		res.Violations = viols
		writeResult(*resPath, res)
		return 0
	})

	// the clients and the servers share a process: run them in a child so that a crash of the server code is an
	// observation (C14: no request may crash the server), not the death of the harness
	register("festress", "festress in a child process; a crash of the server code is reported as a violation (C07 / C14)", func(args []string) int {
		fs := flag.NewFlagSet("festress", flag.ExitOnError)
		seed := fs.Int64("seed", 1, "seed")
		tier := fs.String("tier", "quick", "quick|thorough")
		resPath := fs.String("result", "", "result JSON")
		_ = fs.Parse(args)
		tmp, err := os.CreateTemp("", "festress-*.json")
		if err != nil {
			return 2
		}
		tmp.Close()
		defer os.Remove(tmp.Name())
		self, _ := os.Executable()
		cmd := exec.Command(self, "festress-child", "-seed", fmt.Sprint(*seed), "-tier", *tier, "-result", tmp.Name())
		var stderr strings.Builder
		cmd.Stderr = &stderr
		runErr := cmd.Run()
		b, _ := os.ReadFile(tmp.Name())
		res := &Result{}
		if len(b) > 0 && json.Unmarshal(b, res) == nil && res.Command != "" {
			writeResult(*resPath, res)
			if res.Error != "" {
				return 2
			}
			return 0
		}
		res = &Result{Command: "festress", Seed: *seed, Rule: "see festress-child"}
		if runErr != nil && strings.Contains(stderr.String(), "goroutine ") {
			lines := strings.Split(stderr.String(), "\n")
			if len(lines) > 8 {
				lines = lines[:8]
			}
			res.Cases, res.Nontrivial = 1, 1
			res.Violations = []drv.Violation{{Prop: "C14", What: "the server code crashed while several clients were uploading and downloading the same blobs (HTTP and gRPC, identity and zstd): " + strings.Join(lines, " | ")}}
			writeResult(*resPath, res)
			return 0
		}
		res.Error = fmt.Sprintf("child failed without a result: %v %s", runErr, stderr.String())
		writeResult(*resPath, res)
		return 2
	})
}
