package main

import (
	"bytes"
	"context"
	"flag"
	"fmt"
	"os"
	"runtime"
	"sync/atomic"
	"time"

	"github.com/buchgr/bazel-remote/v2/cache"
	"github.com/buchgr/bazel-remote/v2/cache/disk"
	pb "github.com/buchgr/bazel-remote/v2/genproto/build/bazel/remote/execution/v2"
	"google.golang.org/protobuf/proto"

	"verif/harness/internal/drv"
	"verif/harness/internal/fe"
)

func init() {
	register("acrace", "replay of the FindMissing.tla fail-fast schedule: worker cancels and finishes before the waiter looks (C06)", func(args []string) int {
		fs := flag.NewFlagSet("acrace", flag.ExitOnError)
		seed := fs.Int64("seed", 1, "seed")
		iters := fs.Int("iters", 400, "lookups")
		resPath := fs.String("result", "", "result JSON")
		_ = fs.Parse(args)
		res := &Result{Command: "acrace", Seed: *seed, Rule: "each lookup of an ActionResult whose only referenced blob is absent locally and in the backend is one execution of the schedule; non-trivial = the backend worker was consulted; distinct by iteration"}
		// one P: the backend worker runs cancel() and wg.Done() back to back before the
		// request goroutine looks at its select - the schedule of the TLC counterexample
		if n := os.Getenv("VH_PROCS"); n != "" {
			var k int
			fmt.Sscan(n, &k)
			runtime.GOMAXPROCS(k)
		}
		p := drv.NewFakeProxy()
		f, err := fe.New(fe.Opts{Proxy: p})
		if err != nil {
			res.Error = err.Error()
			writeResult(*resPath, res)
			return 2
		}
		defer f.Close()
		ctx := context.Background()
		absent := drv.MkBlob([]byte(fmt.Sprintf("absent-%d", *seed)))
		ar := &pb.ActionResult{OutputFiles: []*pb.OutputFile{{Path: "o", Digest: &pb.Digest{Hash: absent.Hash, SizeBytes: 500}}},
			ExecutionMetadata: &pb.ExecutedActionMetadata{Worker: "w"}}
		data, _ := proto.Marshal(ar)
		key := drv.MkBlob([]byte("acrace-key")).Hash
		if err := f.Cache.Put(ctx, cache.AC, key, int64(len(data)), bytes.NewReader(data)); err != nil {
			res.Error = err.Error()
			writeResult(*resPath, res)
			return 2
		}
		// the gate holds the request goroutine just before its final select until the
		// backend worker has answered (cancel + Done) and the waiter has closed its channel
		var seenBefore atomic.Int64
		disk.VerifSetGate(func(lru uint64, g int64, point string) {
			if point != "findmissing.wait" {
				return
			}
			for i := 0; i < 4000 && int64(p.ContainsCalls()) <= seenBefore.Load(); i++ {
				time.Sleep(50 * time.Microsecond)
			}
			time.Sleep(2 * time.Millisecond)
		})
		defer disk.VerifSetGate(nil)
		hits := 0
		for i := 0; i < *iters; i++ {
			before := p.ContainsCalls()
			seenBefore.Store(int64(before))
			r, _, err := f.Cache.GetValidatedActionResult(ctx, key)
			if err != nil {
				continue
			}
			res.Cases++
			if p.ContainsCalls() > before {
				res.Nontrivial++
			}
			if r != nil {
				hits++
			}
		}
		if hits > 0 {
			res.Violations = append(res.Violations, drv.Violation{Prop: "C06", What: fmt.Sprintf("action-cache hit although the referenced blob is absent locally and in the backend (%d of %d lookups; fail-fast cancellation lost against the wait group)", hits, *iters)})
		}
		res.Samples = append(res.Samples, map[string]any{"lookups": *iters, "hits": hits, "schedule": "Take(w); Answer(w): cancel, Done; Wait sees both ready"})
		// the opposite window: the waiter is not held back, the worker is slow around its log line (an access log on a
		// slow device): whatever the worker does after telling the wait group must not matter to the answer
		disk.VerifSetGate(nil)
		p2 := drv.NewFakeProxy()
		f2, err := fe.New(fe.Opts{Proxy: p2, AccessLog: slowWriter{}})
		if err != nil {
			res.Error = err.Error()
			writeResult(*resPath, res)
			return 2
		}
		defer f2.Close()
		present := drv.MkBlob([]byte(fmt.Sprintf("present-%d", *seed)))
		if err := f2.Cache.Put(ctx, cache.CAS, present.Hash, int64(len(present.Data)), bytes.NewReader(present.Data)); err != nil {
			res.Error = err.Error()
			writeResult(*resPath, res)
			return 2
		}
		ar2 := &pb.ActionResult{OutputFiles: []*pb.OutputFile{{Path: "p", Digest: &pb.Digest{Hash: present.Hash, SizeBytes: int64(len(present.Data))}},
			{Path: "o", Digest: &pb.Digest{Hash: absent.Hash, SizeBytes: 500}}}, ExecutionMetadata: &pb.ExecutedActionMetadata{Worker: "w"}}
		data2, _ := proto.Marshal(ar2)
		if err := f2.Cache.Put(ctx, cache.AC, key, int64(len(data2)), bytes.NewReader(data2)); err != nil {
			res.Error = err.Error()
			writeResult(*resPath, res)
			return 2
		}
		hits2, n2 := 0, *iters/3+20
		for i := 0; i < n2; i++ {
			r, _, err := f2.Cache.GetValidatedActionResult(ctx, key)
			if err != nil {
				continue
			}
			res.Cases++
			res.Nontrivial++
			if r != nil {
				hits2++
			}
		}
		if hits2 > 0 {
			res.Violations = append(res.Violations, drv.Violation{Prop: "C06", What: fmt.Sprintf("action-cache hit although a referenced blob is absent locally and in the backend (%d of %d lookups with a slow access log: the waiter saw the wait group drained before the miss was recorded)", hits2, n2)})
		}
		writeResult(*resPath, res)
		return 0
	})
}

// slowWriter is an access log on a slow device.
type slowWriter struct{}

func (slowWriter) Write(b []byte) (int, error) {
	time.Sleep(2 * time.Millisecond)
	return len(b), nil
}
