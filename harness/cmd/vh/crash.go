package main

import (
	"encoding/json"
	"flag"
	"fmt"
	"os"

	"verif/harness/internal/eng"
)

func init() {
	register("crash", "kill images of the real cache at every place of Crash.tla's table, restart, read (C08)", func(args []string) int {
		fs := flag.NewFlagSet("crash", flag.ExitOnError)
		seed := fs.Int64("seed", 1, "seed")
		casesPath := fs.String("cases", "", "table written by TLC")
		tier := fs.String("tier", "quick", "quick|thorough")
		resPath := fs.String("result", "", "result JSON")
		_ = fs.Parse(args)
		res := &Result{Command: "crash", Seed: *seed, Rule: "one execution per (kind, storage mode, earlier version present, writer = upload|backend fetch, concrete kill place, storage mode after the restart): the directory is copied while the writer is held at that place, a new instance is started on the copy and the key, two bystanders and the accounting are examined; plus images between the remover's unlinks; non-trivial = images in which a file of the key exists; distinct by that tuple"}
		b, err := os.ReadFile(*casesPath)
		var cases []eng.CrashCase
		if err == nil {
			err = json.Unmarshal(b, &cases)
		}
		if err != nil {
			res.Error = "reading cases: " + err.Error()
			writeResult(*resPath, res)
			return 2
		}
		runs, viols, err := eng.RunCrash(cases, *seed, *tier)
		if err != nil {
			res.Error = err.Error()
			writeResult(*resPath, res)
			return 2
		}
		res.Cases = len(runs)
		seen := map[string]bool{}
		for i, r := range runs {
			if len(r.Files) > 0 || r.Case.Point == "evict" {
				seen[fmt.Sprintf("%s/%s/%v/%s/%s/%s", r.Case.Kind, r.Case.Mode, r.Case.Old, r.Writer, r.Where, r.Restart)] = true
			}
			if i%(len(runs)/5+1) == 0 {
				res.Samples = append(res.Samples, r)
			}
		}
		res.Nontrivial = len(seen)
		res.Violations = viols
		writeResult(*resPath, res)
		return 0
	})
}
