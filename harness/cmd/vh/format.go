package main

import (
	"flag"

	"verif/harness/internal/eng"
)

func init() {
	register("format", "storage format: independent encodings with headers rendered by Format.tla, files and backend objects written by this build, names (C20)", func(args []string) int {
		fs := flag.NewFlagSet("format", flag.ExitOnError)
		seed := fs.Int64("seed", 1, "seed")
		phase := fs.String("phase", "run", "prep|run")
		prep := fs.String("prep", "", "directory of prepared encodings")
		headers := fs.String("headers", "", "header bytes rendered by TLC")
		names := fs.String("names", "", "names table written by TLC")
		record := fs.String("record", "", "output: headers of files written by this build (ndjson)")
		tier := fs.String("tier", "quick", "quick|thorough")
		resPath := fs.String("result", "", "result JSON")
		_ = fs.Parse(args)
		res := &Result{Command: "format", Seed: *seed, Rule: "one experiment per independently encoded file x storage mode x codec (all read paths and chunk-edge offsets), per entry written by this build (name, bytes, independent decode), and per backend x mode x prefix (names and objects in both directions); non-trivial = all of them; distinct by description"}
		if *phase == "prep" {
			n, err := eng.FormatPrep(*prep, *seed, *tier)
			if err != nil {
				res.Error = err.Error()
				writeResult(*resPath, res)
				return 2
			}
			res.Cases = n
			res.Nontrivial = n
			writeResult(*resPath, res)
			return 0
		}
		runs, viols, err := eng.FormatRun(*prep, *headers, *names, *record, *seed, *tier)
		if err != nil {
			res.Error = err.Error()
			writeResult(*resPath, res)
			return 2
		}
		res.Cases = len(runs)
		seen := map[string]bool{}
		checks := 0
		parts := map[string]int{}
		for i, r := range runs {
			seen[r.Part+"/"+r.What] = true
			checks += r.Checks
			parts[r.Part]++
			if i%(len(runs)/5+1) == 0 {
				res.Samples = append(res.Samples, r)
			}
		}
		res.Nontrivial = len(seen)
		res.Violations = viols
		res.Extra = map[string]any{"comparisons": checks, "experiments_by_part": parts}
		writeResult(*resPath, res)
		return 0
	})
}
