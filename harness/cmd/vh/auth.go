package main

import (
	"encoding/json"
	"flag"
	"fmt"
	"os"

	"verif/harness/internal/eng"
)

func init() {
	register("auth", "replay Auth.tla's decision table against the real bazel-remote binary (C13)", func(args []string) int {
		fs := flag.NewFlagSet("auth", flag.ExitOnError)
		seed := fs.Int64("seed", 1, "seed")
		casesPath := fs.String("cases", "", "decision table written by TLC")
		bin := fs.String("server", "", "bazel-remote binary built from /repo")
		_ = fs.String("tier", "quick", "quick|thorough")
		resPath := fs.String("result", "", "result JSON")
		_ = fs.Parse(args)
		res := &Result{Command: "auth", Seed: *seed, Rule: "one request per row of the TLC table (server configuration x endpoint x credential state), plus every registered gRPC method the table does not list; non-trivial = authentication is enabled and the credentials are not valid; distinct by row"}
		b, err := os.ReadFile(*casesPath)
		var rows []eng.AuthRow
		if err == nil {
			err = json.Unmarshal(b, &rows)
		}
		if err != nil {
			res.Error = "reading cases: " + err.Error()
			writeResult(*resPath, res)
			return 2
		}
		runs, viols, err := eng.RunAuth(*bin, rows, *seed)
		if err != nil {
			res.Error = err.Error()
			writeResult(*resPath, res)
			return 2
		}
		res.Cases = len(runs)
		seen := map[string]bool{}
		unreg := 0
		for i, r := range runs {
			if r.Observed == "unregistered" {
				unreg++
			}
			if r.Row.Auth != "none" && r.Row.Cred != "valid" && r.Row.Cred != "validCert" {
				seen[fmt.Sprintf("%v/%s", r.Row, r.Detail)] = true
			}
			if i%(len(runs)/4+1) == 0 && len(res.Samples) < 6 {
				res.Samples = append(res.Samples, r)
			}
		}
		res.Nontrivial = len(seen)
		res.Violations = viols
		res.Extra = map[string]any{"rows_for_unregistered_methods": unreg}
		writeResult(*resPath, res)
		return 0
	})
}
