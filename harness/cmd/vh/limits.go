package main

import (
	"encoding/json"
	"flag"
	"fmt"
	"os"

	"verif/harness/internal/eng"
)

func init() {
	register("limits", "max_proxy_blob_size on every backend-read path and the advertised max_blob_size (C18)", func(args []string) int {
		fs := flag.NewFlagSet("limits", flag.ExitOnError)
		seed := fs.Int64("seed", 1, "seed")
		casesPath := fs.String("cases", "", "table written by TLC")
		resPath := fs.String("result", "", "result JSON")
		_ = fs.Parse(args)
		res := &Result{Command: "limits", Seed: *seed, Rule: "one execution per (backend-read path, size relation to max_proxy_blob_size, storage mode, limit value) on a fresh backend-only object; non-trivial = objects at or above the limit; distinct by that tuple"}
		b, err := os.ReadFile(*casesPath)
		var cases []eng.LimCase
		if err == nil {
			err = json.Unmarshal(b, &cases)
		}
		if err != nil {
			res.Error = "reading cases: " + err.Error()
			writeResult(*resPath, res)
			return 2
		}
		runs, viols, err := eng.RunLimits(cases, *seed)
		if err != nil {
			res.Error = err.Error()
			writeResult(*resPath, res)
			return 2
		}
		res.Cases = len(runs)
		seen := map[string]bool{}
		for i, r := range runs {
			if r.Case.Relation != "below" {
				seen[fmt.Sprintf("%s/%s/%s/%d", r.Case.Path, r.Case.Relation, r.Mode, r.Limit)] = true
			}
			if i%(len(runs)/4+1) == 0 {
				res.Samples = append(res.Samples, r)
			}
		}
		res.Nontrivial = len(seen)
		res.Violations = viols
		writeResult(*resPath, res)
		return 0
	})
}
