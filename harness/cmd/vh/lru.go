package main

import (
	"flag"
	"fmt"
	"math/rand"
	"os"
	"time"

	"github.com/buchgr/bazel-remote/v2/cache/disk"

	"verif/harness/internal/drv"
	"verif/harness/internal/rec"
)

func init() {
	register("lru", "random operation sequences on the bare index (SizedLRU): additions with and without reservations, overwrites that change size, refusals; writes a trace for LruTrace.tla", func(args []string) int {
		fs := flag.NewFlagSet("lru", flag.ExitOnError)
		seed := fs.Int64("seed", 1, "seed")
		hists := fs.Int("hists", 100, "number of histories")
		ops := fs.Int("ops", 80, "operations per history")
		out := fs.String("trace", "", "trace output (ndjson)")
		resPath := fs.String("result", "", "result JSON")
		_ = fs.Parse(args)
		rng := rand.New(rand.NewSource(*seed))
		r := rec.Start()
		res := &Result{Command: "lru", Seed: *seed, Rule: "one history = one bare index with a random limit and a random sequence of Reserve / Unreserve / Add (new and overwriting, with and without outstanding reservations) / Get / RemoveKey; non-trivial = at least one eviction, one refused operation and one overwrite under outstanding reservations; distinct by seed"}
		sizes := func(block int64) []int64 {
			return []int64{0, 1, block - 1, block, block + 1, 2 * block, 2*block + 1, 3 * block, 5 * block}
		}
		for h := 0; h < *hists; h++ {
			const block = 4096
			max := int64(2+rng.Intn(6)) * block
			if rng.Intn(4) == 0 {
				max += int64(rng.Intn(block))
			}
			var hl int64
			if rng.Intn(3) == 0 {
				hl = max + int64(rng.Intn(3))*block
			}
			l := disk.VerifNewLRU(max, hl)
			keys := make([]string, 4)
			for i := range keys {
				keys[i] = fmt.Sprintf("%s/%064x", []string{"cas", "ac", "raw", "cas"}[i], rng.Int63())
			}
			var held []int64
			evicted, refused, owr := false, false, false
			before := r.Len()
			sz := sizes(block)
			var lastOp string
			done := make(chan struct{})
			go func() {
				defer close(done)
				for o := 0; o < *ops; o++ {
					switch rng.Intn(10) {
					case 0, 1:
						s := sz[rng.Intn(len(sz))]
						if rng.Intn(12) == 0 {
							s = max + 1
						}
						lastOp = fmt.Sprintf("Reserve(%d)", s)
						if err := l.Reserve(s); err == nil {
							if s > 0 {
								held = append(held, s)
							}
						} else {
							refused = true
						}
					case 2:
						if len(held) > 0 {
							i := rng.Intn(len(held))
							lastOp = fmt.Sprintf("Unreserve(%d)", held[i])
							_ = l.Unreserve(held[i])
							held = append(held[:i], held[i+1:]...)
						}
					case 3, 4, 5, 6:
						k := keys[rng.Intn(len(keys))]
						lsz := sz[1+rng.Intn(len(sz)-1)]
						dsz := sz[1+rng.Intn(len(sz)-1)]
						_, el := l.Get(k) // tells us whether the addition overwrites
						lastOp = fmt.Sprintf("Add(%s.., size %d, on disk %d) with %d reservation(s) outstanding, overwrite=%v", k[:8], lsz, dsz, len(held), el != nil)
						ok := disk.VerifLruAdd(l, k, lsz, dsz, fmt.Sprintf("%09d", rng.Intn(1e9)), k[:3] == "cas" && rng.Intn(2) == 0)
						if !ok {
							refused = true
						}
						if el != nil && len(held) > 0 {
							owr = true
						}
					case 7, 8:
						lastOp = "Get"
						l.Get(keys[rng.Intn(len(keys))])
					case 9:
						lastOp = "RemoveKey"
						l.RemoveKey(keys[rng.Intn(len(keys))])
					}
					if rng.Intn(6) == 0 {
						for i := 0; i < 2000 && !disk.VerifLruIdle(l); i++ {
							time.Sleep(50 * time.Microsecond)
						}
					}
				}
				for _, s := range held {
					_ = l.Unreserve(s)
				}
				for i := 0; i < 20000 && !disk.VerifLruIdle(l); i++ {
					time.Sleep(50 * time.Microsecond)
				}
			}()
			select {
			case <-done:
			case <-time.After(20 * time.Second):
				// an in-memory index operation that has not returned after 20 s never will
				res.Violations = append(res.Violations, drv.Violation{Prop: "C07", What: fmt.Sprintf("bare index (max_size %d, hard limit %d): %s does not return (20 s)", max, hl, lastOp), Hist: h})
				res.Cases++
				r.Stop()
				writeTrace(*out, r, res)
				writeResult(*resPath, res)
				os.Exit(0)
			}
			for _, e := range r.Events()[before:] {
				if len(e.Victims) > 0 {
					evicted = true
				}
			}
			res.Cases++
			if evicted && refused && owr {
				res.Nontrivial++
			}
			if len(res.Samples) < 2 {
				res.Samples = append(res.Samples, map[string]any{"max_size": max, "hard_limit": hl, "events": r.Len() - before})
			}
		}
		r.Stop()
		writeTrace(*out, r, res)
		writeResult(*resPath, res)
		if res.Error != "" {
			return 2
		}
		return 0
	})
}
