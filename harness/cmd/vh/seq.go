package main

import (
	"bufio"
	"encoding/json"
	"flag"
	"fmt"
	"math/rand"
	"os"

	"verif/harness/internal/drv"
	"verif/harness/internal/rec"
)

// Result is the JSON document every driver command writes for the runner.
type Result struct {
	Command    string          `json:"command"`
	Seed       int64           `json:"seed"`
	Cases      int             `json:"cases"`      // histories / cases executed
	Nontrivial int             `json:"nontrivial"` // distinct non-trivial ones, by Rule
	Rule       string          `json:"rule"`
	Samples    []any           `json:"samples"`
	Violations []drv.Violation `json:"violations"`
	Trace      *rec.Stats      `json:"trace,omitempty"`
	Extra      map[string]any  `json:"extra,omitempty"`
	Error      string          `json:"error,omitempty"` // machinery error (exit 2)
}

func writeResult(path string, r *Result) {
	if r.Violations == nil {
		r.Violations = []drv.Violation{}
	}
	if r.Samples == nil {
		r.Samples = []any{}
	}
	b, _ := json.MarshalIndent(r, "", " ")
	if path == "" {
		fmt.Println(string(b))
		return
	}
	_ = os.WriteFile(path, b, 0644)
}

func init() {
	register("seq", "sequential random histories on disk.Cache; writes a trace for LruTrace.tla", func(args []string) int {
		fs := flag.NewFlagSet("seq", flag.ExitOnError)
		seed := fs.Int64("seed", 1, "seed")
		hists := fs.Int("hists", 20, "number of histories")
		ops := fs.Int("ops", 40, "operations per history")
		out := fs.String("trace", "", "trace output (ndjson)")
		resPath := fs.String("result", "", "result JSON")
		_ = fs.Parse(args)

		rng := rand.New(rand.NewSource(*seed))
		r := rec.Start()
		res := &Result{Command: "seq", Seed: *seed, Rule: "a history is non-trivial if it evicted at least one entry and reached at least one quiescent directory comparison; distinct by operation sequence"}
		seen := map[string]bool{}
		for h := 0; h < *hists; h++ {
			cfg := drv.SeqConfig{Seed: rng.Int63(), Ops: *ops, Hist: h}
			cfg.Mode = []string{"zstd", "uncompressed"}[h%2]
			cfg.MaxSize = []int64{16384, 32768, 40000, 65536, 131072}[rng.Intn(5)]
			if rng.Intn(3) == 0 {
				cfg.HardLimit = cfg.MaxSize + []int64{0, 4096, 16384}[rng.Intn(3)]
			}
			cfg.Proxy = h%4 >= 2 && h%8 < 4 // both storage modes, a quarter of the histories
			before := r.Len()
			sr, err := drv.RunSeq(cfg)
			if err != nil {
				res.Error = fmt.Sprintf("history %d: %v", h, err)
				writeResult(*resPath, res)
				return 2
			}
			res.Cases++
			res.Violations = append(res.Violations, sr.Violations...)
			sig, _ := json.Marshal(sr.Ops)
			evicted := 0
			for _, e := range r.Events()[before:] {
				evicted += len(e.Victims)
			}
			if evicted > 0 && sr.Quiescent > 0 && !seen[string(sig)] {
				seen[string(sig)] = true
				res.Nontrivial++
			}
			if len(res.Samples) < 2 {
				n := len(sr.Ops)
				if n > 12 {
					n = 12
				}
				res.Samples = append(res.Samples, map[string]any{"mode": cfg.Mode, "max_size": cfg.MaxSize, "hard_limit": cfg.HardLimit, "proxy": cfg.Proxy, "first_ops": sr.Ops[:n]})
			}
		}
		r.Stop()
		st := &rec.Stats{}
		if *out != "" {
			f, err := os.Create(*out)
			if err != nil {
				res.Error = err.Error()
				writeResult(*resPath, res)
				return 2
			}
			w := bufio.NewWriter(f)
			if err := rec.Write(w, r.Events(), st); err != nil {
				res.Error = err.Error()
			}
			_ = w.Flush()
			_ = f.Close()
		}
		res.Trace = st
		writeResult(*resPath, res)
		if res.Error != "" {
			return 2
		}
		return 0
	})
}
