package main

import (
	"bufio"
	"flag"
	"os"
	"path/filepath"
	"sort"

	"github.com/buchgr/bazel-remote/v2/cache/disk"

	"verif/harness/internal/rec"
)

func init() {
	// The repository's own tests are compiled with the verif tag and run with VERIF_TRACE set: every test
	// process then appends the events of every index it creates to a file of its own.  This command turns
	// those files into traces for LruTrace.tla (one trace per index instance).
	register("rawconv", "convert event files written by the VERIF_TRACE file sink (e.g. by the repository's own tests) into traces for LruTrace.tla", func(args []string) int {
		fs := flag.NewFlagSet("rawconv", flag.ExitOnError)
		in := fs.String("in", "", "glob of raw event files")
		out := fs.String("trace", "", "trace output (ndjson)")
		maxLines := fs.Int("maxlines", 20000, "skip index instances with more events than this")
		resPath := fs.String("result", "", "result JSON")
		_ = fs.Parse(args)
		res := &Result{Command: "rawconv", Rule: "one trace per index instance created by a test process; non-trivial = instances with at least one eviction"}
		files, _ := filepath.Glob(*in)
		sort.Strings(files)
		if len(files) == 0 {
			res.Error = "no event files match " + *in
			writeResult(*resPath, res)
			return 2
		}
		f, err := os.Create(*out)
		if err != nil {
			res.Error = err.Error()
			writeResult(*resPath, res)
			return 2
		}
		w := bufio.NewWriter(f)
		st := &rec.Stats{}
		big := 0
		for _, p := range files {
			evs, err := rec.ReadRaw(p)
			if err != nil {
				res.Error = err.Error()
				break
			}
			// per instance: drop oversized ones, count evictions
			by := map[uint64][]disk.VerifEvent{}
			order := []uint64{}
			for _, e := range evs {
				if _, ok := by[e.Lru]; !ok {
					order = append(order, e.Lru)
				}
				by[e.Lru] = append(by[e.Lru], e)
			}
			for _, id := range order {
				es := by[id]
				res.Cases++
				if len(es) > *maxLines {
					big++
					continue
				}
				ev := 0
				for _, e := range es {
					ev += len(e.Victims)
				}
				if ev > 0 {
					res.Nontrivial++
				}
				if err := rec.Write(w, es, st); err != nil {
					res.Error = err.Error()
				}
			}
		}
		_ = w.Flush()
		_ = f.Close()
		res.Trace = st
		res.Extra = map[string]any{"files": len(files), "instances_skipped_for_length": big}
		writeResult(*resPath, res)
		if res.Error != "" {
			return 2
		}
		return 0
	})
}
