package main

import (
	"bufio"
	"encoding/json"
	"flag"
	"os"
	"strings"

	"verif/harness/internal/eng"
)

func init() {
	register("bytestream", "execute ByteStream.tla's client scripts over bufconn (C16) and check that every party of the call terminates (C14)", func(args []string) int {
		fs := flag.NewFlagSet("bytestream", flag.ExitOnError)
		seed := fs.Int64("seed", 1, "seed")
		casesPath := fs.String("cases", "", "final states printed by TLC (one JSON object per line)")
		tier := fs.String("tier", "quick", "quick|thorough")
		resPath := fs.String("result", "", "result JSON")
		_ = fs.Parse(args)
		res := &Result{Command: "bytestream", Seed: *seed, Rule: "one call per (client script of the TLC model, blob size) (quick: every 3rd script, chosen by seed); non-trivial = the script is malformed, aborted, compressed or hits an existing blob; distinct by script and size"}
		fh, err := os.Open(*casesPath)
		if err != nil {
			res.Error = err.Error()
			writeResult(*resPath, res)
			return 2
		}
		var finals []eng.BSFinal
		sc := bufio.NewScanner(fh)
		sc.Buffer(make([]byte, 1<<20), 1<<24)
		for sc.Scan() {
			var f eng.BSFinal
			if json.Unmarshal([]byte(strings.TrimSpace(sc.Text())), &f) == nil && f.Script.Ending != "" {
				finals = append(finals, f)
			}
		}
		fh.Close()
		sizes := []int{9, 70000, -(1 << 20)} // and, for a quarter of the scripts, exactly one storage chunk
		stride := 3
		if *tier == "thorough" {
			sizes = []int{9, 4097, 2*1024*1024 + 5, -(1 << 20), -(2 << 20)}
			stride = 1
		}
		runs, viols, err := eng.RunByteStream(finals, *seed, sizes, stride)
		if err != nil {
			res.Error = err.Error()
			writeResult(*resPath, res)
			return 2
		}
		res.Cases = len(runs)
		seen := map[string]bool{}
		for i, r := range runs {
			s := r.Script
			if s.Name != "ok" || s.Offset != 0 || s.Zstd || s.Exists || s.Ending == "abort" || r.Answer == "error" {
				b, _ := json.Marshal(r.Script)
				seen[string(b)+"/"+string(rune(r.BlobSize))] = true
			}
			if i%(len(runs)/3+1) == 0 && len(res.Samples) < 6 {
				res.Samples = append(res.Samples, r)
			}
		}
		res.Nontrivial = len(seen)
		res.Violations = viols
		writeResult(*resPath, res)
		return 0
	})
}
