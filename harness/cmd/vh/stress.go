package main

import (
	"bufio"
	"flag"
	"fmt"
	"math/rand"
	"os"

	"verif/harness/internal/drv"
	"verif/harness/internal/rec"
)

func writeTrace(path string, r *rec.Recorder, res *Result) {
	st := &rec.Stats{}
	if path != "" {
		f, err := os.Create(path)
		if err != nil {
			res.Error = err.Error()
			return
		}
		w := bufio.NewWriter(f)
		if err := rec.Write(w, r.Events(), st); err != nil {
			res.Error = err.Error()
		}
		_ = w.Flush()
		_ = f.Close()
	}
	res.Trace = st
}

func init() {
	register("stress", "free-running concurrent histories on disk.Cache; writes a trace for LruTrace.tla", func(args []string) int {
		fs := flag.NewFlagSet("stress", flag.ExitOnError)
		seed := fs.Int64("seed", 1, "seed")
		hists := fs.Int("hists", 6, "number of histories")
		rounds := fs.Int("rounds", 6, "rounds per history")
		workers := fs.Int("workers", 6, "goroutines")
		ops := fs.Int("ops", 12, "operations per goroutine and round")
		out := fs.String("trace", "", "trace output (ndjson)")
		resPath := fs.String("result", "", "result JSON")
		_ = fs.Parse(args)

		rng := rand.New(rand.NewSource(*seed))
		r := rec.Start()
		res := &Result{Command: "stress", Seed: *seed, Rule: "a history is non-trivial if it had at least one hit and one quiescent comparison; distinct by seed"}
		for h := 0; h < *hists; h++ {
			cfg := drv.StressConfig{Seed: rng.Int63(), Rounds: *rounds, Workers: *workers, OpsPer: *ops, Hist: h}
			cfg.Mode = []string{"zstd", "uncompressed"}[h%2]
			cfg.MaxSize = []int64{32768, 49152, 65536}[rng.Intn(3)]
			cfg.Corrupt = h%3 != 2
			if h%4 == 3 {
				cfg.Storm = 72
				cfg.MaxSize = 2 << 20
			}
			sr, err := drv.RunStress(cfg)
			if err != nil {
				res.Error = fmt.Sprintf("history %d: %v", h, err)
				writeResult(*resPath, res)
				return 2
			}
			res.Cases++
			res.Violations = append(res.Violations, sr.Violations...)
			if sr.Hits > 0 && sr.Quiescent > 0 {
				res.Nontrivial++
			}
			if len(res.Samples) < 3 {
				res.Samples = append(res.Samples, map[string]any{"mode": cfg.Mode, "max_size": cfg.MaxSize, "corrupt": cfg.Corrupt, "workers": cfg.Workers, "rounds": cfg.Rounds, "ops": sr.Ops, "hits": sr.Hits})
			}
		}
		r.Stop()
		writeTrace(*out, r, res)
		writeResult(*resPath, res)
		if res.Error != "" {
			return 2
		}
		return 0
	})
}
