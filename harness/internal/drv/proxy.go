package drv

import (
	"bytes"
	"context"
	"errors"
	"io"
	"sync"
	"time"

	"github.com/buchgr/bazel-remote/v2/cache"
)

// Fault describes how the fake backend misbehaves for the next Get of a key.
type Fault struct {
	Kind string // "", "err", "notfound", "short", "long", "midstreamErr", "wrongSize", "unknownSize", "oversize"
	At   int    // byte offset for stream faults
}

// FakeProxy is an in-memory cache.Proxy with scripted faults.
type FakeProxy struct {
	mu     sync.Mutex
	Objs   map[string][]byte // lookup key -> bytes in on-disk format
	Sizes  map[string]int64  // lookup key -> logical size
	Faults map[string]Fault
	Puts   []string // keys handed to Put, in order
	Gets   []string
	Conts  []string
	Open   int           // readers handed out by Get and not yet closed
	Delay  time.Duration // latency of Contains (a real backend is never instantaneous)
}

func NewFakeProxy() *FakeProxy {
	return &FakeProxy{Objs: map[string][]byte{}, Sizes: map[string]int64{}, Faults: map[string]Fault{}}
}

func (p *FakeProxy) Put(ctx context.Context, kind cache.EntryKind, hash string, logicalSize int64, sizeOnDisk int64, rc io.ReadCloser) {
	b, err := io.ReadAll(rc)
	_ = rc.Close()
	if err != nil {
		return
	}
	k := cache.LookupKey(kind, hash)
	p.mu.Lock()
	p.Objs[k] = b
	p.Sizes[k] = logicalSize
	p.Puts = append(p.Puts, k)
	p.mu.Unlock()
}

type trackedReader struct {
	io.Reader
	p      *FakeProxy
	closed bool
}

func (t *trackedReader) Close() error {
	t.p.mu.Lock()
	if !t.closed {
		t.closed = true
		t.p.Open--
	}
	t.p.mu.Unlock()
	return nil
}

type errAfter struct {
	r   io.Reader
	err error
}

func (e *errAfter) Read(b []byte) (int, error) {
	n, err := e.r.Read(b)
	if err == io.EOF {
		return n, e.err
	}
	return n, err
}

var ErrBackend = errors.New("fake backend failure")

func (p *FakeProxy) Get(ctx context.Context, kind cache.EntryKind, hash string, size int64) (io.ReadCloser, int64, error) {
	k := cache.LookupKey(kind, hash)
	p.mu.Lock()
	defer p.mu.Unlock()
	p.Gets = append(p.Gets, k)
	b, ok := p.Objs[k]
	f := p.Faults[k]
	if f.Kind == "err" {
		return nil, -1, ErrBackend
	}
	if !ok || f.Kind == "notfound" {
		return nil, -1, nil
	}
	lsz := p.Sizes[k]
	var r io.Reader = bytes.NewReader(b)
	switch f.Kind {
	case "short":
		at := f.At
		if at > len(b) {
			at = len(b)
		}
		r = bytes.NewReader(b[:at])
	case "long":
		r = io.MultiReader(bytes.NewReader(b), bytes.NewReader([]byte("extra-bytes")))
	case "midstreamErr":
		at := f.At
		if at > len(b) {
			at = len(b)
		}
		r = &errAfter{r: bytes.NewReader(b[:at]), err: ErrBackend}
	case "wrongSize":
		lsz = lsz + 1
	case "unknownSize":
		lsz = -1
	case "oversize":
		lsz = 1 << 40
	}
	p.Open++
	return &trackedReader{Reader: r, p: p}, lsz, nil
}

func (p *FakeProxy) Contains(ctx context.Context, kind cache.EntryKind, hash string, size int64) (bool, int64) {
	k := cache.LookupKey(kind, hash)
	if p.Delay > 0 {
		time.Sleep(p.Delay)
	}
	p.mu.Lock()
	defer p.mu.Unlock()
	p.Conts = append(p.Conts, k)
	f := p.Faults[k]
	if f.Kind == "err" || f.Kind == "notfound" {
		return false, -1
	}
	if _, ok := p.Objs[k]; !ok {
		return false, -1
	}
	lsz := p.Sizes[k]
	switch f.Kind {
	case "wrongSize":
		lsz++
	case "unknownSize":
		lsz = -1
	case "oversize":
		lsz = 1 << 40
	}
	return true, lsz
}

func (p *FakeProxy) SetFault(key string, f Fault) {
	p.mu.Lock()
	if f.Kind == "" {
		delete(p.Faults, key)
	} else {
		p.Faults[key] = f
	}
	p.mu.Unlock()
}

func (p *FakeProxy) OpenReaders() int {
	p.mu.Lock()
	defer p.mu.Unlock()
	return p.Open
}

// ContainsCalls returns how many Contains calls the backend has received.
func (p *FakeProxy) ContainsCalls() int {
	p.mu.Lock()
	defer p.mu.Unlock()
	return len(p.Conts)
}

// SetObj stores an object (on-disk representation) with its logical size.
func (p *FakeProxy) SetObj(key string, b []byte, logical int64) {
	p.mu.Lock()
	p.Objs[key] = b
	p.Sizes[key] = logical
	p.mu.Unlock()
}

func (p *FakeProxy) DelObj(key string) {
	p.mu.Lock()
	delete(p.Objs, key)
	delete(p.Sizes, key)
	p.mu.Unlock()
}

func (p *FakeProxy) ClearFaults() {
	p.mu.Lock()
	p.Faults = map[string]Fault{}
	p.mu.Unlock()
}

// GetCalls returns how many Get calls the backend has received for key.
func (p *FakeProxy) GetCalls(key string) int {
	p.mu.Lock()
	defer p.mu.Unlock()
	n := 0
	for _, k := range p.Gets {
		if k == key {
			n++
		}
	}
	return n
}

func (p *FakeProxy) ObjLen(key string) int {
	p.mu.Lock()
	defer p.mu.Unlock()
	return len(p.Objs[key])
}

// ContainsCallsFor returns how many Contains calls the backend has received for key.
func (p *FakeProxy) ContainsCallsFor(key string) int {
	p.mu.Lock()
	defer p.mu.Unlock()
	n := 0
	for _, k := range p.Conts {
		if k == key {
			n++
		}
	}
	return n
}
