package drv

import (
	"bytes"
	"context"
	"fmt"
	"io"
	"math/rand"
	"os"
	"path/filepath"
	"strings"
	"sync"
	"time"

	"github.com/buchgr/bazel-remote/v2/cache"
	"github.com/buchgr/bazel-remote/v2/cache/disk"
	pb "github.com/buchgr/bazel-remote/v2/genproto/build/bazel/remote/execution/v2"

	"verif/harness/internal/rec"
)

// StressConfig configures one free-running concurrent history.
type StressConfig struct {
	Seed    int64
	Rounds  int
	Workers int
	OpsPer  int // operations per worker and round
	Mode    string
	MaxSize int64
	Corrupt bool // truncate an indexed file before some rounds
	Proxy   bool
	Hist    int
	Storm   int // >0: instead of random rounds, lose the files of half of Storm entries and read every key from 8 goroutines at once
}

// StressResult reports what a stress history did.
type StressResult struct {
	Ops        int
	Hits       int
	Violations []Violation
	Quiescent  int
}

// RunStress runs rounds of concurrent random operations on a small key pool;
// between rounds it waits for quiescence and compares Stats, index and
// directory. Reads are checked for whole values (C07).
func RunStress(cfg StressConfig) (*StressResult, error) {
	rng := rand.New(rand.NewSource(cfg.Seed))
	dir, err := os.MkdirTemp("", "vh-stress")
	if err != nil {
		return nil, err
	}
	defer os.RemoveAll(dir)
	opts := []disk.Option{disk.WithAccessLogger(silent()), disk.WithStorageMode(cfg.Mode)}
	var proxy *FakeProxy
	if cfg.Proxy {
		proxy = NewFakeProxy()
		opts = append(opts, disk.WithProxyBackend(proxy))
	}
	c, err := disk.New(dir, cfg.MaxSize, opts...)
	if err != nil {
		return nil, err
	}
	ctx := context.Background()
	res := &StressResult{}
	var mu sync.Mutex
	viol := func(p, f string, a ...any) {
		mu.Lock()
		res.Violations = append(res.Violations, Violation{Prop: p, What: fmt.Sprintf(f, a...), Hist: cfg.Hist, Op: res.Ops})
		mu.Unlock()
	}

	// CAS pool (content fixed per key) and AC keys (several values per key,
	// each value self-describing so that a torn mix is recognisable)
	var pool []Blob
	for i := 0; i < 6; i++ {
		sz := []int{100, 4096, 5000, 9000, 12288, int(cfg.MaxSize / 3)}[i]
		pool = append(pool, MkBlob(GenData(rng, sz, i%3)))
	}
	acKeys := []string{}
	for i := 0; i < 3; i++ {
		acKeys = append(acKeys, MkBlob([]byte(fmt.Sprintf("stress-ac-%d-%d", cfg.Seed, i))).Hash)
	}
	mkAC := func(r *rand.Rand) []byte {
		n := 16 + r.Intn(6000)
		b := bytes.Repeat([]byte{byte(1 + r.Intn(250))}, n)
		return b // constant byte: any mixture of two values is visible
	}

	damaged := []string{}
	lost := []string{}
	if cfg.Storm > 0 {
		for i := 0; i < 3; i++ {
			if _, err := runStorm(cfg, c, rng, res, viol); err != nil {
				return res, err
			}
		}
		return res, nil
	}
	for round := 0; round < cfg.Rounds; round++ {
		hot := -1 // index in pool of the blob whose file was damaged for this round
		if cfg.Corrupt && round%2 == 1 {
			// damage one indexed CAS file on disk (truncate it), as a crash or a
			// bad disk would; readers must drop it without corrupting the index
			s := disk.VerifSnapshot(c)
			var cands []disk.VerifEntry
			for _, e := range s.Entries {
				if len(e.Key) > 4 && e.Key[:4] == "cas/" && e.Dsz > 8 {
					cands = append(cands, e)
				}
			}
			if len(cands) > 0 {
				e := cands[rng.Intn(len(cands))]
				// a truncated v2 file is detected by its header; raw files carry no
				// integrity data (that is C08's finding), so they are only ever lost
				if cfg.Mode == "zstd" && rng.Intn(2) == 0 {
					_ = os.Truncate(filepath.Join(s.Dir, e.Path), e.Dsz/2)
					damaged = append(damaged, e.Path)
				} else {
					_ = os.Remove(filepath.Join(s.Dir, e.Path))
					disk.VerifNote(c, "FileLost", filepath.Join(s.Dir, e.Path))
					lost = append(lost, e.Path)
				}
				for i, b := range pool {
					if "cas/"+b.Hash == e.Key {
						hot = i
					}
				}
			}
		}
		var wg sync.WaitGroup
		for w := 0; w < cfg.Workers; w++ {
			wg.Add(1)
			wseed := rng.Int63()
			go func(w int) {
				defer wg.Done()
				r := rand.New(rand.NewSource(wseed))
				for i := 0; i < cfg.OpsPer; i++ {
					mu.Lock()
					res.Ops++
					mu.Unlock()
					pick := func() Blob {
						// in a round with a damaged file most traffic goes to its key
						if hot >= 0 && r.Intn(3) > 0 {
							return pool[hot]
						}
						return pool[r.Intn(len(pool))]
					}
					switch k := r.Intn(10); {
					case k < 3:
						b := pick()
						_ = c.Put(ctx, cache.CAS, b.Hash, int64(len(b.Data)), bytes.NewReader(b.Data))
					case k < 4:
						b := pool[r.Intn(len(pool))]
						_ = c.Put(ctx, cache.CAS, b.Hash, int64(len(b.Data)), &failReader{r: bytes.NewReader(b.Data), n: r.Intn(len(b.Data)), err: errReader})
					case k < 5:
						h := acKeys[r.Intn(len(acKeys))]
						v := mkAC(r)
						_ = c.Put(ctx, cache.AC, h, int64(len(v)), bytes.NewReader(v))
					case k < 8:
						b := pick()
						size := int64(len(b.Data))
						if r.Intn(3) == 0 {
							size = -1
						}
						rc, n, err := c.Get(ctx, cache.CAS, b.Hash, size, 0)
						if err == nil && rc != nil {
							data, rerr := io.ReadAll(rc)
							_ = rc.Close()
							mu.Lock()
							res.Hits++
							mu.Unlock()
							if rerr == nil && !bytes.Equal(data, b.Data) {
								viol("C07", "concurrent read of %s returned %d bytes that are not the uploaded %d bytes", b.Hash[:8], len(data), len(b.Data))
							}
							if n != int64(len(b.Data)) {
								viol("C07", "concurrent read of %s reported size %d, want %d", b.Hash[:8], n, len(b.Data))
							}
						}
					case k < 9:
						h := acKeys[r.Intn(len(acKeys))]
						rc, n, err := c.Get(ctx, cache.AC, h, -1, 0)
						if err == nil && rc != nil {
							data, rerr := io.ReadAll(rc)
							_ = rc.Close()
							if rerr == nil {
								if int64(len(data)) != n {
									viol("C07", "AC read returned %d bytes but reported size %d", len(data), n)
								}
								for _, x := range data {
									if x != data[0] {
										viol("C07", "AC read returned a mixture of two uploads")
										break
									}
								}
							}
						}
					default:
						var ds []*pb.Digest
						for j := 0; j < 3; j++ {
							b := pool[r.Intn(len(pool))]
							ds = append(ds, &pb.Digest{Hash: b.Hash, SizeBytes: int64(len(b.Data))})
						}
						_, _ = c.FindMissingCasBlobs(ctx, ds)
					}
				}
			}(w)
		}
		done := make(chan struct{})
		go func() { wg.Wait(); close(done) }()
		select {
		case <-done:
		case <-time.After(120 * time.Second):
			viol("C07", "requests still blocked after 120s (deadlock)")
			return res, nil
		}
		if !rec.WaitIdle(c, 30*time.Second) {
			return res, fmt.Errorf("remover did not drain within 30s")
		}
		s, d, err := rec.SnapshotO(c, true, true, rec.SnapOpts{Damaged: damaged, Lost: lost})
		if err != nil {
			return res, err
		}
		res.Quiescent++
		// a file damaged by the harness may still be indexed (nobody read it);
		// its size differs on purpose, so exempt it from the size comparison
		vs := CheckQuiescent(c, s, d, cfg.Hist, round)
		for _, v := range vs {
			if cfg.Corrupt && v.Prop == "C04" && len(v.What) > 5 && v.What[:5] == "file " && bytes.Contains([]byte(v.What), []byte("index records")) {
				continue
			}
			if cfg.Corrupt && v.Prop == "C04" && bytes.Contains([]byte(v.What), []byte("has no file")) {
				// an entry whose file the driver removed and that nobody has read since
				exempt := false
				for _, l := range lost {
					if bytes.Contains([]byte(v.What), []byte(l)) {
						exempt = true
					}
				}
				if exempt {
					continue
				}
			}
			res.Violations = append(res.Violations, v)
		}
	}
	return res, nil
}

// runStorm: many entries lose their files behind the cache's back, then every
// key is read by several goroutines at the same instant. Each reader finds the
// file missing and takes the slow path; the index must drop each entry once.
func runStorm(cfg StressConfig, c disk.Cache, rng *rand.Rand, res *StressResult, viol func(p, f string, a ...any)) (*StressResult, error) {
	ctx := context.Background()
	type ent struct {
		hash string
		val  []byte
		kind cache.EntryKind
	}
	var ents []ent
	for i := 0; i < cfg.Storm; i++ {
		v := bytes.Repeat([]byte{byte(1 + rng.Intn(250))}, 50+rng.Intn(3000))
		e := ent{hash: MkBlob([]byte(fmt.Sprintf("storm-%d-%d-%d", cfg.Seed, i, rng.Int63()))).Hash, val: v, kind: cache.AC}
		if i%3 == 0 {
			b := MkBlob(GenData(rng, 50+rng.Intn(3000), i%2))
			e = ent{hash: b.Hash, val: b.Data, kind: cache.CAS}
		}
		if err := c.Put(ctx, e.kind, e.hash, int64(len(e.val)), bytes.NewReader(e.val)); err != nil {
			// a few hundred small entries in a 2 MiB cache: every upload fits
			viol("C03", "upload of %d bytes into a cache with room refused: %v", len(e.val), err)
			return res, nil
		}
		ents = append(ents, e)
	}
	s := disk.VerifSnapshot(c)
	paths := map[string]string{}
	for _, e := range s.Entries {
		paths[e.Key] = e.Path
	}
	var lost []string
	for i, e := range ents {
		if i%2 == 0 {
			p := paths[cache.LookupKey(e.kind, e.hash)]
			if p == "" {
				continue
			}
			_ = os.Remove(filepath.Join(s.Dir, p))
			disk.VerifNote(c, "FileLost", filepath.Join(s.Dir, p))
			lost = append(lost, p)
		}
	}
	var wg sync.WaitGroup
	start := make(chan struct{})
	var mu sync.Mutex
	for i := range ents {
		for r := 0; r < 8; r++ {
			wg.Add(1)
			go func(e ent, r int) {
				defer wg.Done()
				<-start
				if r == 7 && e.kind == cache.AC {
					// one writer per key races with the readers
					_ = c.Put(ctx, e.kind, e.hash, int64(len(e.val)), bytes.NewReader(e.val))
					return
				}
				rc, _, err := c.Get(ctx, e.kind, e.hash, -1, 0)
				mu.Lock()
				res.Ops++
				mu.Unlock()
				if err == nil && rc != nil {
					data, rerr := io.ReadAll(rc)
					_ = rc.Close()
					mu.Lock()
					res.Hits++
					mu.Unlock()
					if rerr == nil && !bytes.Equal(data, e.val) {
						viol("C07", "read of %s during a lost-file storm returned %d bytes that are not the stored %d bytes", e.hash[:8], len(data), len(e.val))
					}
				}
			}(ents[i], r)
		}
	}
	close(start)
	done := make(chan struct{})
	go func() { wg.Wait(); close(done) }()
	select {
	case <-done:
	case <-time.After(120 * time.Second):
		viol("C07", "requests still blocked after 120s (deadlock)")
		return res, nil
	}
	if !rec.WaitIdle(c, 30*time.Second) {
		return res, fmt.Errorf("remover did not drain within 30s")
	}
	sn, d, err := rec.SnapshotO(c, true, true, rec.SnapOpts{Lost: lost})
	if err != nil {
		return res, err
	}
	res.Quiescent++
	for _, v := range CheckQuiescent(c, sn, d, cfg.Hist, 0) {
		if v.Prop == "C04" && bytes.Contains([]byte(v.What), []byte("has no file")) {
			continue // entries whose file the driver removed and nobody dropped
		}
		res.Violations = append(res.Violations, v)
	}
	lookupStorm(cfg, c, res, viol)
	return res, nil
}

// lookupStorm: existence checks only - batched FindMissing and Contains on keys that are all present - from eight
// goroutines at once.  Nothing is added or removed, but every lookup moves its entry to the front of the list:
// the lookups are writers of the index like everybody else (Cache.tla: ContainsLookup is a lock region).
// Afterwards the list must still hold every key exactly once, in both directions.
func lookupStorm(cfg StressConfig, c disk.Cache, res *StressResult, viol func(p, f string, a ...any)) {
	ctx := context.Background()
	var ds []*pb.Digest
	for _, e := range disk.VerifSnapshot(c).Entries {
		if strings.HasPrefix(e.Key, "cas/") && len(ds) < 48 {
			ds = append(ds, &pb.Digest{Hash: strings.TrimPrefix(e.Key, "cas/"), SizeBytes: e.Size})
		}
	}
	if len(ds) < 8 {
		return
	}
	before := len(disk.VerifSnapshot(c).Entries)
	var wg sync.WaitGroup
	stop := time.Now().Add(5 * time.Second)
	for g := 0; g < 8; g++ {
		wg.Add(1)
		go func(g int) {
			defer wg.Done()
			defer func() {
				if r := recover(); r != nil {
					viol("C07", "existence checks from 8 goroutines: a lookup panicked: %v", r)
				}
			}()
			for k := 0; k < 40 && time.Now().Before(stop); k++ {
				rot := append(append([]*pb.Digest{}, ds[(g*5+k)%len(ds):]...), ds[:(g*5+k)%len(ds)]...)
				if k%3 == 2 {
					c.Contains(ctx, cache.CAS, rot[0].Hash, rot[0].SizeBytes)
					continue
				}
				cp := make([]*pb.Digest, len(rot))
				copy(cp, rot)
				if m, err := c.FindMissingCasBlobs(ctx, cp); err == nil && len(m) != 0 {
					viol("C10", "existence checks from 8 goroutines: %d of %d present blobs reported missing", len(m), len(rot))
					return
				}
			}
		}(g)
	}
	done := make(chan struct{})
	go func() { wg.Wait(); close(done) }()
	select {
	case <-done:
	case <-time.After(60 * time.Second):
		viol("C07", "existence checks from 8 goroutines do not return (an index operation spins or is blocked)")
		return
	}
	snap := make(chan *disk.VerifSnap, 1)
	go func() { snap <- disk.VerifSnapshot(c) }()
	select {
	case s := <-snap:
		seen := map[string]int{}
		for _, e := range s.Entries {
			seen[e.Key]++
		}
		for k, n := range seen {
			if n > 1 {
				viol("C07", "after concurrent existence checks the recency list holds key %s %d times", k, n)
				return
			}
		}
		if len(s.Entries) != s.N {
			viol("C07", "after concurrent existence checks the recency list holds %d entries, the map %d", len(s.Entries), s.N)
		} else if len(s.Entries) != before {
			viol("C07", "after concurrent existence checks (nothing added, nothing removed) the recency list holds %d entries, before it held %d", len(s.Entries), before)
		}
	case <-time.After(20 * time.Second):
		viol("C07", "after concurrent existence checks walking the recency list does not terminate (the list is no longer a list)")
	}
}
