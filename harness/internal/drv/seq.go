package drv

import (
	"bytes"
	"context"
	"crypto/sha256"
	"encoding/hex"
	"errors"
	"fmt"
	"io"
	"log"
	"math/rand"
	"os"
	"path/filepath"
	"sync"
	"time"

	"github.com/buchgr/bazel-remote/v2/cache"
	"github.com/buchgr/bazel-remote/v2/cache/disk"
	pb "github.com/buchgr/bazel-remote/v2/genproto/build/bazel/remote/execution/v2"

	"verif/harness/internal/rec"
)

// Violation is a contradiction between the real code and a property,
// observed by a direct oracle of the harness.
type Violation struct {
	Prop string `json:"prop"`
	What string `json:"what"`
	Hist int    `json:"hist"`
	Op   int    `json:"op"`
}

// Blob is a piece of content with its digest.
type Blob struct {
	Data []byte
	Hash string
}

func MkBlob(b []byte) Blob {
	h := sha256.Sum256(b)
	return Blob{Data: b, Hash: hex.EncodeToString(h[:])}
}

// GenData produces size bytes of the given class: 0 random, 1 zeros, 2 text.
// Compressible classes carry 8 random bytes at the start of every 512-byte
// stretch so that any two blobs (and any two slices of them) differ.
func GenData(rng *rand.Rand, size int, class int) []byte {
	b := make([]byte, size)
	switch class {
	case 0:
		rng.Read(b)
		return b
	case 1:
	default:
		words := []string{"bazel ", "remote ", "cache ", "action ", "digest ", "blob\n"}
		i := 0
		for i < size {
			w := words[rng.Intn(len(words))]
			i += copy(b[i:], w)
		}
	}
	for i := 0; i < size; i += 512 {
		end := i + 8
		if end > size {
			end = size
		}
		rng.Read(b[i:end])
	}
	return b
}

// SeqConfig configures one sequential history.
type SeqConfig struct {
	Seed      int64
	Ops       int
	Mode      string // "zstd" | "uncompressed"
	MaxSize   int64
	HardLimit int64
	Proxy     bool
	Hist      int
}

type failReader struct {
	r   io.Reader
	n   int
	err error
}

func (f *failReader) Read(p []byte) (int, error) {
	if f.n <= 0 {
		return 0, f.err
	}
	if len(p) > f.n {
		p = p[:f.n]
	}
	n, err := f.r.Read(p)
	f.n -= n
	return n, err
}

var errReader = errors.New("injected reader failure")

func silent() *log.Logger { return log.New(io.Discard, "", 0) }

// Silent returns a logger that discards everything.
func Silent() *log.Logger { return silent() }

// OpRecord describes one executed operation (for evidence samples).
type OpRecord struct {
	Op   string `json:"op"`
	Key  string `json:"key,omitempty"`
	Size int64  `json:"size,omitempty"`
	Res  string `json:"res,omitempty"`
}

// SeqResult is what a history produced.
type SeqResult struct {
	Ops        []OpRecord
	Violations []Violation
	Evictions  int
	Quiescent  int
}

func round4k(n int64) int64 { return (n + 4095) &^ 4095 }

// CheckQuiescent compares Stats / snapshot / directory (direct oracle for
// C03 and C04). The caller has waited for the remover.
func CheckQuiescent(c disk.Cache, s *disk.VerifSnap, dir []rec.DirEntry, hist, op int) []Violation {
	var out []Violation
	add := func(p, f string, a ...any) {
		out = append(out, Violation{Prop: p, What: fmt.Sprintf(f, a...), Hist: hist, Op: op})
	}
	tot, resv, n, unc := c.Stats()
	if resv != 0 {
		add("C03", "reserved=%d at quiescence", resv)
	}
	var sum, usum int64
	want := map[string]int64{}
	for _, e := range s.Entries {
		sum += round4k(e.Dsz)
		usum += round4k(e.Size)
		want[e.Path] = e.Dsz
	}
	if tot != sum+resv {
		add("C03", "Stats total=%d but entries sum to %d (+reserved %d)", tot, sum, resv)
	}
	if unc != usum {
		add("C03", "Stats uncompressed=%d but entries sum to %d", unc, usum)
	}
	if n != len(s.Entries) {
		add("C03", "Stats items=%d but %d entries", n, len(s.Entries))
	}
	if tot > c.MaxSize() {
		add("C03", "Stats total=%d exceeds max_size=%d", tot, c.MaxSize())
	}
	have := map[string]int64{}
	for _, d := range dir {
		have[d.Path] = d.Size
		if sz, ok := want[d.Path]; !ok {
			add("C04", "file %s (size %d) is not an indexed entry", d.Path, d.Size)
		} else if sz != d.Size {
			add("C04", "file %s has size %d, index records %d", d.Path, d.Size, sz)
		}
	}
	for p := range want {
		if _, ok := have[p]; !ok {
			add("C04", "indexed entry %s has no file", p)
		}
	}
	return out
}

// RunSeq runs one sequential random history against a fresh real cache.
func RunSeq(cfg SeqConfig) (*SeqResult, error) {
	rng := rand.New(rand.NewSource(cfg.Seed))
	dir, err := os.MkdirTemp("", "vh-seq")
	if err != nil {
		return nil, err
	}
	defer os.RemoveAll(dir)

	opts := []disk.Option{disk.WithAccessLogger(silent()), disk.WithStorageMode(cfg.Mode)}
	if cfg.HardLimit > 0 {
		opts = append(opts, disk.WithMaxSizeHardLimit(cfg.HardLimit))
	}
	var proxy *FakeProxy
	if cfg.Proxy {
		proxy = NewFakeProxy()
		opts = append(opts, disk.WithProxyBackend(proxy))
	}
	c, err := disk.New(dir, cfg.MaxSize, opts...)
	if err != nil {
		return nil, err
	}
	ctx := context.Background()
	res := &SeqResult{}
	viol := func(p, f string, a ...any) {
		res.Violations = append(res.Violations, Violation{Prop: p, What: fmt.Sprintf(f, a...), Hist: cfg.Hist, Op: len(res.Ops)})
	}

	// a pool of CAS blobs of assorted sizes and an AC key pool
	sizes := []int{1, 100, 4095, 4096, 4097, 8192, 12000, 20000, 30000, int(cfg.MaxSize / 2), int(cfg.MaxSize) - 4096, int(cfg.MaxSize), int(cfg.MaxSize) + 1}
	var pool []Blob
	for i := 0; i < 10; i++ {
		sz := sizes[rng.Intn(len(sizes))]
		if sz < 1 {
			sz = 1
		}
		pool = append(pool, MkBlob(GenData(rng, sz, rng.Intn(3))))
	}
	acKeys := []string{}
	for i := 0; i < 4; i++ {
		acKeys = append(acKeys, MkBlob([]byte(fmt.Sprintf("ac-%d-%d", cfg.Seed, i))).Hash)
	}
	acVal := map[string][]byte{} // kind/hash -> last stored value
	var tooBig Blob
	if proxy != nil {
		// some blobs exist only in the backend, in the format a peer would upload
		for i := 0; i < 3; i++ {
			// (also blobs that do not fit into this cache: fetched without a stated size they are written to disk
			// and refused by the index at commit - the request fails and the file goes again)
			b := pool[rng.Intn(len(pool))]
			SeedBackend(proxy, cfg.Mode, b)
		}
		// one of them for certain: incompressible and a block larger than the cache
		tooBig = MkBlob(GenData(rng, int(cfg.MaxSize)+4097, 0))
		SeedBackend(proxy, cfg.Mode, tooBig)
		pool = append(pool, tooBig, tooBig)
	}

	record := func(op, key string, size int64, r string) {
		res.Ops = append(res.Ops, OpRecord{Op: op, Key: key, Size: size, Res: r})
	}
	errStr := func(err error) string {
		if err == nil {
			return "ok"
		}
		var ce *cache.Error
		if errors.As(err, &ce) {
			return fmt.Sprintf("err%d", ce.Code)
		}
		return "err"
	}

	for i := 0; i < cfg.Ops; i++ {
		// keys this operation hit locally or stored: the property counts each as a use
		var used []string
		use := func(kind cache.EntryKind, hash string) {
			if proxy == nil { // with a backend a hit need not be a local one
				used = append(used, cache.LookupKey(kind, hash))
			}
		}
		switch k := rng.Intn(20); {
		case k < 6: // good CAS upload
			b := pool[rng.Intn(len(pool))]
			err := c.Put(ctx, cache.CAS, b.Hash, int64(len(b.Data)), bytes.NewReader(b.Data))
			record("PutCAS", b.Hash[:8], int64(len(b.Data)), errStr(err))
			if err == nil && len(b.Data) > 0 {
				use(cache.CAS, b.Hash)
			}
			if err == nil && int64(len(b.Data)) <= cfg.MaxSize/2 {
				// accepted and fits: present immediately afterwards (C05)
				if ok, _ := c.Contains(ctx, cache.CAS, b.Hash, int64(len(b.Data))); !ok && proxy == nil {
					viol("C05", "accepted upload %s size %d not present afterwards", b.Hash[:8], len(b.Data))
				}
			}
		case k < 8: // defective CAS upload
			b := pool[rng.Intn(len(pool))]
			var err error
			kind := rng.Intn(6)
			switch kind {
			case 5: // the file system refuses to create the file: the blob's directory is gone (Cache.tla: PutCreate fails)
				sub := filepath.Join(dir, "cas.v2", b.Hash[:2])
				if os.Remove(sub) != nil { // only an empty directory: nobody else's file is touched
					err = errors.New("skipped")
					break
				}
				err = c.Put(ctx, cache.CAS, b.Hash, int64(len(b.Data)), bytes.NewReader(b.Data))
				if e := os.Mkdir(sub, 0o755); e != nil && !os.IsExist(e) {
					return res, e
				}
				if int64(len(b.Data)) > cfg.MaxSize && err != nil {
					break // refused before the file system was asked
				}
			case 0: // wrong hash
				other := MkBlob([]byte("x" + b.Hash))
				err = c.Put(ctx, cache.CAS, other.Hash, int64(len(b.Data)), bytes.NewReader(b.Data))
			case 1: // short
				err = c.Put(ctx, cache.CAS, b.Hash, int64(len(b.Data))+1+int64(rng.Intn(3)), bytes.NewReader(b.Data))
			case 2: // long
				if len(b.Data) > 1 {
					err = c.Put(ctx, cache.CAS, b.Hash, int64(len(b.Data))-1, bytes.NewReader(b.Data))
				} else {
					err = errors.New("skipped")
				}
			case 3: // reader fails mid-stream
				err = c.Put(ctx, cache.CAS, b.Hash, int64(len(b.Data)), &failReader{r: bytes.NewReader(b.Data), n: rng.Intn(len(b.Data) + 1), err: errReader})
			case 4: // flipped byte
				d := append([]byte{}, b.Data...)
				d[rng.Intn(len(d))] ^= 0x40
				err = c.Put(ctx, cache.CAS, b.Hash, int64(len(b.Data)), bytes.NewReader(d))
			}
			record(fmt.Sprintf("BadPutCAS%d", kind), b.Hash[:8], int64(len(b.Data)), errStr(err))
			if err == nil {
				viol("C01", "defective CAS upload kind %d acknowledged", kind)
			}
		case k < 11: // AC / RAW upload (overwrites with other sizes)
			kind := cache.AC
			if rng.Intn(3) == 0 {
				kind = cache.RAW
			}
			h := acKeys[rng.Intn(len(acKeys))]
			sz := []int{0, 10, 300, 5000, 9000}[rng.Intn(5)]
			v := GenData(rng, sz, 0)
			var err error
			if rng.Intn(6) == 0 && sz > 0 {
				// declared size differs from the stream
				err = c.Put(ctx, kind, h, int64(sz)+1, bytes.NewReader(v))
				record("BadPut"+kind.String(), h[:8], int64(sz), errStr(err))
				if err == nil {
					viol("C04", "AC/RAW upload with wrong size acknowledged")
				}
			} else {
				err = c.Put(ctx, kind, h, int64(sz), bytes.NewReader(v))
				record("Put"+kind.String(), h[:8], int64(sz), errStr(err))
				if err == nil {
					acVal[cache.LookupKey(kind, h)] = v
					use(kind, h)
				}
			}
		case k < 15: // read
			b := pool[rng.Intn(len(pool))]
			size := int64(len(b.Data))
			if rng.Intn(4) == 0 || (b.Hash == tooBig.Hash && rng.Intn(4) != 0) {
				size = -1
			}
			var off int64
			if rng.Intn(3) == 0 && len(b.Data) > 1 {
				off = int64(rng.Intn(len(b.Data)))
			}
			zst := rng.Intn(4) == 0
			var rc io.ReadCloser
			var n int64
			var err error
			if zst {
				rc, n, err = c.GetZstd(ctx, b.Hash, size, off)
			} else {
				rc, n, err = c.Get(ctx, cache.CAS, b.Hash, size, off)
			}
			r := errStr(err)
			if rc != nil {
				data, rerr := io.ReadAll(rc)
				_ = rc.Close()
				r = "hit"
				use(cache.CAS, b.Hash)
				if rerr != nil {
					r = "hit-readerr"
				} else if !zst {
					prop := "C02"
					if proxy != nil {
						prop = "C12" // the content may have come through the backend
					}
					if !bytes.Equal(data, b.Data[off:]) {
						viol(prop, "read of %s offset %d returned %d bytes that differ from the stored content (%d bytes)", b.Hash[:8], off, len(data), len(b.Data)-int(off))
					}
					if n != int64(len(b.Data)) {
						viol(prop, "read of %s reported size %d, want %d", b.Hash[:8], n, len(b.Data))
					}
				}
			} else if err == nil {
				r = "miss"
			}
			record("GetCAS", b.Hash[:8], size, r)
		case k < 16: // read AC/RAW
			kind := cache.AC
			if rng.Intn(3) == 0 {
				kind = cache.RAW
			}
			h := acKeys[rng.Intn(len(acKeys))]
			rc, _, err := c.Get(ctx, kind, h, -1, 0)
			r := errStr(err)
			if rc != nil {
				data, _ := io.ReadAll(rc)
				_ = rc.Close()
				r = "hit"
				use(kind, h)
				if want, ok := acVal[cache.LookupKey(kind, h)]; ok && proxy == nil && !bytes.Equal(data, want) {
					viol("C07", "AC/RAW read of %s returned %d bytes, last stored value has %d", h[:8], len(data), len(want))
				}
			} else if err == nil {
				r = "miss"
			}
			record("Get"+kind.String(), h[:8], -1, r)
		case k < 18: // existence check
			b := pool[rng.Intn(len(pool))]
			size := int64(len(b.Data))
			if rng.Intn(5) == 0 {
				size = -1
			}
			ok, _ := c.Contains(ctx, cache.CAS, b.Hash, size)
			record("Contains", b.Hash[:8], size, fmt.Sprint(ok))
			if ok && len(b.Data) > 0 {
				use(cache.CAS, b.Hash)
			}
		case k < 19: // FindMissingBlobs
			var ds []*pb.Digest
			for j := 0; j < 1+rng.Intn(5); j++ {
				b := pool[rng.Intn(len(pool))]
				ds = append(ds, &pb.Digest{Hash: b.Hash, SizeBytes: int64(len(b.Data))})
			}
			asked := map[string]bool{}
			for _, d := range ds {
				asked[d.Hash] = true
			}
			m, err := c.FindMissingCasBlobs(ctx, ds)
			record("FindMissing", "", int64(len(ds)), fmt.Sprintf("%d missing %s", len(m), errStr(err)))
			if err == nil {
				for _, d := range m {
					delete(asked, d.Hash)
				}
				for h := range asked {
					use(cache.CAS, h)
				}
			}
		default: // backend fault for a later fetch
			if proxy != nil {
				b := pool[rng.Intn(len(pool))]
				kinds := []string{"", "err", "notfound", "short", "long", "midstreamErr", "wrongSize", "unknownSize", "oversize"}
				f := Fault{Kind: kinds[rng.Intn(len(kinds))], At: rng.Intn(len(b.Data) + 1)}
				proxy.SetFault(cache.LookupKey(cache.CAS, b.Hash), f)
				record("Fault", b.Hash[:8], int64(f.At), f.Kind)
			} else {
				record("Nop", "", 0, "")
			}
		}

		// projection after every operation; full quiescent check now and then
		if (i+1)%6 == 0 || i == cfg.Ops-1 {
			if !rec.WaitIdle(c, 20*time.Second) {
				return res, fmt.Errorf("remover did not drain within 20s")
			}
			s, d, err := rec.SnapshotO(c, true, true, rec.SnapOpts{Used: used})
			if err != nil {
				return res, err
			}
			res.Quiescent++
			res.Violations = append(res.Violations, CheckQuiescent(c, s, d, cfg.Hist, i)...)
		} else {
			if _, _, err := rec.SnapshotO(c, false, false, rec.SnapOpts{Used: used}); err != nil {
				return res, err
			}
		}
	}
	if proxy != nil && proxy.OpenReaders() != 0 {
		viol("C12", "%d backend readers left open", proxy.OpenReaders())
	}
	return res, nil
}

// seeder is a scratch cache (per storage mode) whose only job is to turn blobs
// into the on-disk format a peer in that mode would upload to the backend.
type seeder struct {
	c   disk.Cache
	tmp *FakeProxy
}

var (
	seedMu  sync.Mutex
	seeders = map[string]*seeder{}
)

// SeedBackend stores b in the fake backend in the on-disk format of the
// given storage mode, by letting a scratch cache in that mode upload it.
func SeedBackend(p *FakeProxy, mode string, b Blob) {
	seedMu.Lock()
	defer seedMu.Unlock()
	sd := seeders[mode]
	if sd == nil {
		d, err := os.MkdirTemp("", "vh-seed")
		if err != nil {
			return
		}
		tmp := NewFakeProxy()
		sc, err := disk.New(d, 1<<30, disk.WithAccessLogger(silent()), disk.WithStorageMode(mode), disk.WithProxyBackend(tmp))
		if err != nil {
			return
		}
		sd = &seeder{c: sc, tmp: tmp}
		seeders[mode] = sd
	}
	if err := sd.c.Put(context.Background(), cache.CAS, b.Hash, int64(len(b.Data)), bytes.NewReader(b.Data)); err != nil {
		return
	}
	k := cache.LookupKey(cache.CAS, b.Hash)
	sd.tmp.mu.Lock()
	data, ok := sd.tmp.Objs[k]
	delete(sd.tmp.Objs, k)
	sd.tmp.mu.Unlock()
	if ok {
		p.mu.Lock()
		p.Objs[k] = data
		p.Sizes[k] = int64(len(b.Data))
		p.mu.Unlock()
	}
}
