// Package rec records traces from the real code (hooks under build tag
// verif) and writes them in the form the trace specification LruTrace.tla
// consumes.
package rec

import (
	"bufio"
	"encoding/json"
	"fmt"
	"io/fs"
	"os"
	"path/filepath"
	"regexp"
	"sort"
	"strconv"
	"sync"
	"time"

	"github.com/buchgr/bazel-remote/v2/cache/disk"
)

// Recorder collects events in memory.
type Recorder struct {
	mu     sync.Mutex
	events []disk.VerifEvent
}

// Start installs the recorder as the global event sink.
func Start() *Recorder {
	r := &Recorder{}
	disk.VerifSetSink(func(e *disk.VerifEvent) {
		r.mu.Lock()
		r.events = append(r.events, *e)
		r.mu.Unlock()
	})
	return r
}

// Stop removes the sink.
func (r *Recorder) Stop() { disk.VerifSetSink(nil) }

// Events returns a copy of the events recorded so far.
func (r *Recorder) Events() []disk.VerifEvent {
	r.mu.Lock()
	defer r.mu.Unlock()
	out := make([]disk.VerifEvent, len(r.events))
	copy(out, r.events)
	return out
}

// Len returns the number of recorded events.
func (r *Recorder) Len() int {
	r.mu.Lock()
	defer r.mu.Unlock()
	return len(r.events)
}

// DirEntry is one regular file under the cache directory.
type DirEntry struct {
	Path string `json:"path"` // relative to the cache directory
	Size int64  `json:"size"`
}

// ListDir lists the regular files under dir's {cas,ac,raw}.v2 trees.
func ListDir(dir string) ([]DirEntry, error) {
	var out []DirEntry
	for _, sub := range []string{"cas.v2", "ac.v2", "raw.v2"} {
		root := filepath.Join(dir, sub)
		err := filepath.WalkDir(root, func(p string, d fs.DirEntry, err error) error {
			if err != nil {
				if os.IsNotExist(err) {
					return nil
				}
				return err
			}
			if d.Type().IsRegular() {
				fi, err := d.Info()
				if err != nil {
					if os.IsNotExist(err) {
						return nil
					}
					return err
				}
				rel, _ := filepath.Rel(dir, p)
				out = append(out, DirEntry{Path: filepath.ToSlash(rel), Size: fi.Size()})
			}
			return nil
		})
		if err != nil {
			return nil, err
		}
	}
	sort.Slice(out, func(i, j int) bool { return out[i].Path < out[j].Path })
	return out, nil
}

// SnapPayload is what a Snapshot event carries.
type SnapPayload struct {
	Keys      []string   `json:"keys"`
	Quiescent bool       `json:"quiescent"`
	HasDir    bool       `json:"hasdir"`
	Dir       []DirEntry `json:"dir"`
	Cur       int64      `json:"cur"`
	Resv      int64      `json:"resv"`
	Unc       int64      `json:"unc"`
	N         int        `json:"n"`
	Damaged   []string   `json:"damaged"` // files the driver damaged on purpose (size not comparable)
	Lost      []string   `json:"lost"`    // files the driver removed behind the cache's back
	Used      []string   `json:"used"`    // keys the operation just before this snapshot hit or stored
}

// SnapOpts are the optional parts of a snapshot.
type SnapOpts struct {
	Damaged, Lost, Used []string
}

// Snapshot injects a Snapshot event for c into the event stream. The caller
// guarantees that no request on c is in flight. With quiescent=true the
// caller has also waited for the remover (WaitIdle).
func Snapshot(c disk.Cache, quiescent bool, withDir bool) (*disk.VerifSnap, []DirEntry, error) {
	return SnapshotD(c, quiescent, withDir, nil)
}

// SnapshotD is Snapshot with a list of files the driver damaged on purpose.
func SnapshotD(c disk.Cache, quiescent bool, withDir bool, damaged []string) (*disk.VerifSnap, []DirEntry, error) {
	return SnapshotO(c, quiescent, withDir, SnapOpts{Damaged: damaged})
}

// SnapshotO is Snapshot with all options.
func SnapshotO(c disk.Cache, quiescent bool, withDir bool, o SnapOpts) (*disk.VerifSnap, []DirEntry, error) {
	damaged := o.Damaged
	s := disk.VerifSnapshot(c)
	if s == nil {
		return nil, nil, fmt.Errorf("not a disk cache")
	}
	p := SnapPayload{Quiescent: quiescent, HasDir: withDir, Cur: s.Cur, Resv: s.Resv, Unc: s.Unc, N: s.N, Keys: []string{}, Dir: []DirEntry{}, Damaged: []string{}, Lost: []string{}, Used: []string{}}
	if damaged != nil {
		p.Damaged = damaged
	}
	if o.Lost != nil {
		p.Lost = o.Lost
	}
	if o.Used != nil {
		p.Used = o.Used
	}
	for _, e := range s.Entries {
		p.Keys = append(p.Keys, e.Key)
	}
	var dir []DirEntry
	if withDir {
		var err error
		dir, err = ListDir(s.Dir)
		if err != nil {
			return s, nil, err
		}
		if dir != nil {
			p.Dir = dir
		}
	}
	b, _ := json.Marshal(p)
	disk.VerifNote(c, "Snapshot", string(b))
	return s, dir, nil
}

// WaitIdle waits until the background remover of c has drained its queue.
func WaitIdle(c disk.Cache, timeout time.Duration) bool {
	deadline := time.Now().Add(timeout)
	for {
		if disk.VerifEvictorIdle(c) {
			return true
		}
		if time.Now().After(deadline) {
			return false
		}
		time.Sleep(200 * time.Microsecond)
	}
}

var relRe = regexp.MustCompile(`(?:^|/)((?:cas|ac|raw)\.v2/.*)$`)

// RelPath strips everything before the key-space directory.
func RelPath(p string) string {
	m := relRe.FindStringSubmatch(filepath.ToSlash(p))
	if m == nil {
		return "?" + p
	}
	return m[1]
}

const maxInt32 = int64(1<<31 - 1)

func clamp(v int64) (int64, bool) {
	if v > maxInt32 || v < -maxInt32 {
		return 0, false
	}
	return v, true
}

// Line converts one event to the record LruTrace.tla reads. ok=false if a
// number does not fit TLC's 32-bit integers (the trace is then unusable).
func Line(e *disk.VerifEvent) (map[string]any, bool) {
	fit := true
	c := func(v int64) int64 {
		x, ok := clamp(v)
		if !ok {
			fit = false
		}
		return x
	}
	vict := make([]string, 0, len(e.Victims))
	for _, v := range e.Victims {
		vict = append(vict, "e"+strconv.FormatUint(v, 16))
	}
	m := map[string]any{
		"ev": e.Ev, "g": "g" + strconv.FormatInt(e.G, 10), "key": e.Key,
		"elem": "e" + strconv.FormatUint(e.Elem, 16),
		"size": c(e.Size), "dsz": c(e.Dsz), "rnd": e.Rnd, "legacy": e.Legacy, "ok": e.Ok,
		"hastot": e.HasTot, "tot": int64(0), "victims": vict, "path": "", "op": e.Op,
		"cur": c(e.Cur), "resv": c(e.Resv), "unc": c(e.Unc), "n": e.N, "ll": e.LL,
		"max": c(e.Max), "hl": c(e.HL),
		"keys": []string{}, "quiescent": false, "hasdir": false, "dir": []DirEntry{}, "track": false, "damaged": []string{}, "lost": []string{}, "used": []string{},
	}
	if e.HasTot {
		t, ok := clamp(e.Tot)
		if !ok {
			fit = false
		}
		m["tot"] = t
	}
	if e.Path != "" {
		m["path"] = RelPath(e.Path)
	}
	if e.Ev == "FileLost" {
		m["path"] = RelPath(e.Op)
		m["op"] = ""
	}
	if e.Ev == "Snapshot" {
		var p SnapPayload
		if err := json.Unmarshal([]byte(e.Op), &p); err == nil {
			m["keys"], m["quiescent"], m["hasdir"], m["dir"] = p.Keys, p.Quiescent, p.HasDir, p.Dir
			m["cur"], m["resv"], m["unc"], m["n"], m["ll"] = c(p.Cur), c(p.Resv), c(p.Unc), p.N, len(p.Keys)
			if p.Keys == nil {
				m["keys"] = []string{}
			}
			if p.Dir == nil {
				m["dir"] = []DirEntry{}
			}
			if p.Damaged != nil {
				m["damaged"] = p.Damaged
			}
			if p.Lost != nil {
				m["lost"] = p.Lost
			}
			if p.Used != nil {
				m["used"] = p.Used
			}
		}
		m["op"] = ""
	}
	switch e.Ev {
	case "Add", "Get", "Reserve", "Unreserve", "Remove", "Queue", "EvictStart", "EvictDone", "FileCreate",
		"FileComplete", "FileRemove", "FileLost", "ReqBegin", "ReqEnd", "Snapshot":
	default:
		m["ev"] = "Note"
	}
	return m, fit
}

// Stats summarises what a set of traces contains.
type Stats struct {
	Traces    int            `json:"traces"`
	Lines     int            `json:"lines"`
	ByEvent   map[string]int `json:"by_event"`
	Evictions int            `json:"evictions"`
	Skipped   int            `json:"skipped_traces"`
}

// Write splits events by index instance, and appends each instance's trace
// (preceded by a Reset line) to w. Traces with numbers beyond 32 bits are
// skipped (counted in Stats.Skipped).
func Write(w *bufio.Writer, events []disk.VerifEvent, st *Stats) error {
	if st.ByEvent == nil {
		st.ByEvent = map[string]int{}
	}
	order := []uint64{}
	by := map[uint64][]*disk.VerifEvent{}
	for i := range events {
		e := &events[i]
		if _, ok := by[e.Lru]; !ok {
			order = append(order, e.Lru)
		}
		by[e.Lru] = append(by[e.Lru], e)
	}
	for _, id := range order {
		evs := by[id]
		sort.SliceStable(evs, func(i, j int) bool { return evs[i].Seq < evs[j].Seq })
		lines := make([]map[string]any, 0, len(evs)+1)
		track := false
		fit := true
		var max, hl int64
		for _, e := range evs {
			if e.Ev == "ReqBegin" || e.Ev == "FileCreate" {
				track = true
			}
			if max == 0 {
				max = e.Max
			}
			if hl == 0 && e.HL != 0 {
				hl = e.HL
			}
			m, ok := Line(e)
			if !ok {
				fit = false
				break
			}
			lines = append(lines, m)
		}
		if !fit {
			st.Skipped++
			continue
		}
		reset := map[string]any{}
		proto, _ := Line(&disk.VerifEvent{Ev: "Reset"})
		for k, v := range proto {
			reset[k] = v
		}
		reset["ev"], reset["max"], reset["hl"], reset["track"] = "Reset", max, hl, track
		if _, ok := clamp(max); !ok {
			st.Skipped++
			continue
		}
		enc := json.NewEncoder(w)
		if err := enc.Encode(reset); err != nil {
			return err
		}
		st.Lines++
		for _, m := range lines {
			if err := enc.Encode(m); err != nil {
				return err
			}
			st.Lines++
			st.ByEvent[m["ev"].(string)]++
			st.Evictions += len(m["victims"].([]string))
		}
		st.Traces++
	}
	return nil
}

// ReadRaw reads events written by the env-configured file sink (VERIF_TRACE).
func ReadRaw(path string) ([]disk.VerifEvent, error) {
	f, err := os.Open(path)
	if err != nil {
		return nil, err
	}
	defer f.Close()
	var out []disk.VerifEvent
	sc := bufio.NewScanner(f)
	sc.Buffer(make([]byte, 1<<20), 1<<26)
	for sc.Scan() {
		var e disk.VerifEvent
		if err := json.Unmarshal(sc.Bytes(), &e); err != nil {
			continue // a torn last line of a killed process
		}
		out = append(out, e)
	}
	return out, sc.Err()
}
