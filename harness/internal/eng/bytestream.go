package eng

import (
	"bytes"
	"context"
	"encoding/json"
	"fmt"
	"math/rand"
	"runtime"
	"sort"
	"strings"
	"time"

	"github.com/buchgr/bazel-remote/v2/cache"
	pb "github.com/buchgr/bazel-remote/v2/genproto/build/bazel/remote/execution/v2"
	"google.golang.org/genproto/googleapis/bytestream"

	"verif/harness/internal/drv"
	"verif/harness/internal/fe"
)

// BSMsg is one client message of a ByteStream.tla script.
type BSMsg struct {
	Len    int  `json:"len"`
	Finish bool `json:"finish"`
	Rename bool `json:"rename"`
}

// BSScript is a client script.
type BSScript struct {
	Msgs   []BSMsg `json:"msgs"`
	Name   string  `json:"name"`
	Offset int     `json:"offset"`
	Zstd   bool    `json:"zstd"`
	BadAt  int     `json:"badAt"`
	Exists bool    `json:"exists"`
	Ending string  `json:"ending"`
}

// BSFinal is one reachable final state of the specification for a script.
type BSFinal struct {
	Script BSScript `json:"script"`
	Answer string   `json:"answer"`
	Stored bool     `json:"stored"`
	Sent   int      `json:"sent"`
}

// BSRun is one executed script.
type BSRun struct {
	Script    BSScript `json:"script"`
	BlobSize  int      `json:"blob_size"`
	Answer    string   `json:"answer"`
	Committed int64    `json:"committed_size"`
	Stored    bool     `json:"stored"`
	Allowed   []string `json:"allowed"`
}

func scriptKey(s BSScript) string { b, _ := json.Marshal(s); return string(b) }

// serverGoroutines counts goroutines that are still inside the ByteStream.Write
// handler or the pipeline it started.
func serverGoroutines() (int, string) {
	buf := make([]byte, 4<<20)
	n := runtime.Stack(buf, true)
	cnt := 0
	var sample string
	for _, g := range strings.Split(string(buf[:n]), "\n\n") {
		if strings.Contains(g, "server.(*grpcServer).Write") {
			cnt++
			if sample == "" {
				lines := strings.Split(g, "\n")
				if len(lines) > 7 {
					lines = lines[:7]
				}
				sample = strings.Join(lines, " | ")
			}
		}
	}
	return cnt, sample
}

// RunByteStream executes every script whose final states the specification listed.
func RunByteStream(finals []BSFinal, seed int64, blobSizes []int, stride int) (runs []BSRun, viols []drv.Violation, err error) {
	rng := rand.New(rand.NewSource(seed))
	// group final states per script
	type exp struct {
		script  BSScript
		answers map[string]bool
		stored  map[bool]bool
		sentOK  map[int]bool
	}
	by := map[string]*exp{}
	var keys []string
	for _, f := range finals {
		k := scriptKey(f.Script)
		e := by[k]
		if e == nil {
			e = &exp{script: f.Script, answers: map[string]bool{}, stored: map[bool]bool{}, sentOK: map[int]bool{}}
			by[k] = e
			keys = append(keys, k)
		}
		e.answers[f.Answer] = true
		e.stored[f.Stored] = true
		if f.Answer == "ok" {
			e.sentOK[f.Sent] = true
		}
	}
	sort.Strings(keys)
	f, e := fe.New(fe.Opts{MaxSize: 1 << 30})
	if e != nil {
		return nil, nil, e
	}
	defer f.Close()
	for ki, k := range keys {
		ex := by[k]
		s := ex.script
		// scripts that send more than the blob (on a blob that is not there yet) are where the end-of-data
		// handling of the writer shows: they are replayed with the large, chunk-multiple sizes whatever the stride
		payload := 0
		for _, m := range s.Msgs {
			payload += m.Len
		}
		surplus := payload > 2 && !s.Exists && s.Name == "ok"
		// (so are the streams that end before their first message: there are only two of them)
		picked := !(stride > 1 && (ki+int(seed))%stride != 0) || len(s.Msgs) == 0
		if !picked && !surplus {
			continue
		}
		for _, bsz := range blobSizes {
			// negative sizes are large blobs (chunk-size multiples)
			if bsz < 0 {
				if !surplus && !(picked && (ki/maxInt(stride, 1)+int(seed))%16 == 0) {
					continue
				}
				bsz = -bsz
			} else if !picked {
				continue
			}
			blob := drv.MkBlob(drv.GenData(rng, bsz, rng.Intn(3)))
			// the abstract blob has 2 bytes: two parts of the transport stream
			stream := blob.Data
			if s.Zstd {
				stream = zstdEncode(blob.Data)
				if s.BadAt == 1 {
					stream = append([]byte{}, stream...)
					stream[0] ^= 0xff
					stream[1] ^= 0xff
				}
			}
			half := len(stream) / 2
			parts := [][]byte{stream[:half], stream[half:]}
			if s.Exists {
				if e := f.Cache.Put(context.Background(), cache.CAS, blob.Hash, int64(bsz), bytes.NewReader(blob.Data)); e != nil {
					return runs, viols, e
				}
			}
			var name string
			uuid := fmt.Sprintf("%08x-1111-2222-3333-444444444444", rng.Uint32())
			// instance names: none, plain, nested, and names whose segments merely contain the protocol's key words
			insts := []string{"", "inst/", "a/b/c/", "main/ac/", "x y/", "ci-uploads/", "team/nightly_uploads/", "myblobs/", "compressed-blobs-mirror/eu/", "blobs-archive/uploads-old/"}
			inst := insts[rng.Intn(len(insts))]
			tail := []string{"", "/meta/data", "/foo"}[rng.Intn(3)]
			switch {
			case s.Name == "empty":
				name = ""
			case s.Name == "unparsable":
				bad := []string{"blobs/" + blob.Hash, "uploads/" + uuid + "/blobs/" + blob.Hash, "uploads/" + uuid + "/blobs/" + blob.Hash + "/notanumber",
					"uploads/" + uuid + "/blobz/" + blob.Hash + "/5", "uploads/" + uuid + "/compressed-blobs/lz4/" + blob.Hash + "/5", "garbage",
					// no segment is exactly "uploads" / "blobs"
					fmt.Sprintf("inst/myuploads/%s/blobs/%s/%d", uuid, blob.Hash, bsz), fmt.Sprintf("x-uploads/%s/blobs/%s/%d", uuid, blob.Hash, bsz),
					fmt.Sprintf("uploads/%s/myblobs/%s/%d", uuid, blob.Hash, bsz), fmt.Sprintf("uploads/%s/blobs/%s/-%d", uuid, blob.Hash, bsz),
					fmt.Sprintf("uploads/%s/a/b/blobs/%s/%d", uuid, blob.Hash, bsz)}
				// (an empty or odd upload id is not a malformed name: the server ignores that segment)
				name = bad[rng.Intn(len(bad))]
			case s.Zstd:
				name = fmt.Sprintf("%suploads/%s/compressed-blobs/zstd/%s/%d%s", inst, uuid, blob.Hash, bsz, tail)
			default:
				name = fmt.Sprintf("%suploads/%s/blobs/%s/%d%s", inst, uuid, blob.Hash, bsz, tail)
			}
			before, _ := serverGoroutines() // leftovers of earlier calls, if any
			patience := 30 * time.Second
			if len(s.Msgs) == 0 {
				patience = 8 * time.Second // nothing is ever sent: the answer cannot depend on work the server has to do
			}
			ctx, cancel := context.WithTimeout(context.Background(), patience)
			w, e := f.BS.Write(ctx)
			if e != nil {
				cancel()
				return runs, viols, e
			}
			next := 0 // next part of the stream
			var sendErr error
			var transport int64 // payload bytes sent up to and including the first finish_write
			finished := false
			for i, m := range s.Msgs {
				var data []byte
				for j := 0; j < m.Len; j++ {
					if next < len(parts) {
						data = append(data, parts[next]...)
					} else {
						data = append(data, []byte("surplus-bytes-after-the-declared-end")...)
					}
					next++
				}
				if !finished {
					transport += int64(len(data))
				}
				if m.Finish {
					finished = true
				}
				rq := &bytestream.WriteRequest{Data: data, FinishWrite: m.Finish}
				if i == 0 {
					rq.ResourceName = name
					rq.WriteOffset = int64(s.Offset)
				} else {
					if m.Rename {
						rq.ResourceName = name + "-renamed"
					} else if rng.Intn(2) == 0 {
						rq.ResourceName = name // repeating the same name is allowed
					}
				}
				if sendErr = w.Send(rq); sendErr != nil {
					break
				}
			}
			var resp *bytestream.WriteResponse
			var callErr error
			if s.Ending == "abort" {
				// give the server a moment to consume what was sent, then vanish
				time.Sleep(2 * time.Millisecond)
				cancel()
				// no half-close: CloseAndRecv would send END_STREAM, which can overtake the reset
				resp = new(bytestream.WriteResponse)
				callErr = w.RecvMsg(resp)
				if callErr != nil {
					resp = nil
				}
			} else {
				resp, callErr = w.CloseAndRecv()
			}
			cancel()
			answer := "ok"
			if callErr != nil {
				answer = "error"
			}
			// wait until the call has come to rest on the server - its goroutines gone (for two samples in a row: after
			// an abort the handler may not even have started yet) and nothing reserved -, then look at what is stored.
			// A goroutine or reservation that is still there after 5 s is a leak, not a slow machine.
			left, sample := 0, ""
			calm, needCalm := 0, 1
			if s.Ending == "abort" {
				needCalm = 2
			}
			for i := 0; i < 2500 && calm < needCalm; i++ {
				left, sample = serverGoroutines()
				left -= before
				_, rv, _, _ := f.Cache.Stats()
				if left <= 0 && rv == 0 {
					calm++
					if calm < needCalm {
						time.Sleep(3 * time.Millisecond)
					}
				} else {
					calm = 0
					time.Sleep(2 * time.Millisecond)
				}
			}
			probe := func() (bool, *bytestream.QueryWriteStatusResponse, error, error) {
				fctx, fcancel := fe.Ctx()
				fm, e := f.CAS.FindMissingBlobs(fctx, &pb.FindMissingBlobsRequest{BlobDigests: []*pb.Digest{{Hash: blob.Hash, SizeBytes: int64(bsz)}}})
				fcancel()
				if e != nil {
					return false, nil, nil, e
				}
				qctx, qcancel := fe.Ctx()
				q, qe := f.BS.QueryWriteStatus(qctx, &bytestream.QueryWriteStatusRequest{ResourceName: fmt.Sprintf("%suploads/%s/blobs/%s/%d", inst, uuid, blob.Hash, bsz)})
				qcancel()
				return len(fm.MissingBlobDigests) == 0, q, qe, nil
			}
			stored, qws, qe, e := probe()
			if e != nil {
				return runs, viols, e
			}
			// the two probes are taken one after the other: if they disagree, the upload may have landed in between
			for try := 0; try < 3 && qe == nil && qws.Complete != stored; try++ {
				time.Sleep(20 * time.Millisecond)
				if stored, qws, qe, e = probe(); e != nil {
					return runs, viols, e
				}
			}
			run := BSRun{Script: s, BlobSize: bsz, Answer: answer, Stored: stored}
			if resp != nil {
				run.Committed = resp.CommittedSize
			}
			for a := range ex.answers {
				run.Allowed = append(run.Allowed, a)
			}
			runs = append(runs, run)
			bad := func(p, fm string, a ...any) {
				viols = append(viols, drv.Violation{Prop: p, What: fmt.Sprintf("script %s blob=%dB: ", k, bsz) + fmt.Sprintf(fm, a...), Hist: ki})
			}
			if s.Ending == "abort" && answer == "error" {
				// the client cancelled: its own library reports Canceled whatever the server did
			} else if !ex.answers[answer] {
				bad("C16", "the call answered %s (%v), the specification allows %v", answer, callErr, run.Allowed)
			}
			if !ex.stored[stored] {
				bad("C16", "after the call the blob is stored=%v, the specification allows %v", stored, ex.stored)
			}
			if answer == "ok" && resp != nil {
				var want int64
				switch {
				case s.Exists && s.Zstd:
					want = -1
				case s.Exists || !s.Zstd:
					want = int64(bsz)
				default:
					want = transport
				}
				if resp.CommittedSize != want {
					bad("C16", "committed_size=%d on success, expected %d (exists=%v zstd=%v, %d payload bytes sent, blob size %d)", resp.CommittedSize, want, s.Exists, s.Zstd, transport, bsz)
				}
			}
			if qe == nil {
				if qws.Complete != stored || (stored && qws.CommittedSize != int64(bsz)) || (!stored && qws.CommittedSize != 0) {
					bad("C16", "QueryWriteStatus answers complete=%v committed_size=%d while the blob is stored=%v (size %d)", qws.Complete, qws.CommittedSize, stored, bsz)
				}
			} else {
				bad("C16", "QueryWriteStatus failed on a well-formed resource name: %v", qe)
			}
			// residue: what counts is that it goes away and stays away - under load the server may get to the
			// aborted stream only now
			if !waitFor(func() bool {
				n, smp := serverGoroutines()
				left, sample = n-before, smp
				_, rv, _, _ := f.Cache.Stats()
				return left <= 0 && rv == 0
			}, 10*time.Second) {
				if left > 0 {
					bad("C14", "%d goroutine(s) of the call are still alive 10 s after it ended: %s", left, sample)
				}
				if _, resv, _, _ := f.Cache.Stats(); resv != 0 {
					bad("C14", "reserved=%d 10 s after the call ended", resv)
				}
			}
		}
	}
	return runs, viols, nil
}

func maxInt(a, b int) int {
	if a > b {
		return a
	}
	return b
}
