package eng

import (
	"bytes"
	"context"
	"fmt"
	"math/rand"
	"net/http"

	"github.com/buchgr/bazel-remote/v2/cache"
	"github.com/buchgr/bazel-remote/v2/cache/disk"
	pb "github.com/buchgr/bazel-remote/v2/genproto/build/bazel/remote/execution/v2"
	"google.golang.org/grpc/codes"
	"google.golang.org/grpc/status"
	"google.golang.org/protobuf/proto"

	"verif/harness/internal/drv"
	"verif/harness/internal/fe"
)

// ACRef is one reference of an ActionResult shape.
type ACRef struct {
	Cat   string `json:"cat"`
	State string `json:"state"`
}

// ACShape is one row of ActionCache.tla's dependency table.
type ACShape struct {
	Refs []ACRef `json:"refs"`
	Hit  bool    `json:"hit"`
}

// ACDepRun describes one executed shape.
type ACDepRun struct {
	Shape   ACShape `json:"shape"`
	Backend bool    `json:"backend"`
	GRPC    string  `json:"grpc"`
	Get     int     `json:"http_get"`
	Head    int     `json:"http_head"`
}

const emptyHash = "e3b0c44298fc1c149afbf4c8996fb92427ae41e4649b934ca495991b7852b855"

// place puts a fresh blob into the given state and returns the digest to reference.
func place(f *fe.Fixture, p *drv.FakeProxy, mode string, rng *rand.Rand, state string, data []byte) (*pb.Digest, bool, error) {
	b := drv.MkBlob(data)
	d := &pb.Digest{Hash: b.Hash, SizeBytes: int64(len(data))}
	ctx := context.Background()
	switch state {
	case "present":
		return d, true, f.Cache.Put(ctx, cache.CAS, b.Hash, int64(len(data)), bytes.NewReader(data))
	case "absent":
		return d, false, nil
	case "otherSize":
		d.SizeBytes += 1 + int64(rng.Intn(3))
		return d, false, f.Cache.Put(ctx, cache.CAS, b.Hash, int64(len(data)), bytes.NewReader(data))
	case "backendOnly":
		if p != nil {
			drv.SeedBackend(p, mode, b)
		}
		return d, false, nil
	case "backendOversize":
		big := drv.MkBlob(append(append([]byte{}, data...), make([]byte, proxyLimit)...))
		if p != nil {
			drv.SeedBackend(p, mode, big)
		}
		return &pb.Digest{Hash: big.Hash, SizeBytes: int64(len(big.Data))}, false, nil
	case "emptyBlob":
		return &pb.Digest{Hash: emptyHash, SizeBytes: 0}, false, nil
	}
	return nil, false, fmt.Errorf("unknown state %s", state)
}

// buildShape materialises a shape; returns the ActionResult and the lookup keys of
// the referenced blobs that are held locally.
func buildShape(f *fe.Fixture, p *drv.FakeProxy, mode string, rng *rand.Rand, s ACShape) (*pb.ActionResult, []string, error) {
	ar := &pb.ActionResult{ExecutionMetadata: &pb.ExecutedActionMetadata{Worker: "harness"}}
	var local []string
	note := func(d *pb.Digest, isLocal bool) {
		if isLocal {
			local = append(local, "cas/"+d.Hash)
		}
	}
	fresh := func() []byte { return drv.GenData(rng, 20+rng.Intn(400), rng.Intn(3)) }
	// "otherSize" is a reference whose hash names a stored blob and whose size is another one: half of the
	// time the stored blob is one that the same ActionResult also references correctly
	var presentSeen []*pb.Digest
	placed := map[int]*pb.Digest{}
	placedLocal := map[int]bool{}
	for pass := 0; pass < 2; pass++ {
		for i, r := range s.Refs {
			if r.Cat == "fileInline" || r.Cat == "treeBlob" || (pass == 0) != (r.State == "present") {
				continue
			}
			if r.State == "otherSize" && len(presentSeen) > 0 && rng.Intn(2) == 0 {
				b := presentSeen[rng.Intn(len(presentSeen))]
				placed[i] = &pb.Digest{Hash: b.Hash, SizeBytes: b.SizeBytes + 1 + int64(rng.Intn(3))}
				continue
			}
			d, l, err := place(f, p, mode, rng, r.State, fresh())
			if err != nil {
				return nil, nil, err
			}
			placed[i], placedLocal[i] = d, l
			if r.State == "present" {
				presentSeen = append(presentSeen, d)
			}
		}
	}
	root := &pb.Directory{}
	child := &pb.Directory{}
	var treeState string
	n := 0
	for ri, r := range s.Refs {
		n++
		switch r.Cat {
		case "fileNoInline":
			d, l := placed[ri], placedLocal[ri]
			note(d, l)
			ar.OutputFiles = append(ar.OutputFiles, &pb.OutputFile{Path: fmt.Sprintf("out/f%d", n), Digest: d})
		case "fileInline":
			c := fresh()
			ar.OutputFiles = append(ar.OutputFiles, &pb.OutputFile{Path: fmt.Sprintf("out/i%d", n), Digest: &pb.Digest{Hash: drv.MkBlob(c).Hash, SizeBytes: int64(len(c))}, Contents: c})
		case "treeRootFile":
			d, l := placed[ri], placedLocal[ri]
			note(d, l)
			root.Files = append(root.Files, &pb.FileNode{Name: fmt.Sprintf("r%d", n), Digest: d})
		case "treeChildFile":
			d, l := placed[ri], placedLocal[ri]
			note(d, l)
			child.Files = append(child.Files, &pb.FileNode{Name: fmt.Sprintf("c%d", n), Digest: d})
		case "stdoutDigest":
			d, l := placed[ri], placedLocal[ri]
			note(d, l)
			ar.StdoutDigest = d
		case "stderrDigest":
			d, l := placed[ri], placedLocal[ri]
			note(d, l)
			ar.StderrDigest = d
		case "treeBlob":
			treeState = r.State
		}
	}
	if treeState != "" {
		cd, _ := proto.Marshal(child)
		root.Directories = []*pb.DirectoryNode{{Name: "sub", Digest: &pb.Digest{Hash: drv.MkBlob(cd).Hash, SizeBytes: int64(len(cd))}}}
		// a symlink with a fresh name makes every Tree blob unique even without files
		root.Symlinks = []*pb.SymlinkNode{{Name: fmt.Sprintf("uniq-%d", rng.Int63()), Target: "t"}}
		tree := &pb.Tree{Root: root, Children: []*pb.Directory{child}}
		td, _ := proto.Marshal(tree)
		d, l, err := place(f, p, mode, rng, treeState, td)
		if err != nil {
			return nil, nil, err
		}
		note(d, l)
		ar.OutputDirectories = append(ar.OutputDirectories, &pb.OutputDirectory{Path: fmt.Sprintf("dir%d", rng.Intn(1000)), TreeDigest: d})
	}
	return ar, local, nil
}

// queryAC asks the three read paths whether key is a hit.
func queryAC(f *fe.Fixture, key string) (grpcRes string, get, head int, err error) {
	ctx, cancel := fe.Ctx()
	defer cancel()
	_, e := f.AC.GetActionResult(ctx, &pb.GetActionResultRequest{ActionDigest: &pb.Digest{Hash: key, SizeBytes: 11}})
	switch status.Code(e) {
	case codes.OK:
		grpcRes = "hit"
	case codes.NotFound:
		grpcRes = "miss"
	default:
		grpcRes = "error:" + status.Code(e).String() + ":" + status.Convert(e).Message()
	}
	get, _, _, err = f.HTTPDo(http.MethodGet, "/ac/"+key, nil, nil)
	if err != nil {
		return
	}
	head, _, _, err = f.HTTPDo(http.MethodHead, "/ac/"+key, nil, nil)
	return
}

// RunACDeps executes every dependency shape.
func RunACDeps(shapes []ACShape, seed int64, mode string, backend bool) (runs []ACDepRun, viols []drv.Violation, err error) {
	rng := rand.New(rand.NewSource(seed))
	var p *drv.FakeProxy
	opt := fe.Opts{Mode: mode, MaxSize: 1 << 30}
	if backend {
		p = drv.NewFakeProxy()
		opt.Proxy = p
		opt.ProxyMaxBlob = proxyLimit
	}
	f, e := fe.New(opt)
	if e != nil {
		return nil, nil, e
	}
	defer f.Close()
	ctx := context.Background()

	// the long-list class: 22 file references, the absent one at a batch edge
	extra := []struct {
		missingAt int
		hit       bool
	}{{-1, true}, {0, false}, {19, false}, {20, false}, {21, false}}

	check := func(ci int, shape ACShape, ar *pb.ActionResult, local []string, wantHit bool, label string) error {
		data, _ := proto.Marshal(ar)
		key := drv.MkBlob([]byte(fmt.Sprintf("ackey-%d-%d-%s", seed, ci, label))).Hash
		if err := f.Cache.Put(ctx, cache.AC, key, int64(len(data)), bytes.NewReader(data)); err != nil {
			return err
		}
		g, get, head, err := queryAC(f, key)
		if err != nil {
			return err
		}
		runs = append(runs, ACDepRun{Shape: shape, Backend: backend, GRPC: g, Get: get, Head: head})
		bad := func(fmtS string, a ...any) {
			viols = append(viols, drv.Violation{Prop: "C06", What: fmt.Sprintf("shape %v %s backend=%v mode=%s: ", shape.Refs, label, backend, mode) + fmt.Sprintf(fmtS, a...), Hist: ci})
		}
		want := "miss"
		wantCode := 404
		if wantHit {
			want, wantCode = "hit", 200
		}
		if g != want {
			bad("GetActionResult answered %s, the specification says %s", g, want)
		}
		if get != wantCode {
			bad("HTTP GET /ac/ answered %d, the specification says %d", get, wantCode)
		}
		if head != wantCode {
			bad("HTTP HEAD /ac/ answered %d, the specification says %d", head, wantCode)
		}
		// a hit is a use of every referenced blob held locally
		if wantHit && g == "hit" && len(local) > 0 {
			backendRef := false
			for _, r := range shape.Refs {
				if r.State == "backendOnly" {
					backendRef = true
				}
			}
			if !backendRef {
				s := disk.VerifSnapshot(f.Cache)
				want := map[string]bool{"ac/" + key: true}
				for _, k := range local {
					want[k] = true
				}
				for i := 0; i < len(want) && i < len(s.Entries); i++ {
					if !want[s.Entries[i].Key] {
						bad("after the hit, %s is more recently used than a referenced blob (recency not refreshed for one of %d referenced blobs)", s.Entries[i].Key[:12], len(local))
						break
					}
				}
			}
		}
		return nil
	}

	for ci, s := range shapes {
		ar, local, e := buildShape(f, p, mode, rng, s)
		if e != nil {
			return runs, viols, e
		}
		if e := check(ci, s, ar, local, s.Hit, ""); e != nil {
			return runs, viols, e
		}
	}
	for xi, x := range extra {
		ar := &pb.ActionResult{ExecutionMetadata: &pb.ExecutedActionMetadata{Worker: "harness"}}
		var local []string
		shape := ACShape{Hit: x.hit}
		for i := 0; i < 22; i++ {
			st := "present"
			if i == x.missingAt {
				st = "absent"
			}
			d, l, e := place(f, p, mode, rng, st, drv.GenData(rng, 30+rng.Intn(100), 0))
			if e != nil {
				return runs, viols, e
			}
			if l {
				local = append(local, "cas/"+d.Hash)
			}
			ar.OutputFiles = append(ar.OutputFiles, &pb.OutputFile{Path: fmt.Sprintf("o/%d", i), Digest: d})
		}
		shape.Refs = []ACRef{{Cat: "22 files", State: fmt.Sprintf("absent at %d", x.missingAt)}}
		if e := check(100000+xi, shape, ar, local, x.hit, "long-list"); e != nil {
			return runs, viols, e
		}
	}
	return runs, viols, nil
}
