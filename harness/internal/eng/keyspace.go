package eng

import (
	"bytes"
	"fmt"
	"math/rand"
	"net/http"
	"net/url"
	"strings"

	pb "github.com/buchgr/bazel-remote/v2/genproto/build/bazel/remote/execution/v2"
	"google.golang.org/grpc/codes"
	"google.golang.org/grpc/status"
	"google.golang.org/protobuf/proto"

	"verif/harness/internal/drv"
	"verif/harness/internal/fe"
)

// KSWrite is one write of a Keyspace.tla history.
type KSWrite struct {
	Kind  string `json:"kind"`
	Front string `json:"front"`
	Inst  string `json:"inst"`
}

// KSFinal is a history with the reads the specification expects afterwards.
type KSFinal struct {
	Hist     []KSWrite                            `json:"hist"`
	Reads    map[string]map[string]map[string]int `json:"reads"` // front -> kind -> inst -> write index (0 = miss)
	Mangle   bool                                 `json:"mangle"`
	Validate bool                                 `json:"validate"`
}

// KSRun is one executed history.
type KSRun struct {
	Hist     []KSWrite `json:"hist"`
	Mangle   bool      `json:"mangle"`
	Validate bool      `json:"validate"`
	I1, I2   string
	Probes   int `json:"probes"`
}

// instance names: nested, with segments that look like key-space names, unicode, spaces.
// (names that are not path-clean - "//", "./", "../" - are documented as unsupported over HTTP)
var instCatalogue = []string{"main", "a/b", "deep/er/nested/name", "team/ac", "x/cas/y", "blobs", "uploads/zz", "ünï/日本語", "with space", "Capital-and_under.dot", "ac", "cas"}

// families of different instance names that are easy to confuse: long common prefixes (beyond 64, 128,
// 256 and 1024 bytes), one a prefix of the other, letter case, moved separators, composed / decomposed unicode
var instFamilies = func() [][]string {
	long := func(n int, tails ...string) []string {
		p := "projects/acme-build-infra/locations/europe-west1/instances/default_instance/branches/"
		for len(p) < n {
			p += "segment-of-a-rather-long-instance-name/"
		}
		var out []string
		for _, t := range tails {
			out = append(out, p+t)
		}
		return out
	}
	return [][]string{
		long(70, "main", "mainline-2", "m", "main/x"),
		long(130, "a", "b", "ab"),
		long(260, "one", "two"),
		long(1030, "x", "y"),
		{"a", "a/b", "a/b/c", "a/bc", "ab/c"},
		{"Team/Main", "team/main", "TEAM/MAIN"},
		{"caf\u00e9/build", "cafe\u0301/build", "cafe/build"},
		{"x/ac/y", "x/ac", "ac/y", "x/y"},
	}
}()

func instPath(inst string) string {
	if inst == "" {
		return ""
	}
	segs := strings.Split(inst, "/")
	for i, s := range segs {
		segs[i] = url.PathEscape(s)
	}
	return "/" + strings.Join(segs, "/")
}

// RunKeyspace executes histories on a fixture per (mangle, validate).
func RunKeyspace(finals []KSFinal, seed int64, stride int) (runs []KSRun, viols []drv.Violation, err error) {
	rng := rand.New(rand.NewSource(seed))
	fixtures := map[[3]bool]*fe.Fixture{}
	defer func() {
		for _, f := range fixtures {
			f.Close()
		}
	}()
	for hi, fin := range finals {
		if stride > 1 && (hi+int(seed))%stride != 0 {
			continue
		}
		// the gRPC dependency check (on by default) is another switch that must not matter to where a key lands
		noDeps := (hi/2+int(seed))%2 == 0
		key := [3]bool{fin.Mangle, fin.Validate, noDeps}
		f := fixtures[key]
		if f == nil {
			f, err = fe.New(fe.Opts{Mangle: fin.Mangle, NoValidateAC: !fin.Validate, NoDepsCheck: noDeps, MaxSize: 1 << 30})
			if err != nil {
				return runs, viols, err
			}
			fixtures[key] = f
		}
		// two different instance names for this history
		a := rng.Intn(len(instCatalogue))
		b := (a + 1 + rng.Intn(len(instCatalogue)-1)) % len(instCatalogue)
		names := map[string]string{"": "", "I1": instCatalogue[a], "I2": instCatalogue[b]}
		if rng.Intn(2) == 0 {
			// two different names that are easy to confuse
			fam := instFamilies[rng.Intn(len(instFamilies))]
			x := rng.Intn(len(fam))
			y := (x + 1 + rng.Intn(len(fam)-1)) % len(fam)
			names["I1"], names["I2"] = fam[x], fam[y]
		}
		D := drv.GenData(rng, 40+rng.Intn(200), rng.Intn(3))
		h := drv.MkBlob(D).Hash
		bad := func(fm string, x ...any) {
			viols = append(viols, drv.Violation{Prop: "C15", What: fmt.Sprintf("history %v mangling=%v validation=%v grpc_ac_deps_check=%v I1=%q I2=%q: ", fin.Hist, fin.Mangle, fin.Validate, !noDeps, names["I1"], names["I2"]) + fmt.Sprintf(fm, x...), Hist: hi})
		}
		// the value written by write k: an ActionResult whose exit code is k
		arBytes := func(k int) []byte {
			ar := &pb.ActionResult{ExitCode: int32(k), ExecutionMetadata: &pb.ExecutedActionMetadata{Worker: fmt.Sprintf("w%d", k)}}
			b, _ := proto.Marshal(ar)
			return b
		}
		for k, w := range fin.Hist {
			inst := names[w.Inst]
			switch {
			case w.Kind == "cas" && w.Front == "http":
				c, _, _, e := f.HTTPDo(http.MethodPut, instPath(inst)+"/cas/"+h, D, nil)
				if e != nil || c != 200 {
					return runs, viols, fmt.Errorf("CAS PUT failed: %v %d", e, c)
				}
			case w.Kind == "cas":
				ctx, cancel := fe.Ctx()
				r, e := f.CAS.BatchUpdateBlobs(ctx, &pb.BatchUpdateBlobsRequest{InstanceName: inst, Requests: []*pb.BatchUpdateBlobsRequest_Request{{Digest: &pb.Digest{Hash: h, SizeBytes: int64(len(D))}, Data: D}}})
				cancel()
				if e != nil || r.Responses[0].Status.GetCode() != 0 {
					return runs, viols, fmt.Errorf("CAS batch update failed: %v", e)
				}
			case w.Front == "http":
				c, body, _, e := f.HTTPDo(http.MethodPut, instPath(inst)+"/ac/"+h, arBytes(k+1), nil)
				if e != nil || c != 200 {
					return runs, viols, fmt.Errorf("AC PUT failed: %v %d %s", e, c, body)
				}
			default:
				ar := &pb.ActionResult{}
				_ = proto.Unmarshal(arBytes(k+1), ar)
				ctx, cancel := fe.Ctx()
				_, e := f.AC.UpdateActionResult(ctx, &pb.UpdateActionResultRequest{InstanceName: inst, ActionDigest: &pb.Digest{Hash: h, SizeBytes: 7}, ActionResult: ar})
				cancel()
				if e != nil {
					return runs, viols, fmt.Errorf("UpdateActionResult failed: %v", e)
				}
			}
		}
		run := KSRun{Hist: fin.Hist, Mangle: fin.Mangle, Validate: fin.Validate, I1: names["I1"], I2: names["I2"]}
		for front, byKind := range fin.Reads {
			for kind, byInst := range byKind {
				for ik, want := range byInst {
					inst := names[ik]
					run.Probes++
					got := -1 // -1: error
					switch {
					case kind == "cas" && front == "http":
						c, body, hdr, e := f.HTTPDo(http.MethodGet, instPath(inst)+"/cas/"+h, nil, nil)
						if e == nil && c == 404 {
							got = 0
						} else if e == nil && c == 200 && bytes.Equal(body, D) && hdr.Get("Content-Encoding") == "" {
							got = 1
						}
						if want > 0 {
							want = 1
						}
					case kind == "cas":
						ctx, cancel := fe.Ctx()
						r, e := f.CAS.BatchReadBlobs(ctx, &pb.BatchReadBlobsRequest{InstanceName: inst, Digests: []*pb.Digest{{Hash: h, SizeBytes: int64(len(D))}}})
						cancel()
						if e == nil && len(r.Responses) == 1 {
							switch codes.Code(r.Responses[0].Status.GetCode()) {
							case codes.NotFound:
								got = 0
							case codes.OK:
								if bytes.Equal(r.Responses[0].Data, D) {
									got = 1
								}
							}
						}
						if want > 0 {
							want = 1
						}
					case front == "http":
						// a compressed read is only ever served from the CAS
						c, body, hdr, e := f.HTTPDo(http.MethodGet, instPath(inst)+"/ac/"+h, nil, map[string]string{"Accept-Encoding": "zstd"})
						if e == nil && c == 404 {
							got = 0
						} else if e == nil && c == 200 {
							if hdr.Get("Content-Encoding") != "" {
								bad("HTTP GET of an action result answered with Content-Encoding %q", hdr.Get("Content-Encoding"))
							}
							ar := &pb.ActionResult{}
							if proto.Unmarshal(body, ar) == nil {
								got = int(ar.ExitCode)
							}
						}
					default:
						ctx, cancel := fe.Ctx()
						ar, e := f.AC.GetActionResult(ctx, &pb.GetActionResultRequest{InstanceName: inst, ActionDigest: &pb.Digest{Hash: h, SizeBytes: 7}})
						cancel()
						if status.Code(e) == codes.NotFound {
							got = 0
						} else if e == nil {
							got = int(ar.ExitCode)
						}
					}
					if got != want {
						bad("read through %s of %s under instance %q returned write #%d (0 = miss, -1 = error), the specification says #%d", front, kind, inst, got, want)
					}
					// Keyspace.tla, Exists: an existence check names the same entry as the read (HTTP HEAD; gRPC has
					// FindMissingBlobs for the CAS only)
					if front == "http" {
						run.Probes++
						c, _, _, e := f.HTTPDo(http.MethodHead, instPath(inst)+"/"+kind+"/"+h, nil, nil)
						if e != nil || (want > 0) != (c == 200) || (want == 0) != (c == 404) {
							bad("HTTP HEAD of %s under instance %q answered %d (%v), the specification says the entry %s", kind, inst, c, e,
								map[bool]string{true: "exists (200)", false: "does not exist (404)"}[want > 0])
						}
					} else if kind == "cas" {
						run.Probes++
						ctx, cancel := fe.Ctx()
						r, e := f.CAS.FindMissingBlobs(ctx, &pb.FindMissingBlobsRequest{InstanceName: inst, BlobDigests: []*pb.Digest{{Hash: h, SizeBytes: int64(len(D))}}})
						cancel()
						if e != nil || (want > 0) != (len(r.MissingBlobDigests) == 0) {
							bad("FindMissingBlobs under instance %q: missing=%v (%v), the specification says the blob %s", inst, r.GetMissingBlobDigests() != nil, e,
								map[bool]string{true: "exists", false: "does not exist"}[want > 0])
						}
					}
				}
			}
		}
		runs = append(runs, run)
	}
	return runs, viols, nil
}
