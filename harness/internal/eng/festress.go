package eng

import (
	"bytes"
	"fmt"
	"io"
	"math/rand"
	"net/http"
	"sync"
	"sync/atomic"

	pb "github.com/buchgr/bazel-remote/v2/genproto/build/bazel/remote/execution/v2"
	"google.golang.org/genproto/googleapis/bytestream"
	"google.golang.org/grpc/codes"
	"google.golang.org/grpc/status"

	"verif/harness/internal/drv"
	"verif/harness/internal/fe"
	"verif/harness/internal/fmtw"
)

// FeStressRun summarises one concurrent run against the front ends.
type FeStressRun struct {
	Mode    string         `json:"mode"`
	Workers int            `json:"workers"`
	Ops     map[string]int `json:"ops"`
	Hits    int            `json:"reads_with_content"`
}

// RunFeStress: several clients upload and download the same set of blobs at once through HTTP and gRPC,
// in identity and zstd transport; every download that succeeds must be exactly the blob (C07, C02).
func RunFeStress(seed int64, tier string) (runs []FeStressRun, viols []drv.Violation, err error) {
	workers, opsPer := 8, 40
	if tier == "thorough" {
		workers, opsPer = 16, 200
	}
	for mi, mode := range []string{"zstd", "uncompressed"} {
		rng := rand.New(rand.NewSource(seed + int64(mi)))
		f, e := fe.New(fe.Opts{Mode: mode, MaxSize: 1 << 30})
		if e != nil {
			return runs, viols, e
		}
		type blob struct {
			data []byte
			hash string
			zst  []byte
		}
		var blobs []blob
		for i, n := range []int{70000, 1 << 20, 1<<20 + 1, 3<<20 + 77, 5 << 20, 900, 2 << 20, 4<<20 + 5} {
			d := drv.GenData(rng, n, i%3)
			blobs = append(blobs, blob{d, fmtw.Sha(d), zstdEncode(d)})
		}
		var mu sync.Mutex
		bad := func(fm string, a ...any) {
			mu.Lock()
			if len(viols) < 40 {
				viols = append(viols, drv.Violation{Prop: "C07", What: fmt.Sprintf("%d concurrent clients, %s storage: ", workers, mode) + fmt.Sprintf(fm, a...)})
			}
			mu.Unlock()
		}
		ops := map[string]int{}
		var hits atomic.Int64
		count := func(k string) { mu.Lock(); ops[k]++; mu.Unlock() }
		check := func(path string, b blob, got []byte, rerr error) {
			if rerr != nil {
				bad("%s of a %d byte blob broke off after %d bytes: %v", path, len(b.data), len(got), rerr)
				return
			}
			hits.Add(1)
			if !bytes.Equal(got, b.data) {
				p := 0
				for p < len(got) && p < len(b.data) && got[p] == b.data[p] {
					p++
				}
				bad("%s of a %d byte blob delivered %d bytes that are not the blob (first difference at byte %d)", path, len(b.data), len(got), p)
			}
		}
		var wg sync.WaitGroup
		for w := 0; w < workers; w++ {
			wg.Add(1)
			wr := rand.New(rand.NewSource(seed*1000 + int64(w)))
			go func() {
				defer wg.Done()
				for o := 0; o < opsPer; o++ {
					b := blobs[wr.Intn(len(blobs))]
					switch wr.Intn(9) {
					case 0:
						count("http put")
						if c, _, _, e := f.HTTPDo(http.MethodPut, "/cas/"+b.hash, b.data, nil); e != nil || c != 200 {
							bad("HTTP PUT of a %d byte blob answered %d (%v)", len(b.data), c, e)
						}
					case 1:
						count("http put zstd")
						if c, _, _, e := f.HTTPDo(http.MethodPut, "/cas/"+b.hash, b.zst, map[string]string{"Content-Encoding": "zstd", "X-Digest-SizeBytes": fmt.Sprint(len(b.data))}); e != nil || c != 200 {
							bad("HTTP PUT (zstd) of a %d byte blob answered %d (%v)", len(b.data), c, e)
						}
					case 2:
						count("bytestream write")
						ctx, cancel := fe.Ctx()
						st, e := f.BS.Write(ctx)
						if e == nil {
							name := fmt.Sprintf("uploads/%08x-1111-2222-3333-444444444444/blobs/%s/%d", wr.Uint32(), b.hash, len(b.data))
							for off := 0; off < len(b.data); off += 1 << 20 {
								end := off + 1<<20
								if end > len(b.data) {
									end = len(b.data)
								}
								rq := &bytestream.WriteRequest{Data: b.data[off:end], WriteOffset: int64(off), FinishWrite: end == len(b.data)}
								if off == 0 {
									rq.ResourceName = name
								}
								if st.Send(rq) != nil {
									break
								}
							}
							_, e = st.CloseAndRecv()
						}
						cancel()
						if e != nil {
							bad("ByteStream.Write of a %d byte blob failed: %v", len(b.data), e)
						}
					case 3, 4:
						zs := wr.Intn(2) == 0
						count(fmt.Sprintf("http get zstd=%v", zs))
						hdr := map[string]string{}
						if zs {
							hdr["Accept-Encoding"] = "zstd"
						}
						c, body, _, e := f.HTTPDo(http.MethodGet, "/cas/"+b.hash, nil, hdr)
						if c == 404 {
							continue
						}
						if e == nil && c != 200 {
							e = fmt.Errorf("status %d", c)
						}
						if e == nil && zs {
							body, e = fmtw.DecodeZstdStream(body)
						}
						check(fmt.Sprintf("HTTP GET (zstd=%v)", zs), b, body, e)
					case 5, 6, 7:
						zs := wr.Intn(2) == 0
						count(fmt.Sprintf("bytestream read zstd=%v", zs))
						res := fmt.Sprintf("blobs/%s/%d", b.hash, len(b.data))
						if zs {
							res = fmt.Sprintf("compressed-blobs/zstd/%s/%d", b.hash, len(b.data))
						}
						got, e := bsRead(f, res, 0, 0)
						if status.Code(e) == codes.NotFound {
							continue
						}
						if e == nil && zs {
							got, e = fmtw.DecodeZstdStream(got)
						}
						check(fmt.Sprintf("ByteStream.Read (zstd=%v)", zs), b, got, e)
					default:
						count("batch read")
						ctx, cancel := fe.Ctx()
						r, e := f.CAS.BatchReadBlobs(ctx, &pb.BatchReadBlobsRequest{Digests: []*pb.Digest{{Hash: b.hash, SizeBytes: int64(len(b.data))}}})
						cancel()
						if e != nil || len(r.Responses) != 1 {
							continue // (over the message size limit for the large ones)
						}
						if codes.Code(r.Responses[0].Status.GetCode()) == codes.OK {
							check("BatchReadBlobs", b, r.Responses[0].Data, nil)
						}
					}
				}
			}()
		}
		wg.Wait()
		f.Close()
		runs = append(runs, FeStressRun{Mode: mode, Workers: workers, Ops: ops, Hits: int(hits.Load())})
	}
	return runs, viols, nil
}

var _ = io.EOF
