package eng

import (
	"bytes"
	"context"
	"fmt"
	"io"
	"io/fs"
	"math/rand"
	"net/http"
	"os"
	"path/filepath"
	"strings"
	"sync"
	"syscall"
	"time"

	"github.com/buchgr/bazel-remote/v2/cache"
	"github.com/buchgr/bazel-remote/v2/cache/disk"
	pb "github.com/buchgr/bazel-remote/v2/genproto/build/bazel/remote/execution/v2"
	"google.golang.org/grpc/codes"
	"google.golang.org/grpc/status"
	"google.golang.org/protobuf/proto"

	"verif/harness/internal/drv"
	"verif/harness/internal/fe"
	"verif/harness/internal/fmtw"
	"verif/harness/internal/rec"
)

// CrashCase is one row of Crash.tla's table.
type CrashCase struct {
	Kind    string   `json:"kind"`
	Mode    string   `json:"mode"`
	Old     bool     `json:"old"`
	Point   string   `json:"point"`
	Allowed []string `json:"allowed"`
	Acked   []string `json:"acked"`
	Known   bool     `json:"known"`
}

// CrashRun is one kill image that was restarted and read.
type CrashRun struct {
	Case    CrashCase `json:"case"`
	Writer  string    `json:"writer"`  // upload | fetch
	Where   string    `json:"where"`   // the concrete place the image was taken
	Restart string    `json:"restart"` // storage mode after the restart
	Files   []string  `json:"files"`   // files of the key in the image
	Results []string  `json:"results"` // per read path
	Size    int       `json:"size"`
}

// fileTimes are the access and modification times of the files of a kill image, as they were in
// the directory the image was taken from (reading a file may change its access time, and the loader orders by it).
type fileTimes map[string][2]time.Time

// copyTree copies a cache directory. With times == nil the time stamps are read from src (before the
// files are read) and returned; otherwise the recorded ones are applied.
func copyTree(src, dst string, times fileTimes) (fileTimes, error) {
	out := fileTimes{}
	err := filepath.WalkDir(src, func(p string, d fs.DirEntry, err error) error {
		if err != nil {
			return err
		}
		rel, _ := filepath.Rel(src, p)
		to := filepath.Join(dst, rel)
		if d.IsDir() {
			return os.MkdirAll(to, 0o755)
		}
		var at, mt time.Time
		if times != nil {
			t, ok := times[rel]
			if !ok {
				return fmt.Errorf("no recorded time stamps for %s", rel)
			}
			at, mt = t[0], t[1]
		} else {
			var st syscall.Stat_t
			if err := syscall.Stat(p, &st); err != nil {
				if os.IsNotExist(err) {
					return nil
				}
				return err
			}
			at = time.Unix(int64(st.Atim.Sec), int64(st.Atim.Nsec))
			mt = time.Unix(int64(st.Mtim.Sec), int64(st.Mtim.Nsec))
		}
		b, err := os.ReadFile(p)
		if err != nil {
			if os.IsNotExist(err) {
				return nil
			}
			return err
		}
		if err := os.WriteFile(to, b, 0o644); err != nil {
			return err
		}
		out[rel] = [2]time.Time{at, mt}
		return os.Chtimes(to, at, mt)
	})
	return out, err
}

// gatedReader hands out data and calls at(k) before delivering the byte at offset k for the
// offsets in stops (k = len(data) is "everything delivered, end of stream not yet signalled").
type gatedReader struct {
	data  []byte
	pos   int
	stops map[int]bool
	at    func(k int)
}

func (g *gatedReader) Read(p []byte) (int, error) {
	if g.stops[g.pos] {
		delete(g.stops, g.pos)
		g.at(g.pos)
	}
	if g.pos >= len(g.data) {
		return 0, io.EOF
	}
	n := len(p)
	for s := range g.stops {
		if s > g.pos && s-g.pos < n {
			n = s - g.pos
		}
	}
	if n > len(g.data)-g.pos {
		n = len(g.data) - g.pos
	}
	copy(p, g.data[g.pos:g.pos+n])
	g.pos += n
	return n, nil
}

// the concrete places at which images are taken, and the step of the specification each one follows
type crashWhere struct {
	name  string // harness name
	point string // Crash.tla point (the last step the writer completed)
}

var uploadWheres = []crashWhere{
	{"before the upload", "start"},
	{"gate put.created (file created, nothing written)", "create"},
	{"writer waiting for the first byte", "create"},
	{"writer waiting after 1 byte", "write"},
	{"writer waiting in the middle", "write"},
	{"writer waiting after all but the last byte", "write"},
	{"writer waiting after the last byte, end of stream not yet seen", "write2"},
	{"gate put.written (file closed)", "close"},
	{"gate put.committed (indexed, not acknowledged)", "index"},
	{"upload acknowledged, remover not yet idle", "ack"},
	{"upload acknowledged, remover idle", "unlink"},
}

var fetchWheres = []crashWhere{
	{"gate get.created (file created, nothing written)", "create"},
	{"backend stream waiting for the first byte", "create"},
	{"backend stream waiting in the middle", "write"},
	{"backend stream waiting at a chunk boundary of the stored file", "write"},
	{"backend stream waiting after the last byte", "write2"},
	{"gate get.fetched (file closed)", "close"},
	{"gate get.precommit", "close"},
	{"read answered", "ack"},
}

type blockingProxy struct {
	*drv.FakeProxy
	wrap func(io.ReadCloser) io.ReadCloser
}

func (b *blockingProxy) Get(ctx context.Context, kind cache.EntryKind, hash string, size int64) (io.ReadCloser, int64, error) {
	rc, n, err := b.FakeProxy.Get(ctx, kind, hash, size)
	if rc != nil && b.wrap != nil {
		rc = b.wrap(rc)
	}
	return rc, n, err
}

type rcWrap struct {
	io.Reader
	c io.Closer
}

func (r rcWrap) Close() error { return r.c.Close() }

// RunCrash takes kill images of the real cache at every place of the table and restarts on them.
func RunCrash(cases []CrashCase, seed int64, tier string) (runs []CrashRun, viols []drv.Violation, err error) {
	rng := rand.New(rand.NewSource(seed))
	find := func(kind, mode string, old bool, point string) *CrashCase {
		for i := range cases {
			c := &cases[i]
			if c.Kind == kind && c.Mode == mode && c.Old == old && c.Point == point {
				return c
			}
		}
		return nil
	}
	scratch, err := os.MkdirTemp("", "vh-crash")
	if err != nil {
		return nil, nil, err
	}
	defer os.RemoveAll(scratch)
	seq := 0
	for _, mode := range []string{"zstd", "uncompressed"} {
		for _, kind := range []string{"cas", "ac", "raw"} {
			for _, writer := range []string{"upload", "fetch"} {
				for _, old := range []bool{false, true} {
					if writer == "fetch" && (old || kind == "raw") {
						continue // a fetch happens on a local miss only; raw entries are fetched like ac entries
					}
					wheres := uploadWheres
					if writer == "fetch" {
						wheres = fetchWheres
					}
					for wi, wh := range wheres {
						if wh.point == "start" && !old {
							continue
						}
						skind := kind
						if kind == "raw" {
							skind = "ac"
						}
						cs := find(skind, mode, old, wh.point)
						if cs == nil {
							return runs, viols, fmt.Errorf("table lacks %s/%s/%v/%s", skind, mode, old, wh.point)
						}
						seq++
						rr, vv, e := crashOne(scratch, seq, rng, *cs, kind, writer, wh, wi, tier)
						if e != nil {
							return runs, viols, fmt.Errorf("%s %s %s old=%v at %q: %w", writer, mode, kind, old, wh.name, e)
						}
						runs = append(runs, rr...)
						viols = append(viols, vv...)
					}
				}
			}
		}
	}
	// eviction: images between the unlinks of the remover
	rr, vv, e := crashEvictions(scratch, rng, tier)
	if e != nil {
		return runs, viols, fmt.Errorf("eviction images: %w", e)
	}
	runs = append(runs, rr...)
	viols = append(viols, vv...)
	return runs, viols, nil
}

type crashEntry struct {
	kind cache.EntryKind
	hash string
	data []byte
}

func mkEntry(rng *rand.Rand, kind string, n int, tag string) crashEntry {
	switch kind {
	case "cas":
		d := drv.GenData(rng, n, rng.Intn(3))
		return crashEntry{cache.CAS, fmtw.Sha(d), d}
	case "ac":
		ar := &pb.ActionResult{ExitCode: int32(rng.Intn(50)), ExecutionMetadata: &pb.ExecutedActionMetadata{Worker: fmt.Sprintf("%s-%d-%s", tag, rng.Int63(), string(bytes.Repeat([]byte("x"), n)))}}
		b, _ := proto.Marshal(ar)
		return crashEntry{cache.AC, fmtw.Sha([]byte(fmt.Sprint("ackey", rng.Int63()))), b}
	default:
		d := drv.GenData(rng, n, 0)
		return crashEntry{cache.RAW, fmtw.Sha([]byte(fmt.Sprint("rawkey", rng.Int63()))), d}
	}
}

// readFirst names the read path that gets to see the entry first.  The first read that finds a file unusable
// drops the entry, after which every other path answers miss: each path must have its turn at being first.
var readFirst string

// readPathsOf lists the read paths of readEntry for a kind.
func readPathsOf(kind cache.EntryKind) []string {
	switch kind {
	case cache.CAS:
		return []string{"disk.Get(size unknown)", "disk.GetZstd(size known)", "disk.GetZstd(size unknown)", "disk.Get(size known)", "ByteStream.Read", "HTTP GET"}
	case cache.AC:
		return []string{"disk.Get(size unknown)", "GetActionResult", "HTTP GET /ac/"}
	}
	return []string{"disk.Get(size unknown)", "HTTP GET /ac/"}
}

func readEntry(f *fe.Fixture, kind cache.EntryKind, hash string, n int, cands ...[]byte) map[string][]byte {
	if readFirst == "" {
		return readEntryOnly(f, kind, hash, n, "", cands...)
	}
	first := readEntryOnly(f, kind, hash, n, readFirst, cands...)
	out := readEntryOnly(f, kind, hash, n, "", cands...)
	if v, ok := first[readFirst]; ok {
		out[readFirst] = v
	}
	return out
}

func readEntryOnly(f *fe.Fixture, kind cache.EntryKind, hash string, n int, only string, cands ...[]byte) map[string][]byte {
	// returns per path: nil = miss, otherwise the bytes (an error is reported as the single byte slice {0xEE} + message)
	out := map[string][]byte{}
	ctx := context.Background()
	want := func(name string) bool { return only == "" || only == name }
	get := func(name string, size int64) {
		if !want(name) {
			return
		}
		rc, _, err := f.Cache.Get(ctx, kind, hash, size, 0)
		if err != nil {
			out[name] = append([]byte{0xEE}, []byte(err.Error())...)
			return
		}
		if rc == nil {
			out[name] = nil
			return
		}
		b, err := io.ReadAll(rc)
		rc.Close()
		if err != nil {
			b = append([]byte{0xEE}, []byte(err.Error())...)
		}
		if b == nil {
			b = []byte{}
		}
		out[name] = b
	}
	get("disk.Get(size unknown)", -1)
	if kind == cache.AC && want("GetActionResult") {
		cctx, cancel := fe.Ctx()
		ar, err := f.AC.GetActionResult(cctx, &pb.GetActionResultRequest{ActionDigest: &pb.Digest{Hash: hash, SizeBytes: 9}})
		cancel()
		switch {
		case status.Code(err) == codes.NotFound:
			out["GetActionResult"] = nil
		case err != nil:
			out["GetActionResult"] = append([]byte{0xEE}, []byte(err.Error())...)
		default:
			b, _ := proto.Marshal(ar)
			if b == nil {
				b = []byte{}
			}
			for _, c := range cands {
				m := &pb.ActionResult{}
				if proto.Unmarshal(c, m) == nil && proto.Equal(m, ar) {
					b = c
				}
			}
			out["GetActionResult"] = b
		}
	}
	if kind != cache.CAS && want("HTTP GET /ac/") {
		c, body, _, e := f.HTTPDo(http.MethodGet, "/ac/"+hash, nil, nil)
		switch {
		case e != nil:
			out["HTTP GET /ac/"] = append([]byte{0xEE}, []byte(e.Error())...)
		case c == 404:
			out["HTTP GET /ac/"] = nil
		case c != 200:
			out["HTTP GET /ac/"] = append([]byte{0xEE}, []byte(fmt.Sprint("status ", c))...)
		default:
			if body == nil {
				body = []byte{}
			}
			for _, cd := range cands {
				m, m2 := &pb.ActionResult{}, &pb.ActionResult{}
				if kind == cache.AC && proto.Unmarshal(cd, m) == nil && proto.Unmarshal(body, m2) == nil && proto.Equal(m, m2) {
					body = cd
				}
			}
			out["HTTP GET /ac/"] = body
		}
	}
	if kind == cache.CAS {
		for _, known := range []int64{int64(n), -1} {
			name := fmt.Sprintf("disk.GetZstd(size %d)", known)
			if known == -1 {
				name = "disk.GetZstd(size unknown)"
			} else {
				name = "disk.GetZstd(size known)"
			}
			if !want(name) {
				continue
			}
			rc, _, err := f.Cache.GetZstd(ctx, hash, known, 0)
			switch {
			case err != nil:
				out[name] = append([]byte{0xEE}, []byte(err.Error())...)
			case rc == nil:
				out[name] = nil
			default:
				raw, err := io.ReadAll(rc)
				rc.Close()
				var b []byte
				if err == nil {
					b, err = fmtw.DecodeZstdStream(raw)
				}
				if err != nil {
					b = append([]byte{0xEE}, []byte(err.Error())...)
				}
				if b == nil {
					b = []byte{}
				}
				out[name] = b
			}
		}
		get("disk.Get(size known)", int64(n))
		if want("ByteStream.Read") {
			b, err := bsRead(f, fmt.Sprintf("blobs/%s/%d", hash, n), 0, 0)
			switch {
			case status.Code(err) == codes.NotFound:
				out["ByteStream.Read"] = nil
			case err != nil:
				out["ByteStream.Read"] = append([]byte{0xEE}, []byte(err.Error())...)
			default:
				if b == nil {
					b = []byte{}
				}
				out["ByteStream.Read"] = b
			}
		}
		if !want("HTTP GET") {
			return out
		}
		c, body, _, e := f.HTTPDo(http.MethodGet, "/cas/"+hash, nil, nil)
		switch {
		case e != nil:
			out["HTTP GET"] = append([]byte{0xEE}, []byte(e.Error())...)
		case c == 404:
			out["HTTP GET"] = nil
		case c != 200:
			out["HTTP GET"] = append([]byte{0xEE}, []byte(fmt.Sprint("status ", c))...)
		default:
			if body == nil {
				body = []byte{}
			}
			out["HTTP GET"] = body
		}
	}
	return out
}

func crashOne(scratch string, seq int, rng *rand.Rand, cs CrashCase, kind, writer string, wh crashWhere, wi int, tier string) (runs []CrashRun, viols []drv.Violation, err error) {
	mode := cs.Mode
	dirA := filepath.Join(scratch, fmt.Sprintf("a%d", seq))
	img := filepath.Join(scratch, fmt.Sprintf("img%d", seq))
	defer os.RemoveAll(dirA)
	defer os.RemoveAll(img)
	fp := &blockingProxy{FakeProxy: drv.NewFakeProxy()}
	opts := fe.Opts{Dir: dirA, Mode: mode, MaxSize: 1 << 30, NoValidateAC: kind == "raw", NoDepsCheck: true}
	if writer == "fetch" {
		opts.Proxy = fp
	}
	if err := os.MkdirAll(dirA, 0o755); err != nil {
		return nil, nil, err
	}
	fA, err := fe.New(opts)
	if err != nil {
		return nil, nil, err
	}
	ctx := context.Background()
	// bystanders: acknowledged entries of other keys
	by := []crashEntry{mkEntry(rng, "cas", 5000+rng.Intn(100), "by"), mkEntry(rng, "ac", 40, "by")}
	for _, e := range by {
		if err := fA.Cache.Put(ctx, e.kind, e.hash, int64(len(e.data)), bytes.NewReader(e.data)); err != nil {
			fA.Close()
			return nil, nil, err
		}
	}
	// ... among them values of no bytes at all (an empty ActionResult, an empty raw value): their complete
	// file is an empty file
	zero := []crashEntry{{cache.AC, fmtw.Sha([]byte(fmt.Sprint("zero-ac", rng.Int63()))), []byte{}},
		{cache.RAW, fmtw.Sha([]byte(fmt.Sprint("zero-raw", rng.Int63()))), []byte{}}}
	for _, e := range zero {
		if err := fA.Cache.Put(ctx, e.kind, e.hash, 0, bytes.NewReader(nil)); err != nil {
			fA.Close()
			return nil, nil, err
		}
	}
	// the key under test
	n := []int{2<<20 + 4097, 1<<20 + 1, 70000, 3 << 20}[rng.Intn(4)]
	if strings.Contains(wh.name, "chunk boundary") {
		n = []int{2<<20 + 4097, 3 << 20}[rng.Intn(2)] // a stored file of several chunks: there is a boundary to stop at
	}
	if kind != "cas" {
		n = 300 + rng.Intn(3000)
	}
	oldE := mkEntry(rng, kind, n, "old")
	newE := oldE
	if kind != "cas" {
		newE = mkEntry(rng, kind, n+17, "new")
		newE.hash = oldE.hash
	}
	if cs.Old {
		if err := fA.Cache.Put(ctx, oldE.kind, oldE.hash, int64(len(oldE.data)), bytes.NewReader(oldE.data)); err != nil {
			fA.Close()
			return nil, nil, err
		}
		time.Sleep(15 * time.Millisecond) // the new file is created after the old one was last used
	}
	// take the image at the chosen place
	var once sync.Once
	var imgErr error
	var imgTimes fileTimes
	took := false
	snap := func() {
		once.Do(func() {
			imgTimes, imgErr = copyTree(dirA, img, nil)
			took = true
		})
	}
	lru := disk.VerifLruID(fA.Cache)
	gateName := ""
	switch wh.name {
	case "gate put.created (file created, nothing written)":
		gateName = "put.created"
	case "gate put.written (file closed)":
		gateName = "put.written"
	case "gate put.committed (indexed, not acknowledged)":
		gateName = "put.committed"
	case "gate get.created (file created, nothing written)":
		gateName = "get.created"
	case "gate get.fetched (file closed)":
		gateName = "get.fetched"
	case "gate get.precommit":
		gateName = "get.precommit"
	}
	if gateName != "" {
		disk.VerifSetGate(func(id uint64, g int64, point string) {
			if id == lru && point == gateName {
				snap()
			}
		})
	}
	defer disk.VerifSetGate(nil)
	stops := map[int]bool{}
	total := len(newE.data)
	onDisk := newE.data
	if writer == "fetch" {
		onDisk = onBackend(newE.data, newE.kind, mode)
		total = len(onDisk)
	}
	switch wh.name {
	case "writer waiting for the first byte", "backend stream waiting for the first byte":
		stops[0] = true
	case "writer waiting after 1 byte":
		stops[1] = true
	case "writer waiting in the middle", "backend stream waiting in the middle":
		k := total / 2
		if total > 1<<20+10 {
			k = 1<<20 + 10 // at least one whole chunk has been consumed
		}
		stops[k] = true
	case "backend stream waiting at a chunk boundary of the stored file":
		k := total / 2
		if h, e := fmtw.ParseHeader(onDisk); e == nil && newE.kind == cache.CAS && mode == "zstd" && len(h.Offsets) > 2 {
			k = int(h.Offsets[1+rng.Intn(len(h.Offsets)-2)])
		}
		stops[k] = true
	case "writer waiting after all but the last byte":
		stops[total-1] = true
	case "writer waiting after the last byte, end of stream not yet seen", "backend stream waiting after the last byte":
		stops[total] = true
	}
	var werr error
	switch {
	case wh.name == "before the upload":
		snap()
	case writer == "upload":
		gr := &gatedReader{data: newE.data, stops: stops, at: func(int) { snap() }}
		werr = fA.Cache.Put(ctx, newE.kind, newE.hash, int64(len(newE.data)), gr)
	default:
		fp.SetObj(cache.LookupKey(newE.kind, newE.hash), onDisk, int64(len(newE.data)))
		fp.wrap = func(rc io.ReadCloser) io.ReadCloser {
			return rcWrap{&gatedReader{data: onDisk, stops: stops, at: func(int) { snap() }}, rc}
		}
		size := int64(len(newE.data))
		if newE.kind != cache.CAS {
			size = -1
		}
		rc, _, e := fA.Cache.Get(ctx, newE.kind, newE.hash, size, 0)
		werr = e
		if rc != nil {
			_, _ = io.Copy(io.Discard, rc)
			rc.Close()
		} else if e == nil {
			werr = fmt.Errorf("fetch answered miss")
		}
	}
	if werr != nil {
		fA.Close()
		return nil, nil, fmt.Errorf("the writer itself failed: %w", werr)
	}
	switch wh.name {
	case "upload acknowledged, remover not yet idle", "read answered":
		snap()
	case "upload acknowledged, remover idle":
		rec.WaitIdle(fA.Cache, 5*time.Second)
		snap()
	}
	fA.Close()
	if !took {
		return nil, nil, fmt.Errorf("the place %q was never reached", wh.name)
	}
	if imgErr != nil {
		return nil, nil, imgErr
	}
	// restart on the image
	type restartPlan struct{ mode, first string }
	restarts := []restartPlan{{mode, ""}}
	other := map[string]string{"zstd": "uncompressed", "uncompressed": "zstd"}[mode]
	if tier == "thorough" || wi%3 == 0 {
		restarts = append(restarts, restartPlan{other, ""})
	}
	// every read path gets its turn at being the first to see the entry after the restart
	// (quick: one of them per image, in rotation; thorough: all of them)
	paths := readPathsOf(newE.kind)[1:]
	if tier == "thorough" {
		for _, p := range paths {
			restarts = append(restarts, restartPlan{mode, p})
		}
		restarts = append(restarts, restartPlan{other, paths[seq%len(paths)]})
	} else {
		restarts = append(restarts, restartPlan{mode, paths[seq%len(paths)]})
	}
	defer func() { readFirst = "" }()
	for ri, rp := range restarts {
		rmode := rp.mode
		readFirst = rp.first
		dirB := filepath.Join(scratch, fmt.Sprintf("b%d-%d", seq, ri))
		if _, err := copyTree(img, dirB, imgTimes); err != nil {
			return runs, viols, err
		}
		run := CrashRun{Case: cs, Writer: writer, Where: wh.name, Restart: rmode, Size: len(newE.data)}
		ents, _ := rec.ListDir(dirB)
		for _, en := range ents {
			if bytes.Contains([]byte(en.Path), []byte(newE.hash)) {
				run.Files = append(run.Files, fmt.Sprintf("%s (%d bytes)", en.Path, en.Size))
			}
		}
		desc := fmt.Sprintf("%s of a %s %s entry of %d bytes (earlier version acknowledged: %v), killed at: %s; restarted in %s mode", writer, mode, kind, len(newE.data), cs.Old, wh.name, rmode)
		note := ""
		if rp.first != "" {
			note = " [first read after the restart: " + rp.first + "]"
		}
		bad := func(f string, a ...any) {
			viols = append(viols, drv.Violation{Prop: "C08", What: desc + ": " + fmt.Sprintf(f, a...) + note, Hist: seq})
		}
		fB, e := fe.New(fe.Opts{Dir: dirB, Mode: rmode, MaxSize: 1 << 30, NoValidateAC: kind == "raw", NoDepsCheck: true})
		if e != nil {
			bad("the server does not start on the directory: %v", e)
			os.RemoveAll(dirB)
			runs = append(runs, run)
			continue
		}
		res := readEntry(fB, newE.kind, newE.hash, len(newE.data), newE.data, oldE.data)
		if cs.Old && len(oldE.data) != len(newE.data) {
			// reads that know the old version's size
			for k, v := range readEntry(fB, oldE.kind, oldE.hash, len(oldE.data), newE.data, oldE.data) {
				res[k+" [old size]"] = v
			}
		}
		for path, got := range res {
			var cls string
			switch {
			case got == nil:
				cls = "miss"
			case len(got) > 0 && got[0] == 0xEE && !bytes.Equal(got, oldE.data) && !bytes.Equal(got, newE.data):
				cls = "error"
			case bytes.Equal(got, newE.data):
				cls = "new"
			case cs.Old && bytes.Equal(got, oldE.data):
				cls = "old"
			default:
				cls = "torn"
			}
			run.Results = append(run.Results, path+"="+cls)
			sizeMatters := newE.kind == cache.CAS && (path == "disk.Get(size known)" || path == "ByteStream.Read")
			_ = sizeMatters
			switch cls {
			case "torn":
				bad("%s returns %d bytes that are neither the acknowledged nor the interrupted version (files of the key: %v)", path, len(got), run.Files)
			case "error":
				if len(cs.Acked) > 0 {
					bad("%s fails (%s) although an upload of the key was acknowledged before the kill (files of the key: %v)", path, string(got[1:]), run.Files)
				}
			case "miss":
				if len(cs.Acked) > 0 {
					bad("%s answers miss although an upload of the key was acknowledged before the kill (files of the key: %v)", path, run.Files)
				}
			case "old":
				if has(cs.Acked, "new") {
					bad("%s serves the earlier version although the later upload was acknowledged before the kill", path)
				}
			}
		}
		for _, e := range zero {
			for _, sz := range []int64{-1, 0} {
				if ok, n := fB.Cache.Contains(ctx, e.kind, e.hash, sz); !ok || n != 0 {
					bad("an acknowledged empty %s value of another key is gone after the restart: Contains(size %d) answers %v, %d", e.kind, sz, ok, n)
				}
				rc, _, ge := fB.Cache.Get(ctx, e.kind, e.hash, sz, 0)
				if ge != nil || rc == nil {
					bad("an acknowledged empty %s value of another key is gone after the restart: Get(size %d) answers found=%v, %v", e.kind, sz, rc != nil, ge)
					continue
				}
				b, re := io.ReadAll(rc)
				rc.Close()
				if re != nil || len(b) != 0 {
					bad("an acknowledged empty %s value of another key is served as %d bytes (%v)", e.kind, len(b), re)
				}
			}
		}
		for _, e := range by {
			for path, got := range readEntry(fB, e.kind, e.hash, len(e.data), e.data) {
				if kind == "raw" && e.kind == cache.AC && path == "HTTP GET /ac/" {
					continue // without validation HTTP reads the raw key space
				}
				if !bytes.Equal(got, e.data) {
					bad("an acknowledged entry of another key is not served identically through %s", path)
				}
			}
		}
		// accounting and directory invariants on the restarted instance
		rec.WaitIdle(fB.Cache, 5*time.Second)
		s, dl, e := rec.Snapshot(fB.Cache, true, true)
		if e == nil {
			for _, v := range drv.CheckQuiescent(fB.Cache, s, dl, seq, 0) {
				bad("after the restart: %s", v.What)
			}
		}
		// the interrupted upload can simply be repeated
		if e := fB.Cache.Put(ctx, newE.kind, newE.hash, int64(len(newE.data)), bytes.NewReader(newE.data)); e != nil {
			bad("repeating the upload after the restart fails: %v", e)
		} else {
			for path, got := range readEntry(fB, newE.kind, newE.hash, len(newE.data), newE.data) {
				if !bytes.Equal(got, newE.data) {
					bad("after repeating the upload, %s does not return it", path)
				}
			}
		}
		fB.Close()
		os.RemoveAll(dirB)
		runs = append(runs, run)
	}
	return runs, viols, nil
}

// crashEvictions: a small cache, an upload that forces several evictions, images between the unlinks.
func crashEvictions(scratch string, rng *rand.Rand, tier string) (runs []CrashRun, viols []drv.Violation, err error) {
	for _, mode := range []string{"zstd", "uncompressed"} {
		dirA := filepath.Join(scratch, "ev-"+mode)
		if err := os.MkdirAll(dirA, 0o755); err != nil {
			return nil, nil, err
		}
		fA, err := fe.New(fe.Opts{Dir: dirA, Mode: mode, MaxSize: 6 << 20})
		if err != nil {
			return nil, nil, err
		}
		ctx := context.Background()
		var ents []crashEntry
		for i := 0; i < 5; i++ {
			e := mkEntry(rng, "cas", 1<<20-8192, "e")
			e.data = drv.GenData(rng, 1<<20-8192, 0) // incompressible: sizes on disk are predictable
			e.hash = fmtw.Sha(e.data)
			if err := fA.Cache.Put(ctx, e.kind, e.hash, int64(len(e.data)), bytes.NewReader(e.data)); err != nil {
				fA.Close()
				return nil, nil, err
			}
			ents = append(ents, e)
			time.Sleep(5 * time.Millisecond)
		}
		lru := disk.VerifLruID(fA.Cache)
		var mu sync.Mutex
		var imgs []string
		imgT := map[string]fileTimes{}
		disk.VerifSetGate(func(id uint64, g int64, point string) {
			if id == lru && point == "evict" {
				mu.Lock()
				p := filepath.Join(scratch, fmt.Sprintf("evimg-%s-%d", mode, len(imgs)))
				if t, e := copyTree(dirA, p, nil); e == nil {
					imgs = append(imgs, p)
					imgT[p] = t
				}
				mu.Unlock()
			}
		})
		big := drv.GenData(rng, 3<<20, 0)
		bigE := crashEntry{cache.CAS, fmtw.Sha(big), big}
		perr := fA.Cache.Put(ctx, bigE.kind, bigE.hash, int64(len(big)), bytes.NewReader(big))
		rec.WaitIdle(fA.Cache, 5*time.Second)
		disk.VerifSetGate(nil)
		fA.Close()
		os.RemoveAll(dirA)
		if perr != nil {
			return runs, viols, perr
		}
		mu.Lock()
		list := append([]string{}, imgs...)
		mu.Unlock()
		if len(list) == 0 {
			return runs, viols, fmt.Errorf("no eviction gate was passed")
		}
		for ii, img := range list {
			desc := fmt.Sprintf("upload into a full %s cache, killed between removals (image %d of %d)", mode, ii+1, len(list))
			bad := func(f string, a ...any) {
				viols = append(viols, drv.Violation{Prop: "C08", What: desc + ": " + fmt.Sprintf(f, a...)})
			}
			run := CrashRun{Case: CrashCase{Kind: "cas", Mode: mode, Point: "evict"}, Writer: "upload", Where: fmt.Sprintf("gate evict #%d", ii+1), Restart: mode}
			fB, e := fe.New(fe.Opts{Dir: img, Mode: mode, MaxSize: 6 << 20})
			if e != nil {
				bad("the server does not start on the directory: %v", e)
				os.RemoveAll(img)
				runs = append(runs, run)
				continue
			}
			for ei, en := range append(ents, bigE) {
				who := fmt.Sprintf("acknowledged blob #%d", ei+1)
				if ei == len(ents) {
					who = "the upload in flight at the kill"
				}
				for path, got := range readEntry(fB, en.kind, en.hash, len(en.data)) {
					switch {
					case got == nil:
						run.Results = append(run.Results, "miss")
					case bytes.Equal(got, en.data):
						run.Results = append(run.Results, "hit")
					case len(got) > 0 && got[0] == 0xEE:
						run.Results = append(run.Results, "error")
					default:
						bad("%s: %s returns %d bytes that are not the blob", who, path, len(got))
					}
				}
			}
			rec.WaitIdle(fB.Cache, 5*time.Second)
			s, dl, e := rec.Snapshot(fB.Cache, true, true)
			if e == nil {
				for _, v := range drv.CheckQuiescent(fB.Cache, s, dl, 0, 0) {
					bad("after the restart: %s", v.What)
				}
			}
			fB.Close()
			os.RemoveAll(img)
			runs = append(runs, run)
		}
	}
	return runs, viols, nil
}
