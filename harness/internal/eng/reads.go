package eng

import (
	"bytes"
	"context"
	"fmt"
	"io"
	"math/rand"
	"net/http"
	"os"
	"strconv"

	"github.com/buchgr/bazel-remote/v2/cache"
	pb "github.com/buchgr/bazel-remote/v2/genproto/build/bazel/remote/execution/v2"
	"github.com/klauspost/compress/zstd"
	"google.golang.org/genproto/googleapis/bytestream"
	"google.golang.org/grpc/codes"
	"google.golang.org/grpc/status"
	"google.golang.org/protobuf/proto"

	"verif/harness/internal/drv"
	"verif/harness/internal/fe"
	"verif/harness/internal/fmtw"
)

// ReadPlan is one row of CasBlob.tla's table.
type ReadPlan struct {
	N      int  `json:"n"`
	K      int  `json:"K"`
	Off    int  `json:"off"`
	Chunk  int  `json:"chunk"`
	Rem    int  `json:"rem"`
	Chunks int  `json:"chunks"`
	Last   bool `json:"last"`
	Len    int  `json:"len"`
}

// ReadRun describes one concretised plan.
type ReadRun struct {
	Plan       ReadPlan `json:"plan"`
	Writer     string   `json:"writer"` // real | independent
	ChunkSize  int      `json:"chunk_size"`
	Size       int      `json:"size"`
	Offset     int      `json:"offset"`
	WriterMode string   `json:"writer_mode"`
	ReaderMode string   `json:"reader_mode"`
	Impl       string   `json:"impl"`
	Paths      int      `json:"paths"`
}

type readBlob struct {
	data []byte
	hash string
}

func bsRead(f *fe.Fixture, res string, off, limit int64) ([]byte, error) {
	ctx, cancel := fe.Ctx()
	defer cancel()
	st, err := f.BS.Read(ctx, &bytestream.ReadRequest{ResourceName: res, ReadOffset: off, ReadLimit: limit})
	if err != nil {
		return nil, err
	}
	var out []byte
	for {
		m, e := st.Recv()
		if e == io.EOF {
			return out, nil
		}
		if e != nil {
			return out, e
		}
		out = append(out, m.Data...)
	}
}

// checkReads reads blob b at offset off through every path and compares.
func checkReads(f *fe.Fixture, b readBlob, off int, rng *rand.Rand, bad func(string, ...any)) int {
	n := len(b.data)
	want := b.data[off:]
	paths := 0
	ctx := context.Background()
	cmpBytes := func(path string, got []byte, err error) {
		paths++
		if err != nil {
			bad("%s at offset %d of %d: failed: %v", path, off, n, err)
			return
		}
		if !bytes.Equal(got, want) {
			p := 0
			for p < len(got) && p < len(want) && got[p] == want[p] {
				p++
			}
			bad("%s at offset %d of %d: delivered %d bytes, expected %d (common prefix %d)", path, off, n, len(got), len(want), p)
		}
	}
	for _, known := range []int64{int64(n), -1} {
		rc, sz, err := f.Cache.Get(ctx, cache.CAS, b.hash, known, int64(off))
		if err == nil && rc == nil {
			err = fmt.Errorf("miss")
		}
		var got []byte
		if err == nil {
			got, err = io.ReadAll(rc)
			rc.Close()
			if sz != int64(n) {
				bad("disk.Get(size=%d) at offset %d reports size %d, expected %d", known, off, sz, n)
			}
		}
		cmpBytes(fmt.Sprintf("disk.Get(size=%d)", known), got, err)
		rc, sz, err = f.Cache.GetZstd(ctx, b.hash, known, int64(off))
		if err == nil && rc == nil {
			err = fmt.Errorf("miss")
		}
		got = nil
		if err == nil {
			var raw []byte
			raw, err = io.ReadAll(rc)
			rc.Close()
			if err == nil {
				got, err = fmtw.DecodeZstdStream(raw)
			}
			if sz != int64(n) {
				bad("disk.GetZstd(size=%d) at offset %d reports size %d, expected %d", known, off, sz, n)
			}
		}
		cmpBytes(fmt.Sprintf("disk.GetZstd(size=%d)", known), got, err)
	}
	inst := []string{"", "i/", "some/instance/"}[rng.Intn(3)]
	got, err := bsRead(f, fmt.Sprintf("%sblobs/%s/%d", inst, b.hash, n), int64(off), 0)
	cmpBytes("ByteStream.Read blobs/", got, err)
	raw, err := bsRead(f, fmt.Sprintf("%scompressed-blobs/zstd/%s/%d", inst, b.hash, n), int64(off), 0)
	if err == nil {
		got, err = fmtw.DecodeZstdStream(raw)
	}
	cmpBytes("ByteStream.Read compressed-blobs/zstd/", got, err)
	// read_limit: exactly the rest, more than the rest, less than the rest
	rest := int64(n - off)
	for _, lim := range []int64{rest, rest + 7, rest - 1, 1} {
		if lim <= 0 {
			continue
		}
		got, err := bsRead(f, fmt.Sprintf("blobs/%s/%d", b.hash, n), int64(off), lim)
		paths++
		if int64(len(got)) > lim {
			bad("ByteStream.Read with read_limit %d at offset %d delivered %d bytes", lim, off, len(got))
		}
		if !bytes.HasPrefix(want, got) {
			bad("ByteStream.Read with read_limit %d at offset %d delivered bytes that are not a prefix of the requested range", lim, off)
		}
		if lim >= rest && (err != nil || int64(len(got)) != rest) {
			bad("ByteStream.Read with read_limit %d >= remaining %d at offset %d: %d bytes, error %v", lim, rest, off, len(got), err)
		}
	}
	if off == 0 {
		c, body, hdr, e := f.HTTPDo(http.MethodGet, "/cas/"+b.hash, nil, nil)
		if e == nil && c != 200 {
			e = fmt.Errorf("status %d", c)
		}
		if e == nil && hdr.Get("Content-Length") != strconv.Itoa(n) {
			bad("HTTP GET reports Content-Length %q, expected %d", hdr.Get("Content-Length"), n)
		}
		cmpBytes("HTTP GET", body, e)
		c, body, hdr, e = f.HTTPDo(http.MethodGet, "/cas/"+b.hash, nil, map[string]string{"Accept-Encoding": "zstd"})
		if e == nil && c != 200 {
			e = fmt.Errorf("status %d", c)
		}
		if e == nil {
			if hdr.Get("Content-Encoding") != "zstd" {
				bad("HTTP GET with Accept-Encoding: zstd answered Content-Encoding %q", hdr.Get("Content-Encoding"))
			}
			body, e = fmtw.DecodeZstdStream(body)
		}
		cmpBytes("HTTP GET (zstd)", body, e)
		c, _, hdr, e = f.HTTPDo(http.MethodHead, "/cas/"+b.hash, nil, nil)
		if e == nil && (c != 200 || hdr.Get("Content-Length") != strconv.Itoa(n)) {
			bad("HTTP HEAD answered %d with Content-Length %q, expected 200 and %d", c, hdr.Get("Content-Length"), n)
		}
		for _, z := range []bool{false, true} {
			cctx, cancel := fe.Ctx()
			req := &pb.BatchReadBlobsRequest{Digests: []*pb.Digest{{Hash: b.hash, SizeBytes: int64(n)}}}
			if z {
				req.AcceptableCompressors = []pb.Compressor_Value{pb.Compressor_ZSTD}
			}
			r, e := f.CAS.BatchReadBlobs(cctx, req)
			cancel()
			var data []byte
			if e == nil {
				if len(r.Responses) != 1 || r.Responses[0].Status.GetCode() != 0 {
					e = fmt.Errorf("per-blob status %v", r.Responses)
				} else {
					data = r.Responses[0].Data
					if r.Responses[0].Compressor == pb.Compressor_ZSTD {
						data, e = fmtw.DecodeZstdStream(data)
					}
				}
			}
			cmpBytes(fmt.Sprintf("BatchReadBlobs(zstd=%v)", z), data, e)
		}
	}
	return paths
}

// RunReads concretises the plans: blobs written by the real writer (1 MiB
// chunks) and files produced by the independent writer with small chunk sizes.
func RunReads(plans []ReadPlan, seed int64, tier string) (runs []ReadRun, viols []drv.Violation, err error) {
	rng := rand.New(rand.NewSource(seed))
	type combo struct{ wmode, rmode, impl string }
	combos := []combo{{"zstd", "zstd", "go"}, {"zstd", "uncompressed", "go"}, {"uncompressed", "zstd", "go"}}
	if tier == "thorough" {
		combos = append(combos, combo{"zstd", "zstd", "cgo"}, combo{"uncompressed", "uncompressed", "go"}, combo{"uncompressed", "zstd", "cgo"})
	}
	maxRatio := 2 // quick: real-writer blobs up to 2 MiB + 1
	if tier == "thorough" {
		maxRatio = 8
	}
	for _, cb := range combos {
		dir, e := os.MkdirTemp("", "vh-reads")
		if e != nil {
			return runs, viols, e
		}
		// phase 1: write with the writer's mode
		fw, e := fe.New(fe.Opts{Dir: dir, Mode: cb.wmode, Impl: cb.impl, MaxSize: 1 << 30})
		if e != nil {
			return runs, viols, e
		}
		type job struct {
			plan   ReadPlan
			writer string
			K      int
			blob   readBlob
			off    int
		}
		var jobs []job
		seenSize := map[string]readBlob{}
		for pi, p := range plans {
			// real writer: chunk size 1 MiB
			// (and, scaled to 4 KiB, small blobs: single-chunk files, and what an uncompressed store keeps as plain files)
			for _, K := range []int{1 << 20, 4096} {
				if !(p.N <= maxRatio*p.K && (tier == "thorough" || (pi+int(seed)+K%5)%3 == 0)) {
					continue
				}
				for _, d := range []int{-1, 0, 1} {
					size := p.N*K/p.K + d
					off := p.Off * K / p.K
					for _, eps := range []int{-1, 0, 1} {
						o := off + eps
						if size < 1 || o < 0 || o >= size {
							continue
						}
						key := fmt.Sprintf("real/%d", size)
						b, ok := seenSize[key]
						if !ok {
							data := drv.GenData(rng, size, (pi+d+3)%3)
							b = readBlob{data: data, hash: fmtw.Sha(data)}
							if e := fw.Cache.Put(context.Background(), cache.CAS, b.hash, int64(size), bytes.NewReader(data)); e != nil {
								return runs, viols, e
							}
							seenSize[key] = b
						}
						jobs = append(jobs, job{p, "real", K, b, o})
					}
				}
			}
			// independent writer: small chunk sizes, only meaningful for compressed files
			for _, u := range []int{1366, 21846} {
				if tier != "thorough" && (pi+u+int(seed))%4 != 0 {
					continue
				}
				K := p.K * u
				size := p.N*u + []int{-1, 0, 1}[rng.Intn(3)]
				o := p.Off*u + []int{-1, 0, 1}[rng.Intn(3)]
				if size < 1 || o < 0 || o >= size {
					continue
				}
				data := drv.GenData(rng, size, rng.Intn(3))
				b := readBlob{data: data, hash: fmtw.Sha(data)}
				enc, e := fmtw.EncodeCAS(data, K, []zstd.EncoderLevel{zstd.SpeedFastest, zstd.SpeedDefault, zstd.SpeedBestCompression}[rng.Intn(3)])
				if e != nil {
					return runs, viols, e
				}
				suffix := fmt.Sprintf("%dIND", rng.Intn(1e8))
				if e := fmtw.WriteFile(dir, fmtw.RelName(fmtw.CAS, b.hash, int64(size), suffix), enc); e != nil {
					return runs, viols, e
				}
				jobs = append(jobs, job{p, "independent", K, b, o})
			}
		}
		tree, terr := buildTreeAndAction(fw, rng)
		if terr != nil {
			return runs, viols, terr
		}
		fw.Close()
		// phase 2: restart in the reader's mode (this also loads the independent files)
		fr, e := fe.New(fe.Opts{Dir: dir, Mode: cb.rmode, Impl: cb.impl, MaxSize: 1 << 30})
		if e != nil {
			viols = append(viols, drv.Violation{Prop: "C02", What: fmt.Sprintf("restart in %s mode on a directory written in %s mode (plus independently written v2 files) failed: %v", cb.rmode, cb.wmode, e)})
			os.RemoveAll(dir)
			continue
		}
		for ji, j := range jobs {
			j := j
			bad := func(f string, a ...any) {
				viols = append(viols, drv.Violation{Prop: "C02", What: fmt.Sprintf("blob of %d bytes (%s writer, chunk size %d, written in %s mode, read in %s mode, %s codec): ", len(j.blob.data), j.writer, j.K, cb.wmode, cb.rmode, cb.impl) + fmt.Sprintf(f, a...), Hist: ji})
			}
			n := checkReads(fr, j.blob, j.off, rng, bad)
			runs = append(runs, ReadRun{Plan: j.plan, Writer: j.writer, ChunkSize: j.K, Size: len(j.blob.data), Offset: j.off, WriterMode: cb.wmode, ReaderMode: cb.rmode, Impl: cb.impl, Paths: n})
		}
		// further read paths over blobs: GetTree (directories as decoded messages) and fields inlined into an ActionResult
		for _, v := range checkTreeAndInline(fr, tree, where(cb.wmode, cb.rmode, cb.impl)) {
			viols = append(viols, v)
		}
		runs = append(runs, ReadRun{Writer: "real", WriterMode: cb.wmode, ReaderMode: cb.rmode, Impl: cb.impl, Paths: tree.paths, Size: tree.bytes, Offset: 1, Plan: ReadPlan{Chunks: 2}})
		// offset == size: an error or an empty result, never bytes
		for _, b := range seenSize {
			got, e := bsRead(fr, fmt.Sprintf("blobs/%s/%d", b.hash, len(b.data)), int64(len(b.data)), 0)
			if e == nil && len(got) != 0 {
				viols = append(viols, drv.Violation{Prop: "C02", What: fmt.Sprintf("ByteStream.Read at offset == size %d delivered %d bytes", len(b.data), len(got))})
			}
			break
		}
		fr.Close()
		os.RemoveAll(dir)
	}
	// the empty blob is readable on every path, even from an empty cache
	fz, e := fe.New(fe.Opts{})
	if e != nil {
		return runs, viols, e
	}
	defer fz.Close()
	emptyBad := func(what string) {
		viols = append(viols, drv.Violation{Prop: "C02", What: "empty blob from an empty cache: " + what})
	}
	if c, body, _, e := fz.HTTPDo(http.MethodGet, "/cas/"+emptyHash, nil, nil); e != nil || c != 200 || len(body) != 0 {
		emptyBad(fmt.Sprintf("HTTP GET answered %d with %d bytes (%v)", c, len(body), e))
	}
	if c, body, _, e := fz.HTTPDo(http.MethodGet, "/cas/"+emptyHash, nil, map[string]string{"Accept-Encoding": "zstd"}); e != nil || c != 200 {
		emptyBad(fmt.Sprintf("HTTP GET (zstd) answered %d (%v)", c, e))
	} else if d, e := fmtw.DecodeZstdStream(body); e != nil || len(d) != 0 {
		emptyBad(fmt.Sprintf("HTTP GET (zstd) body decodes to %d bytes (%v)", len(d), e))
	}
	if c, _, _, e := fz.HTTPDo(http.MethodHead, "/cas/"+emptyHash, nil, nil); e != nil || c != 200 {
		emptyBad(fmt.Sprintf("HTTP HEAD answered %d (%v)", c, e))
	}
	if got, e := bsRead(fz, "blobs/"+emptyHash+"/0", 0, 0); e != nil || len(got) != 0 {
		emptyBad(fmt.Sprintf("ByteStream.Read blobs/ delivered %d bytes (%v)", len(got), e))
	}
	if raw, e := bsRead(fz, "compressed-blobs/zstd/"+emptyHash+"/0", 0, 0); e != nil {
		emptyBad(fmt.Sprintf("ByteStream.Read compressed-blobs/ failed: %v", e))
	} else if d, e := fmtw.DecodeZstdStream(raw); e != nil || len(d) != 0 {
		emptyBad(fmt.Sprintf("ByteStream.Read compressed-blobs/ decodes to %d bytes (%v)", len(d), e))
	}
	for _, z := range []bool{false, true} {
		ctx, cancel := fe.Ctx()
		req := &pb.BatchReadBlobsRequest{Digests: []*pb.Digest{{Hash: emptyHash, SizeBytes: 0}}}
		if z {
			req.AcceptableCompressors = []pb.Compressor_Value{pb.Compressor_ZSTD}
		}
		r, e := fz.CAS.BatchReadBlobs(ctx, req)
		cancel()
		if e != nil || len(r.Responses) != 1 || codes.Code(r.Responses[0].Status.GetCode()) != codes.OK {
			emptyBad(fmt.Sprintf("BatchReadBlobs(zstd=%v): %v %v", z, e, r))
		}
	}
	ctx, cancel := fe.Ctx()
	fm, e := fz.CAS.FindMissingBlobs(ctx, &pb.FindMissingBlobsRequest{BlobDigests: []*pb.Digest{{Hash: emptyHash, SizeBytes: 0}}})
	cancel()
	if e != nil || len(fm.MissingBlobDigests) != 0 {
		emptyBad(fmt.Sprintf("FindMissingBlobs reports it missing (%v)", e))
	}
	_ = status.Code
	return runs, viols, nil
}

type treeFixture struct {
	root   *pb.Digest
	dirs   []*pb.Directory // root first
	action string          // action digest hash
	stdout []byte
	stderr []byte
	files  map[string][]byte // output path -> contents
	paths  int
	bytes  int
}

func where(w, r, impl string) string {
	return fmt.Sprintf("written in %s mode, read in %s mode, %s codec", w, r, impl)
}

func putBlob(f *fe.Fixture, b []byte) (*pb.Digest, error) {
	h := fmtw.Sha(b)
	if err := f.Cache.Put(context.Background(), cache.CAS, h, int64(len(b)), bytes.NewReader(b)); err != nil {
		return nil, err
	}
	return &pb.Digest{Hash: h, SizeBytes: int64(len(b))}, nil
}

// buildTreeAndAction stores a directory tree (root, two children, one grandchild) and an action result
// whose stdout, stderr and output files are blobs of sizes around the chunk size.
func buildTreeAndAction(f *fe.Fixture, rng *rand.Rand) (*treeFixture, error) {
	t := &treeFixture{files: map[string][]byte{}}
	f1 := drv.GenData(rng, 100+rng.Intn(50), 1)
	f2 := drv.GenData(rng, 1<<20+1, rng.Intn(3))
	f3 := drv.GenData(rng, 1<<20-1, 0)
	var ds [3]*pb.Digest
	for i, b := range [][]byte{f1, f2, f3} {
		d, err := putBlob(f, b)
		if err != nil {
			return nil, err
		}
		ds[i] = d
	}
	putDir := func(d *pb.Directory) (*pb.Digest, error) {
		b, _ := proto.Marshal(d)
		return putBlob(f, b)
	}
	g := &pb.Directory{Files: []*pb.FileNode{{Name: "leaf.txt", Digest: ds[0]}}}
	gd, err := putDir(g)
	if err != nil {
		return nil, err
	}
	// a directory message larger than one chunk: many entries
	a := &pb.Directory{Files: []*pb.FileNode{{Name: "big.bin", Digest: ds[1]}}, Directories: []*pb.DirectoryNode{{Name: "g", Digest: gd}}}
	for i := 0; i < 12000; i++ {
		a.Files = append(a.Files, &pb.FileNode{Name: fmt.Sprintf("zz-file-%06d-%x", i, rng.Int63()), Digest: ds[0]})
	}
	ad, err := putDir(a)
	if err != nil {
		return nil, err
	}
	b := &pb.Directory{Files: []*pb.FileNode{{Name: "other.bin", Digest: ds[2], IsExecutable: true}}, Symlinks: []*pb.SymlinkNode{{Name: "l", Target: "other.bin"}}}
	bd, err := putDir(b)
	if err != nil {
		return nil, err
	}
	root := &pb.Directory{Files: []*pb.FileNode{{Name: "top.txt", Digest: ds[0]}}, Directories: []*pb.DirectoryNode{{Name: "a", Digest: ad}, {Name: "b", Digest: bd}}}
	rd, err := putDir(root)
	if err != nil {
		return nil, err
	}
	t.root, t.dirs = rd, []*pb.Directory{root, a, g, b}
	t.stdout, t.stderr = f2, f1
	t.files["out/small"], t.files["out/edge"] = f1, f3
	ar := &pb.ActionResult{StdoutDigest: ds[1], StderrDigest: ds[0], OutputFiles: []*pb.OutputFile{{Path: "out/small", Digest: ds[0]}, {Path: "out/edge", Digest: ds[2]}},
		ExecutionMetadata: &pb.ExecutedActionMetadata{Worker: "reads"}}
	t.action = fmtw.Sha([]byte(fmt.Sprintf("reads-action-%d", rng.Int63())))
	ctx, cancel := fe.Ctx()
	defer cancel()
	if _, err := f.AC.UpdateActionResult(ctx, &pb.UpdateActionResultRequest{ActionDigest: &pb.Digest{Hash: t.action, SizeBytes: 9}, ActionResult: ar}); err != nil {
		return nil, err
	}
	t.bytes = len(f1) + len(f2) + len(f3)
	return t, nil
}

func checkTreeAndInline(f *fe.Fixture, t *treeFixture, wh string) (viols []drv.Violation) {
	bad := func(fm string, a ...any) {
		viols = append(viols, drv.Violation{Prop: "C02", What: "(" + wh + ") " + fmt.Sprintf(fm, a...)})
	}
	// GetTree: exactly the directories of the tree, as decoded messages
	ctx, cancel := fe.Ctx()
	st, err := f.CAS.GetTree(ctx, &pb.GetTreeRequest{RootDigest: t.root})
	var got []*pb.Directory
	for err == nil {
		var r *pb.GetTreeResponse
		r, err = st.Recv()
		if err == nil {
			got = append(got, r.Directories...)
		}
	}
	cancel()
	t.paths++
	if err != io.EOF {
		bad("GetTree failed: %v", err)
	} else {
		if len(got) != len(t.dirs) {
			bad("GetTree delivered %d directories, the tree has %d", len(got), len(t.dirs))
		}
		for _, want := range t.dirs {
			found := false
			for _, g := range got {
				if proto.Equal(g, want) {
					found = true
				}
			}
			if !found {
				bad("GetTree does not deliver the directory with %d files / %d subdirectories unchanged", len(want.Files), len(want.Directories))
			}
		}
		if len(got) > 0 && !proto.Equal(got[0], t.dirs[0]) {
			bad("GetTree does not start with the root directory")
		}
	}
	// fields inlined into the returned ActionResult
	for _, sel := range []struct {
		out, errs bool
		files     []string
	}{{true, true, []string{"out/small", "out/edge"}}, {true, false, nil}, {false, true, []string{"out/edge"}}, {false, false, []string{"out/small"}}} {
		ctx, cancel := fe.Ctx()
		ar, err := f.AC.GetActionResult(ctx, &pb.GetActionResultRequest{ActionDigest: &pb.Digest{Hash: t.action, SizeBytes: 9},
			InlineStdout: sel.out, InlineStderr: sel.errs, InlineOutputFiles: sel.files})
		cancel()
		t.paths++
		if err != nil {
			bad("GetActionResult with inlining %v/%v/%v failed: %v", sel.out, sel.errs, sel.files, err)
			continue
		}
		if len(ar.StdoutRaw) > 0 && !bytes.Equal(ar.StdoutRaw, t.stdout) {
			bad("inlined stdout has %d bytes that are not the blob's %d bytes", len(ar.StdoutRaw), len(t.stdout))
		}
		if len(ar.StderrRaw) > 0 && !bytes.Equal(ar.StderrRaw, t.stderr) {
			bad("inlined stderr has %d bytes that are not the blob's %d bytes", len(ar.StderrRaw), len(t.stderr))
		}
		if !sel.out && len(ar.StdoutRaw) > 0 {
			bad("stdout was inlined although not requested")
		}
		if sel.errs && len(ar.StderrRaw) == 0 {
			bad("a %d byte stderr was requested inline and not inlined", len(t.stderr))
		}
		if ar.StdoutDigest.GetSizeBytes() != int64(len(t.stdout)) || ar.StderrDigest.GetSizeBytes() != int64(len(t.stderr)) {
			bad("digests of stdout / stderr report sizes %d / %d, the blobs have %d / %d bytes", ar.StdoutDigest.GetSizeBytes(), ar.StderrDigest.GetSizeBytes(), len(t.stdout), len(t.stderr))
		}
		for _, of := range ar.OutputFiles {
			want := t.files[of.Path]
			if len(of.Contents) > 0 && !bytes.Equal(of.Contents, want) {
				bad("inlined output file %s has %d bytes that are not the blob's %d bytes", of.Path, len(of.Contents), len(want))
			}
			if of.Digest.GetSizeBytes() != int64(len(want)) {
				bad("output file %s reports size %d, the blob has %d bytes", of.Path, of.Digest.GetSizeBytes(), len(want))
			}
			if has(sel.files, of.Path) && len(want) < 1000 && len(of.Contents) == 0 {
				bad("the small output file %s was requested inline and not inlined", of.Path)
			}
		}
	}
	return viols
}
