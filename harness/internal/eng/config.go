package eng

import (
	"fmt"
	"net"
	"os"
	"reflect"
	"sort"
	"strings"
	"time"

	"github.com/buchgr/bazel-remote/v2/config"
	"github.com/buchgr/bazel-remote/v2/utils/flags"
	"github.com/urfave/cli/v2"
	"gopkg.in/yaml.v3"

	"verif/harness/internal/drv"
)

// CfgSetting is one explicitly given setting of a configuration of Config.tla.
type CfgSetting struct {
	ID    string   `json:"id"`
	Flag  string   `json:"flag"`
	Env   string   `json:"env"`
	YPath []string `json:"ypath"`
	Kind  string   `json:"kind"`
	Value string   `json:"value"`
}

// CfgRow is a configuration with the verdict of the policy.
type CfgRow struct {
	Settings []CfgSetting `json:"settings"`
	Valid    bool         `json:"valid"`
}

// CfgTable is what Config.tla writes.
type CfgTable struct {
	Valid   []CfgRow `json:"valid"`
	Invalid []string `json:"invalid"`
	Singles []CfgRow `json:"singles"`
}

// CfgRun is one executed configuration.
type CfgRun struct {
	Row     CfgRow   `json:"row"`
	Class   string   `json:"invalid_class,omitempty"`
	Results []string `json:"results"` // flags / env / yaml: ok or the error
}

var base = []CfgSetting{
	{ID: "dir", Flag: "dir", Env: "BAZEL_REMOTE_DIR", YPath: []string{"dir"}, Kind: "string", Value: "/tmp/verif-cache-dir"},
	{ID: "max_size", Flag: "max_size", Env: "BAZEL_REMOTE_MAX_SIZE", YPath: []string{"max_size"}, Kind: "int", Value: "3"},
}

func st(id, flag, env string, ypath []string, kind, value string) CfgSetting {
	return CfgSetting{ID: id, Flag: flag, Env: env, YPath: ypath, Kind: kind, Value: value}
}

// invalidClass returns the settings to add / replace / drop for an invalid class.
func invalidClass(class string) (add []CfgSetting, drop []string, ok bool) {
	y := func(p ...string) []string { return p }
	switch class {
	case "missing_dir":
		return nil, []string{"dir"}, true
	case "missing_max_size":
		return nil, []string{"max_size"}, true
	case "zero_max_size":
		return []CfgSetting{st("max_size", "max_size", "BAZEL_REMOTE_MAX_SIZE", y("max_size"), "int", "0")}, []string{"max_size"}, true
	case "negative_max_size":
		return []CfgSetting{st("max_size", "max_size", "BAZEL_REMOTE_MAX_SIZE", y("max_size"), "int", "-4")}, []string{"max_size"}, true
	case "unknown_storage_mode":
		return []CfgSetting{st("storage_mode", "storage_mode", "BAZEL_REMOTE_STORAGE_MODE", y("storage_mode"), "string", "lz4")}, []string{"storage_mode"}, true
	case "unknown_zstd_implementation":
		return []CfgSetting{st("zstd_implementation", "zstd_implementation", "BAZEL_REMOTE_ZSTD_IMPLEMENTATION", y("zstd_implementation"), "string", "rust")}, []string{"zstd_implementation"}, true
	case "same_port":
		return []CfgSetting{st("http_address", "http_address", "BAZEL_REMOTE_HTTP_ADDRESS", y("http_address"), "string", "127.0.0.1:7070"),
			st("grpc_address", "grpc_address", "BAZEL_REMOTE_GRPC_ADDRESS", y("grpc_address"), "string", "localhost:7070")}, []string{"http_address", "grpc_address", "port", "grpc_port", "host"}, true
	case "same_port_deprecated":
		return []CfgSetting{st("port", "port", "BAZEL_REMOTE_PORT", y("port"), "int", "7171"),
			st("grpc_port", "grpc_port", "BAZEL_REMOTE_GRPC_PORT", y("grpc_port"), "int", "7171")}, []string{"http_address", "grpc_address", "port", "grpc_port"}, true
	case "bad_http_address":
		return []CfgSetting{st("http_address", "http_address", "BAZEL_REMOTE_HTTP_ADDRESS", y("http_address"), "string", "no-port-here")}, []string{"http_address", "port", "host"}, true
	case "bad_grpc_address":
		return []CfgSetting{st("grpc_address", "grpc_address", "BAZEL_REMOTE_GRPC_ADDRESS", y("grpc_address"), "string", "1.2.3.4")}, []string{"grpc_address", "grpc_port", "experimental_remote_asset_api"}, true
	case "empty_unix_http":
		return []CfgSetting{st("http_address", "http_address", "BAZEL_REMOTE_HTTP_ADDRESS", y("http_address"), "string", "unix://")}, []string{"http_address", "port", "host"}, true
	case "empty_unix_grpc":
		return []CfgSetting{st("grpc_address", "grpc_address", "BAZEL_REMOTE_GRPC_ADDRESS", y("grpc_address"), "string", "unix://")}, []string{"grpc_address", "grpc_port", "experimental_remote_asset_api"}, true
	case "tls_cert_without_key":
		return []CfgSetting{st("tls_cert_file", "tls_cert_file", "BAZEL_REMOTE_TLS_CERT_FILE", y("tls_cert_file"), "string", "/tmp/server.crt")}, nil, true
	case "tls_key_without_cert":
		return []CfgSetting{st("tls_key_file", "tls_key_file", "BAZEL_REMOTE_TLS_KEY_FILE", y("tls_key_file"), "string", "/tmp/server.key")}, nil, true
	case "ca_without_cert":
		return []CfgSetting{st("tls_ca_file", "tls_ca_file", "BAZEL_REMOTE_TLS_CA_FILE", y("tls_ca_file"), "string", "/tmp/ca.crt")}, nil, true
	case "unauthenticated_reads_without_auth":
		return []CfgSetting{st("allow_unauthenticated_reads", "allow_unauthenticated_reads", "BAZEL_REMOTE_UNAUTHENTICATED_READS", y("allow_unauthenticated_reads"), "bool", "true")}, []string{"htpasswd_file", "ldap.url", "ldap.base_dn", "ldap.cache_time", "ldap.username_attribute"}, true
	case "two_proxies_http_s3":
		return []CfgSetting{st("http_proxy.url", "http_proxy.url", "BAZEL_REMOTE_HTTP_PROXY_URL", y("http_proxy", "url"), "string", "http://b.example/"),
				st("s3.bucket", "s3.bucket", "BAZEL_REMOTE_S3_BUCKET", y("s3_proxy", "bucket"), "string", "bkt"),
				st("s3.auth_method", "s3.auth_method", "BAZEL_REMOTE_S3_AUTH_METHOD", y("s3_proxy", "auth_method"), "string", "access_key"),
				st("s3.endpoint", "s3.endpoint", "BAZEL_REMOTE_S3_ENDPOINT", y("s3_proxy", "endpoint"), "string", "s3.example:9000")},
			[]string{"http_proxy.url", "http_proxy.ca_file", "s3.bucket", "s3.auth_method", "s3.endpoint", "grpc_proxy.url", "gcs_proxy.bucket", "gcs_proxy.use_default_credentials",
				"azblob.storage_account", "azblob.tenant_id", "azblob.container_name", "azblob.auth_method", "azblob.shared_key", "azblob.prefix"}, true
	case "two_proxies_grpc_gcs":
		return []CfgSetting{st("grpc_proxy.url", "grpc_proxy.url", "BAZEL_REMOTE_GRPC_PROXY_URL", y("grpc_proxy", "url"), "string", "grpc://b.example:9092"),
				st("gcs_proxy.bucket", "gcs_proxy.bucket", "BAZEL_REMOTE_GCS_BUCKET", y("gcs_proxy", "bucket"), "string", "bkt")},
			[]string{"http_proxy.url", "http_proxy.ca_file", "s3.bucket", "s3.auth_method", "s3.endpoint", "s3.prefix", "s3.region", "grpc_proxy.url", "gcs_proxy.bucket",
				"azblob.storage_account", "azblob.tenant_id", "azblob.container_name", "azblob.auth_method", "azblob.shared_key", "azblob.prefix"}, true
	case "two_proxies_s3_azblob", "two_proxies_http_azblob", "two_proxies_grpc_azblob", "two_proxies_gcs_azblob", "azblob_without_container", "azblob_bad_auth_method":
		az := []CfgSetting{st("azblob.storage_account", "azblob.storage_account", "BAZEL_REMOTE_AZBLOB_STORAGE_ACCOUNT", y("azblob_proxy", "storage_account"), "string", "acct"),
			st("azblob.tenant_id", "azblob.tenant_id", "BAZEL_REMOTE_AZBLOB_TENANT_ID", y("azblob_proxy", "tenant_id"), "string", "tenant"),
			st("azblob.container_name", "azblob.container_name", "BAZEL_REMOTE_AZBLOB_CONTAINER_NAME", y("azblob_proxy", "container_name"), "string", "cont"),
			st("azblob.auth_method", "azblob.auth_method", "BAZEL_REMOTE_AZBLOB_AUTH_METHOD", y("azblob_proxy", "auth_method"), "string", "shared_key"),
			st("azblob.shared_key", "azblob.shared_key", "BAZEL_REMOTE_AZBLOB_SHARED_KEY", y("azblob_proxy", "shared_key"), "string", "a2V5")}
		dropAll := []string{"http_proxy.url", "http_proxy.ca_file", "s3.bucket", "s3.auth_method", "s3.endpoint", "s3.prefix", "s3.region", "grpc_proxy.url", "gcs_proxy.bucket", "gcs_proxy.use_default_credentials",
			"azblob.storage_account", "azblob.tenant_id", "azblob.container_name", "azblob.auth_method", "azblob.shared_key", "azblob.prefix"}
		switch class {
		case "two_proxies_s3_azblob":
			az = append(az, st("s3.bucket", "s3.bucket", "BAZEL_REMOTE_S3_BUCKET", y("s3_proxy", "bucket"), "string", "bkt"),
				st("s3.auth_method", "s3.auth_method", "BAZEL_REMOTE_S3_AUTH_METHOD", y("s3_proxy", "auth_method"), "string", "access_key"),
				st("s3.endpoint", "s3.endpoint", "BAZEL_REMOTE_S3_ENDPOINT", y("s3_proxy", "endpoint"), "string", "s3.example:9000"))
		case "two_proxies_http_azblob":
			az = append(az, st("http_proxy.url", "http_proxy.url", "BAZEL_REMOTE_HTTP_PROXY_URL", y("http_proxy", "url"), "string", "http://b.example/"))
		case "two_proxies_grpc_azblob":
			az = append(az, st("grpc_proxy.url", "grpc_proxy.url", "BAZEL_REMOTE_GRPC_PROXY_URL", y("grpc_proxy", "url"), "string", "grpc://b.example:9092"))
		case "two_proxies_gcs_azblob":
			az = append(az, st("gcs_proxy.bucket", "gcs_proxy.bucket", "BAZEL_REMOTE_GCS_BUCKET", y("gcs_proxy", "bucket"), "string", "bkt"))
		case "azblob_without_container":
			az = append(az[:2], az[3:]...)
		case "azblob_bad_auth_method":
			az[3] = st("azblob.auth_method", "azblob.auth_method", "BAZEL_REMOTE_AZBLOB_AUTH_METHOD", y("azblob_proxy", "auth_method"), "string", "kerberos")
		}
		return az, dropAll, true
	case "zero_max_blob_size":
		return []CfgSetting{st("max_blob_size", "max_blob_size", "BAZEL_REMOTE_MAX_BLOB_SIZE", y("max_blob_size"), "int", "0")}, []string{"max_blob_size"}, true
	case "negative_max_proxy_blob_size":
		return []CfgSetting{st("max_proxy_blob_size", "max_proxy_blob_size", "BAZEL_REMOTE_MAX_PROXY_BLOB_SIZE", y("max_proxy_blob_size"), "int", "-1")}, []string{"max_proxy_blob_size"}, true
	case "asset_api_without_grpc":
		return []CfgSetting{st("grpc_address", "grpc_address", "BAZEL_REMOTE_GRPC_ADDRESS", y("grpc_address"), "string", "none"),
			st("experimental_remote_asset_api", "experimental_remote_asset_api", "BAZEL_REMOTE_EXPERIMENTAL_REMOTE_ASSET_API", y("experimental_remote_asset_api"), "bool", "true")}, []string{"grpc_address", "grpc_port", "experimental_remote_asset_api"}, true
	case "bad_access_log_level":
		return []CfgSetting{st("access_log_level", "access_log_level", "BAZEL_REMOTE_ACCESS_LOG_LEVEL", y("access_log_level"), "string", "verbose")}, []string{"access_log_level"}, true
	case "bad_log_timezone":
		return []CfgSetting{st("log_timezone", "log_timezone", "BAZEL_REMOTE_LOG_TIMEZONE", y("log_timezone"), "string", "CET")}, []string{"log_timezone"}, true
	case "ldap_without_base_dn":
		return []CfgSetting{st("ldap.url", "ldap.url", "BAZEL_REMOTE_LDAP_URL", y("ldap", "url"), "string", "ldap://l.example")}, []string{"ldap.url", "ldap.base_dn"}, true
	case "http_proxy_wrong_scheme":
		return []CfgSetting{st("http_proxy.url", "http_proxy.url", "BAZEL_REMOTE_HTTP_PROXY_URL", y("http_proxy", "url"), "string", "ftp://b.example/")},
			[]string{"http_proxy.url", "http_proxy.ca_file", "s3.bucket", "s3.auth_method", "s3.endpoint", "s3.prefix", "s3.region", "grpc_proxy.url", "gcs_proxy.bucket", "gcs_proxy.use_default_credentials",
				"azblob.storage_account", "azblob.tenant_id", "azblob.container_name", "azblob.auth_method", "azblob.shared_key", "azblob.prefix"}, true
	}
	return nil, nil, false
}

func renderArgv(ss []CfgSetting) []string {
	argv := []string{"bazel-remote"}
	for _, s := range ss {
		if s.Kind == "bool" {
			argv = append(argv, "--"+s.Flag)
		} else {
			argv = append(argv, "--"+s.Flag, s.Value)
		}
	}
	return argv
}

func renderYAML(ss []CfgSetting) ([]byte, error) {
	root := map[string]any{}
	for _, s := range ss {
		m := root
		for _, k := range s.YPath[:len(s.YPath)-1] {
			n, ok := m[k].(map[string]any)
			if !ok {
				n = map[string]any{}
				m[k] = n
			}
			m = n
		}
		var v any = s.Value
		switch s.Kind {
		case "int":
			var n int64
			fmt.Sscan(s.Value, &n)
			v = n
		case "seconds":
			v = s.Value + "s" // the form the repository's own test uses; the README's integer form is a directed case
		case "bool":
			v = s.Value == "true"
		}
		m[s.YPath[len(s.YPath)-1]] = v
	}
	return yaml.Marshal(root)
}

func runCli(argv []string, env map[string]string) (*config.Config, error) {
	for k, v := range env {
		os.Setenv(k, v)
	}
	defer func() {
		for k := range env {
			os.Unsetenv(k)
		}
	}()
	var cfg *config.Config
	var cerr error
	app := cli.NewApp()
	app.Flags = flags.GetCliFlags()
	app.Writer, app.ErrWriter = devNull{}, devNull{}
	app.ExitErrHandler = func(*cli.Context, error) {}
	app.Action = func(ctx *cli.Context) error {
		cfg, cerr = config.VerifGet(ctx)
		return nil
	}
	if err := app.Run(argv); err != nil {
		return nil, err
	}
	return cfg, cerr
}

type devNull struct{}

func (devNull) Write(p []byte) (int, error) { return len(p), nil }

// leaf resolves the value a configuration ended up with for one explicitly
// given setting, by walking the YAML tags of config.Config along the setting's
// YAML path (the deprecated host/port forms are looked up in the address they
// feed). ok=false: the setting has no comparable effective value.
func leaf(c *config.Config, s CfgSetting, given map[string]bool) (string, bool) {
	switch s.ID {
	case "port":
		return c.HTTPAddress, true
	case "grpc_port":
		return c.GRPCAddress, true
	case "host":
		// only comparable together with a port (the default port of an omitted
		// setting differs between the syntaxes, as documented)
		if given["port"] {
			return c.HTTPAddress, true
		}
		return "", false
	case "profile_port":
		// the default of an omitted profile_host differs between the syntaxes (documented for the flag only):
		// comparable when the host is given too
		if given["profile_host"] || given["profile_address"] {
			return c.ProfileAddress, true
		}
		return "", false
	case "profile_host":
		return "", false
	}
	v := reflect.ValueOf(*c)
	for _, key := range s.YPath {
		for v.Kind() == reflect.Ptr {
			if v.IsNil() {
				return "<nil>", true
			}
			v = v.Elem()
		}
		if v.Kind() != reflect.Struct {
			return "", false
		}
		found := false
		t := v.Type()
		for i := 0; i < t.NumField(); i++ {
			tag := strings.Split(t.Field(i).Tag.Get("yaml"), ",")[0]
			if tag == key {
				v = v.Field(i)
				found = true
				break
			}
		}
		if !found {
			return "", false
		}
	}
	for v.Kind() == reflect.Ptr {
		if v.IsNil() {
			return "<nil>", true
		}
		if u, ok := v.Interface().(interface{ String() string }); ok {
			return u.String(), true
		}
		v = v.Elem()
	}
	return fmt.Sprintf("%v", v.Interface()), true
}

// RunConfig executes the configuration table.
func RunConfig(tab CfgTable, seed int64, stride int) (runs []CfgRun, viols []drv.Violation, err error) {
	exec := func(ss []CfgSetting, wantValid bool, class string, idx int) {
		// skip combinations that give one setting two values
		seen := map[string]string{}
		given := map[string]bool{}
		for _, s := range ss {
			if v, ok := seen[s.ID]; ok && v != s.Value {
				return
			}
			seen[s.ID] = s.Value
			given[s.ID] = true
		}
		// dedupe
		var uniq []CfgSetting
		done := map[string]bool{}
		for _, s := range ss {
			if !done[s.ID] {
				done[s.ID] = true
				uniq = append(uniq, s)
			}
		}
		sort.Slice(uniq, func(i, j int) bool { return uniq[i].ID < uniq[j].ID })
		run := CfgRun{Row: CfgRow{Settings: uniq, Valid: wantValid}, Class: class}
		bad := func(f string, a ...any) {
			var desc []string
			for _, s := range uniq {
				desc = append(desc, s.ID+"="+s.Value)
			}
			pre := strings.Join(desc, " ")
			if class != "" {
				pre = "[" + class + "] " + pre
			}
			viols = append(viols, drv.Violation{Prop: "C19", What: fmt.Sprintf(f, a...) + " {configuration: " + pre + "}", Hist: idx})
		}
		envm := map[string]string{}
		for _, s := range uniq {
			envm[s.Env] = s.Value
		}
		yb, yerr := renderYAML(uniq)
		if yerr != nil {
			err = yerr
			return
		}
		cf, ef := runCli(renderArgv(uniq), nil)
		ce, ee := runCli([]string{"bazel-remote"}, envm)
		cy, ey := config.NewFromYaml(yb)
		res := func(e error) string {
			if e == nil {
				return "ok"
			}
			return "refused: " + e.Error()
		}
		run.Results = []string{"flags " + res(ef), "env " + res(ee), "yaml " + res(ey)}
		runs = append(runs, run)
		for i, e := range []error{ef, ee, ey} {
			syn := []string{"flags", "environment", "YAML"}[i]
			if wantValid && e != nil {
				bad("given as %s the configuration is refused (%v), the specification says it is valid", syn, e)
			}
			if !wantValid && e == nil {
				bad("given as %s the configuration is accepted, the specification says it must be refused at start-up", syn)
			}
		}
		if wantValid && ef == nil && ee == nil && ey == nil {
			for _, st := range uniq {
				a, ok := leaf(cf, st, given)
				if !ok {
					continue
				}
				b, _ := leaf(ce, st, given)
				c, _ := leaf(cy, st, given)
				if a != b {
					bad("setting %s: effective value differs between flags (%s) and environment (%s)", st.ID, a, b)
				}
				if a != c {
					bad("setting %s: effective value differs between flags (%s) and YAML (%s)", st.ID, a, c)
				}
				// and it must be the value that was given
				want := st.Value
				switch {
				case (st.ID == "port" && given["http_address"]) || (st.ID == "grpc_port" && given["grpc_address"]):
					continue // the address form takes precedence over the deprecated host/port form
				case st.ID == "port" || st.ID == "grpc_port":
					want = ":" + st.Value
					if given["host"] {
						for _, h := range uniq {
							if h.ID == "host" {
								want = net.JoinHostPort(h.Value, st.Value) // an IPv6 literal goes into brackets
							}
						}
					}
				case st.ID == "profile_port" && given["profile_address"]:
					continue // the address form takes precedence
				case st.ID == "profile_port":
					for _, h := range uniq {
						if h.ID == "profile_host" {
							want = net.JoinHostPort(h.Value, st.Value)
						}
					}
				case st.ID == "profile_address" && st.Value == "none":
					want = "" // 'none' disables the profiling listener explicitly (README): no address in effect
				case st.ID == "host":
					continue
				case st.Kind == "seconds":
					var n int64
					fmt.Sscan(st.Value, &n)
					want = (time.Duration(n) * time.Second).String()
				}
				if a != want {
					bad("setting %s: given %q, the effective configuration holds %q", st.ID, want, a)
				}
			}
		}
	}

	for i, row := range tab.Valid {
		if stride > 1 && (i+int(seed))%stride != 0 {
			continue
		}
		exec(append(append([]CfgSetting{}, base...), row.Settings...), row.Valid, "", i)
		if err != nil {
			return
		}
	}
	// the YAML form of ldap.cache_time that README documents: an integer number of seconds
	if _, e := config.NewFromYaml([]byte("dir: /tmp/verif-cache-dir\nmax_size: 3\nldap:\n  url: ldap://l.example\n  base_dn: dc=example,dc=com\n  cache_time: 3600\n")); e != nil {
		viols = append(viols, drv.Violation{Prop: "C19", What: fmt.Sprintf("the documented YAML form 'ldap: cache_time: 3600' (integer seconds) is refused at start-up: %v", e), Hist: 99999})
	}
	// an azblob backend with shared-key authentication needs no tenant id: the same settings in all three syntaxes
	{
		y := func(p ...string) []string { return p }
		exec(append(append([]CfgSetting{}, base...),
			st("azblob.storage_account", "azblob.storage_account", "BAZEL_REMOTE_AZBLOB_STORAGE_ACCOUNT", y("azblob_proxy", "storage_account"), "string", "acct"),
			st("azblob.container_name", "azblob.container_name", "BAZEL_REMOTE_AZBLOB_CONTAINER_NAME", y("azblob_proxy", "container_name"), "string", "cont"),
			st("azblob.auth_method", "azblob.auth_method", "BAZEL_REMOTE_AZBLOB_AUTH_METHOD", y("azblob_proxy", "auth_method"), "string", "shared_key"),
			st("azblob.shared_key", "azblob.shared_key", "BAZEL_REMOTE_AZBLOB_SHARED_KEY", y("azblob_proxy", "shared_key"), "string", "a2V5")),
			true, "azblob_shared_key_without_tenant_id", 99998)
		if err != nil {
			return
		}
	}
	for ci, class := range tab.Invalid {
		add, drop, ok := invalidClass(class)
		if !ok {
			return runs, viols, fmt.Errorf("invalid class %q of the specification is unknown to the harness", class)
		}
		others := append([]CfgRow{{}}, tab.Singles...)
		for oi, other := range others {
			var ss []CfgSetting
			dropped := map[string]bool{}
			for _, d := range drop {
				dropped[d] = true
			}
			conflict := false
			for _, s := range append(append([]CfgSetting{}, base...), other.Settings...) {
				if dropped[s.ID] {
					if s.ID != "dir" && s.ID != "max_size" {
						conflict = true // the other setting belongs to the class's own group
					}
					continue
				}
				ss = append(ss, s)
			}
			if conflict {
				continue
			}
			exec(append(ss, add...), false, class, 100000+ci*1000+oi)
			if err != nil {
				return
			}
		}
	}
	return
}

func fmtVal(v any) string {
	rv := reflect.ValueOf(v)
	if rv.Kind() == reflect.Ptr && !rv.IsNil() {
		return fmt.Sprintf("%+v", rv.Elem().Interface())
	}
	return fmt.Sprintf("%v", v)
}
