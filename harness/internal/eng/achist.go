package eng

// ACUpload is one upload of a history of ActionCache.tla.
type ACUpload struct {
	Enc string `json:"enc"`
	Msg string `json:"msg"`
}

// ACHist is one upload history with the outcomes the specification expects.
type ACHist struct {
	Uploads  []ACUpload `json:"uploads"`
	Outcomes []string   `json:"outcomes"`
	Stored   int        `json:"stored"`
}
