package eng

import (
	"bytes"
	"context"
	"fmt"
	"io"
	"math/rand"
	"net/http"

	"github.com/buchgr/bazel-remote/v2/cache"
	"github.com/buchgr/bazel-remote/v2/cache/disk"
	pb "github.com/buchgr/bazel-remote/v2/genproto/build/bazel/remote/execution/v2"
	"google.golang.org/grpc/codes"
	"google.golang.org/grpc/status"
	"google.golang.org/protobuf/encoding/protojson"
	"google.golang.org/protobuf/proto"

	"verif/harness/internal/drv"
	"verif/harness/internal/fe"
)

// ACUpload is one upload of a history of ActionCache.tla.
type ACUpload struct {
	Enc string `json:"enc"`
	Msg string `json:"msg"`
}

// ACHist is one upload history with the outcomes the specification expects.
type ACHist struct {
	Uploads  []ACUpload `json:"uploads"`
	Outcomes []string   `json:"outcomes"`
	Stored   int        `json:"stored"`
}

// ACHistRun describes one executed history.
type ACHistRun struct {
	Hist     ACHist   `json:"hist"`
	Answers  []string `json:"answers"`
	ReadBack string   `json:"read_back"`
}

func dg(b []byte) *pb.Digest { return &pb.Digest{Hash: drv.MkBlob(b).Hash, SizeBytes: int64(len(b))} }

// buildMsg returns the message of a class. Referenced blobs of valid
// messages are stored in the CAS first so that a later hit is possible.
// raw is used instead of the marshalled message when non-nil.
func buildMsg(f *fe.Fixture, rng *rand.Rand, class string) (ar *pb.ActionResult, raw []byte, err error) {
	ctx := context.Background()
	store := func(b []byte) *pb.Digest {
		d := dg(b)
		if e := f.Cache.Put(ctx, cache.CAS, d.Hash, d.SizeBytes, bytes.NewReader(b)); e != nil {
			err = e
		}
		return d
	}
	blob := func() []byte { return drv.GenData(rng, 30+rng.Intn(300), rng.Intn(3)) }
	base := func() *pb.ActionResult {
		return &pb.ActionResult{
			OutputFiles: []*pb.OutputFile{{Path: fmt.Sprintf("bazel-out/f%d", rng.Intn(1e6)), Digest: store(blob()), IsExecutable: rng.Intn(2) == 0}},
			ExitCode:    int32(rng.Intn(3)),
		}
	}
	ar = base()
	good := store(blob())
	// every class is combined with otherwise arbitrary valid content
	if class != "plain" && class != "withWorker" {
		if rng.Intn(2) == 0 {
			ar.ExecutionMetadata = &pb.ExecutedActionMetadata{Worker: fmt.Sprintf("host-%d", rng.Intn(1000))}
		}
		if rng.Intn(3) == 0 {
			ar.OutputSymlinks = append(ar.OutputSymlinks, &pb.OutputSymlink{Path: "bazel-out/extra-link", Target: "somewhere"})
		}
		if rng.Intn(3) == 0 {
			ar.StderrDigest = store(blob())
		}
	}
	switch class {
	case "plain":
	case "withWorker":
		ar.ExecutionMetadata = &pb.ExecutedActionMetadata{Worker: fmt.Sprintf("worker-%d", rng.Intn(1000))}
	case "inlineStdout":
		ar.StdoutRaw = blob()
	case "inlineFile":
		c := blob()
		ar.OutputFiles = append(ar.OutputFiles, &pb.OutputFile{Path: "bazel-out/inlined", Digest: dg(c), Contents: c})
	case "withTree":
		file := store(blob())
		tree := &pb.Tree{Root: &pb.Directory{Files: []*pb.FileNode{{Name: "a", Digest: file}}}}
		tb, _ := proto.Marshal(tree)
		ar.OutputDirectories = []*pb.OutputDirectory{{Path: "bazel-out/dir", TreeDigest: store(tb)}}
	case "withSymlinks":
		ar.OutputSymlinks = []*pb.OutputSymlink{{Path: "bazel-out/link", Target: "f"}}
		ar.OutputFileSymlinks = []*pb.OutputSymlink{{Path: "bazel-out/flink", Target: "../x"}}
	case "emptyDirPath":
		tb, _ := proto.Marshal(&pb.Tree{Root: &pb.Directory{}})
		ar.OutputDirectories = []*pb.OutputDirectory{{Path: "", TreeDigest: store(tb)}}
	// invalid ones
	case "fileEmptyPath":
		ar.OutputFiles = append(ar.OutputFiles, &pb.OutputFile{Path: "", Digest: good})
	case "fileAbsPath":
		ar.OutputFiles = append(ar.OutputFiles, &pb.OutputFile{Path: "/etc/passwd", Digest: good})
	case "fileNilDigest":
		ar.OutputFiles = append(ar.OutputFiles, &pb.OutputFile{Path: "bazel-out/nodigest"})
	case "fileNegSize":
		ar.OutputFiles = append(ar.OutputFiles, &pb.OutputFile{Path: "bazel-out/neg", Digest: &pb.Digest{Hash: good.Hash, SizeBytes: -1}})
	case "fileBadHash":
		h := []string{"ABCDEF" + good.Hash[6:], good.Hash[:63], good.Hash + "0", "zz" + good.Hash[2:], ""}[rng.Intn(5)]
		ar.OutputFiles = append(ar.OutputFiles, &pb.OutputFile{Path: "bazel-out/badhash", Digest: &pb.Digest{Hash: h, SizeBytes: 3}})
	case "dirAbsPath":
		tb, _ := proto.Marshal(&pb.Tree{Root: &pb.Directory{}})
		ar.OutputDirectories = []*pb.OutputDirectory{{Path: "/abs/dir", TreeDigest: store(tb)}}
	case "dirNilTree":
		ar.OutputDirectories = []*pb.OutputDirectory{{Path: "bazel-out/d"}}
	case "dirBadHash":
		ar.OutputDirectories = []*pb.OutputDirectory{{Path: "bazel-out/d", TreeDigest: &pb.Digest{Hash: "nothex", SizeBytes: 1}}}
	case "symEmptyPath":
		ar.OutputSymlinks = []*pb.OutputSymlink{{Path: "", Target: "t"}}
	case "symEmptyTarget":
		if rng.Intn(2) == 0 {
			ar.OutputFileSymlinks = []*pb.OutputSymlink{{Path: "bazel-out/l", Target: ""}}
		} else {
			ar.OutputDirectorySymlinks = []*pb.OutputSymlink{{Path: "bazel-out/l", Target: ""}}
		}
	case "symAbsPath":
		ar.OutputDirectorySymlinks = []*pb.OutputSymlink{{Path: "/abs/l", Target: "t"}}
	case "stdoutBadHash":
		ar.StdoutDigest = &pb.Digest{Hash: good.Hash[:10], SizeBytes: 5}
	case "stderrNegSize":
		ar.StderrDigest = &pb.Digest{Hash: good.Hash, SizeBytes: -5}
	case "inlineFileWrongDigest":
		c := blob()
		ar.OutputFiles = append(ar.OutputFiles, &pb.OutputFile{Path: "bazel-out/lying", Digest: lyingDigest(rng, c), Contents: c})
	case "inlineStdoutWrongDigest":
		c := blob()
		ar.StdoutRaw, ar.StdoutDigest = c, lyingDigest(rng, c)
	case "notAnActionResult":
		raw = []byte{0xff, 0xff, 0xff, 0xff, 0x0f, 0x01, 0x02}
	default:
		return nil, nil, fmt.Errorf("unknown message class %s", class)
	}
	return ar, raw, err
}

// upload sends one message through an encoding and says whether it was accepted.
func upload(f *fe.Fixture, key string, enc string, ar *pb.ActionResult, raw []byte) (string, error) {
	switch enc {
	case "grpc":
		ctx, cancel := fe.Ctx()
		defer cancel()
		_, e := f.AC.UpdateActionResult(ctx, &pb.UpdateActionResultRequest{ActionDigest: &pb.Digest{Hash: key, SizeBytes: 9}, ActionResult: proto.Clone(ar).(*pb.ActionResult)})
		if e == nil {
			return "accept", nil
		}
		return "reject:" + status.Code(e).String(), nil
	case "httpProto", "httpJson", "httpZstd":
		hdr := map[string]string{}
		body := raw
		if body == nil {
			if enc == "httpJson" {
				b, e := protojson.Marshal(ar)
				if e != nil {
					return "", e
				}
				body = b
			} else {
				b, e := proto.Marshal(ar)
				if e != nil {
					return "", e
				}
				body = b
			}
		} else if enc == "httpJson" {
			body = []byte(`{"outputFiles": [ {"path": 5, `)
		}
		if enc == "httpJson" {
			hdr["Content-Type"] = "application/json"
		}
		if enc == "httpZstd" {
			hdr["X-Digest-SizeBytes"] = fmt.Sprint(len(body))
			hdr["Content-Encoding"] = "zstd"
			body = zstdEncode(body)
		}
		code, _, _, e := f.HTTPDo(http.MethodPut, "/ac/"+key, body, hdr)
		if e != nil {
			return "", e
		}
		if code == 200 {
			return "accept", nil
		}
		return fmt.Sprintf("reject:%d", code), nil
	}
	return "", fmt.Errorf("unknown encoding %s", enc)
}

// normalise brings an uploaded and a returned message to a common form: the
// documented server-side changes are undone (worker name filled in when it was
// absent; inline contents replaced by their true digest).
func normalise(m *pb.ActionResult, workerGiven bool) *pb.ActionResult {
	c := proto.Clone(m).(*pb.ActionResult)
	if !workerGiven && c.ExecutionMetadata != nil {
		c.ExecutionMetadata.Worker = ""
		if proto.Equal(c.ExecutionMetadata, &pb.ExecutedActionMetadata{}) {
			c.ExecutionMetadata = nil
		}
	}
	if len(c.StdoutRaw) > 0 {
		c.StdoutDigest = dg(c.StdoutRaw)
		c.StdoutRaw = nil
	}
	if len(c.StderrRaw) > 0 {
		c.StderrDigest = dg(c.StderrRaw)
		c.StderrRaw = nil
	}
	for _, of := range c.OutputFiles {
		if len(of.Contents) > 0 {
			of.Digest = dg(of.Contents)
			of.Contents = nil
		}
	}
	return c
}

// deinlined lists the contents that up carried inline and that view refers to by digest only.
func deinlined(up, view *pb.ActionResult) (out [][]byte) {
	if len(up.StdoutRaw) > 0 && len(view.StdoutRaw) == 0 && view.StdoutDigest != nil {
		out = append(out, up.StdoutRaw)
	}
	if len(up.StderrRaw) > 0 && len(view.StderrRaw) == 0 && view.StderrDigest != nil {
		out = append(out, up.StderrRaw)
	}
	for _, uf := range up.OutputFiles {
		if len(uf.Contents) == 0 {
			continue
		}
		for _, vf := range view.OutputFiles {
			if vf.Path == uf.Path && len(vf.Contents) == 0 && vf.Digest != nil {
				out = append(out, uf.Contents)
			}
		}
	}
	return
}

// acDeinlineAfterEviction: ActionCache.tla's AEvictCas followed by ARead("grpc", FALSE).  Inline contents (with
// and without a digest next to them) are uploaded over gRPC - which copies them to the CAS -, the CAS copy is
// then evicted by pressure while the action result is kept recent, and a read that does not ask for the
// contents inline must again leave them in the CAS.
func acDeinlineAfterEviction(seed int64, mode string) (viols []drv.Violation, n int, err error) {
	rng := rand.New(rand.NewSource(seed + 77))
	for _, withDigest := range []bool{true, false} {
		for _, field := range []string{"file", "stdout"} {
			if field == "file" && !withDigest {
				continue // an output file without a digest is not a valid message
			}
			f, e := fe.New(fe.Opts{Mode: mode, MaxSize: 12 * 4096})
			if e != nil {
				return viols, n, e
			}
			n++
			c := drv.GenData(rng, 300+rng.Intn(500), 0)
			ar := &pb.ActionResult{ExitCode: 0}
			if field == "file" {
				of := &pb.OutputFile{Path: "bazel-out/gen.h", Contents: c}
				if withDigest {
					of.Digest = dg(c)
				}
				ar.OutputFiles = []*pb.OutputFile{of}
			} else {
				ar.StdoutRaw = c
				if withDigest {
					ar.StdoutDigest = dg(c)
				}
			}
			key := drv.MkBlob([]byte(fmt.Sprintf("acevict-%d-%v-%s", seed, withDigest, field))).Hash
			bad := func(fmtS string, a ...any) {
				viols = append(viols, drv.Violation{Prop: "C11", What: fmt.Sprintf("inline %s (digest given: %v) uploaded over gRPC, its CAS copy evicted, mode=%s: ", field, withDigest, mode) + fmt.Sprintf(fmtS, a...)})
			}
			ctx, cancel := fe.Ctx()
			_, e = f.AC.UpdateActionResult(ctx, &pb.UpdateActionResultRequest{ActionDigest: &pb.Digest{Hash: key, SizeBytes: 7}, ActionResult: ar})
			cancel()
			if e != nil {
				f.Close()
				return viols, n, fmt.Errorf("UpdateActionResult: %v", e)
			}
			d := dg(c)
			evicted := false
			for i := 0; i < 40 && !evicted; i++ {
				// keep the action result recent, add one block of pressure
				f.Cache.Contains(context.Background(), cache.AC, key, -1)
				b := drv.MkBlob(drv.GenData(rng, 3000, 0))
				if e := f.Cache.Put(context.Background(), cache.CAS, b.Hash, int64(len(b.Data)), bytes.NewReader(b.Data)); e != nil {
					break
				}
				// (looked up in a snapshot: a Contains would refresh the blob's recency)
				evicted = true
				for _, en := range disk.VerifSnapshot(f.Cache).Entries {
					if en.Key == cache.LookupKey(cache.CAS, d.Hash) {
						evicted = false
					}
				}
			}
			if ok, _ := f.Cache.Contains(context.Background(), cache.AC, key, -1); !evicted || !ok {
				f.Close()
				fmt.Printf("acDeinlineAfterEviction: situation not reached (field %s digest %v: CAS copy evicted=%v, action result kept=%v)\n", field, withDigest, evicted, ok)
				continue // the schedule of evictions did not produce the situation; nothing to observe
			}
			ctx, cancel = fe.Ctx()
			got, ge := f.AC.GetActionResult(ctx, &pb.GetActionResultRequest{ActionDigest: &pb.Digest{Hash: key, SizeBytes: 7}})
			cancel()
			if ge == nil {
				for _, cc := range deinlined(ar, got) {
					rc, _, e := f.Cache.Get(context.Background(), cache.CAS, d.Hash, d.SizeBytes, 0)
					var b []byte
					if e == nil && rc != nil {
						b, _ = io.ReadAll(rc)
						rc.Close()
					}
					if rc == nil || !bytes.Equal(b, cc) {
						bad("GetActionResult replaced the contents by the digest %s/%d, but the CAS does not hold that blob (found=%v, %v)", d.Hash[:12], d.SizeBytes, rc != nil, e)
					}
				}
			} else if status.Code(ge) != codes.NotFound {
				bad("GetActionResult fails: %v", ge)
			}
			f.Close()
		}
	}
	return viols, n, nil
}

// RunACHists executes upload histories.
func RunACHists(hists []ACHist, seed int64, mode string, stride int) (runs []ACHistRun, viols []drv.Violation, err error) {
	rng := rand.New(rand.NewSource(seed))
	f, e := fe.New(fe.Opts{Mode: mode, MaxSize: 1 << 30})
	if e != nil {
		return nil, nil, e
	}
	defer f.Close()
	for hi, h := range hists {
		if stride > 1 && (hi+int(seed))%stride != 0 {
			continue
		}
		key := drv.MkBlob([]byte(fmt.Sprintf("achist-%d-%d", seed, hi))).Hash
		bad := func(fmtS string, a ...any) {
			viols = append(viols, drv.Violation{Prop: "C11", What: fmt.Sprintf("history %v mode=%s: ", h.Uploads, mode) + fmt.Sprintf(fmtS, a...), Hist: hi})
		}
		run := ACHistRun{Hist: h}
		var want *pb.ActionResult // normalised message expected to be stored
		var lastAR *pb.ActionResult // the latest accepted message as it was uploaded
		var wantWorker string
		for i, u := range h.Uploads {
			ar, raw, e := buildMsg(f, rng, u.Msg)
			if e != nil {
				return runs, viols, e
			}
			_, _, nBefore, _ := f.Cache.Stats()
			ans, e := upload(f, key, u.Enc, ar, raw)
			if e != nil {
				return runs, viols, e
			}
			run.Answers = append(run.Answers, ans)
			accepted := ans == "accept"
			if accepted != (h.Outcomes[i] == "accept") {
				bad("upload %d (%s via %s) answered %s, the specification says %s", i+1, u.Msg, u.Enc, ans, h.Outcomes[i])
			}
			if h.Outcomes[i] == "accept" {
				given := ar.ExecutionMetadata != nil && ar.ExecutionMetadata.Worker != ""
				want = normalise(ar, given)
				lastAR = ar
				wantWorker = ""
				if given {
					wantWorker = ar.ExecutionMetadata.Worker
				}
			} else {
				_, _, nAfter, _ := f.Cache.Stats()
				if nAfter != nBefore {
					bad("rejected upload %d (%s via %s) changed the number of stored items from %d to %d", i+1, u.Msg, u.Enc, nBefore, nAfter)
				}
			}
			// what is stored now, through every read path
			ctx, cancel := fe.Ctx()
			got, ge := f.AC.GetActionResult(ctx, &pb.GetActionResultRequest{ActionDigest: &pb.Digest{Hash: key, SizeBytes: 9}})
			cancel()
			code, body, _, he := f.HTTPDo(http.MethodGet, "/ac/"+key, nil, nil)
			if he != nil {
				return runs, viols, he
			}
			jcode, jbody, _, he := f.HTTPDo(http.MethodGet, "/ac/"+key, nil, map[string]string{"Accept": "application/json"})
			if he != nil {
				return runs, viols, he
			}
			if want == nil {
				if status.Code(ge) != codes.NotFound || code != 404 {
					bad("after upload %d nothing valid was uploaded, yet GetActionResult answers %s and HTTP GET %d", i+1, status.Code(ge), code)
				}
				run.ReadBack = "miss"
				continue
			}
			if ge != nil || code != 200 || jcode != 200 {
				bad("after upload %d the latest accepted message should be served; GetActionResult=%v HTTP GET=%d JSON GET=%d", i+1, status.Code(ge), code, jcode)
				continue
			}
			views := map[string]*pb.ActionResult{"grpc": got}
			hp := &pb.ActionResult{}
			if e := proto.Unmarshal(body, hp); e != nil {
				bad("HTTP GET returned bytes that do not parse as an ActionResult: %v", e)
				continue
			}
			views["httpProto"] = hp
			jp := &pb.ActionResult{}
			if e := protojson.Unmarshal(jbody, jp); e != nil {
				bad("HTTP GET (JSON) returned bytes that do not parse: %v", e)
				continue
			}
			views["httpJson"] = jp
			// ActionCache.tla DeinlinedInCas: contents that were uploaded inline and come back as a digest only
			// are a CAS blob under that digest by the time the reply is sent
			if lastAR != nil {
				for name, v := range views {
					for _, c := range deinlined(lastAR, v) {
						d := dg(c)
						rc, _, ge := f.Cache.Get(context.Background(), cache.CAS, d.Hash, d.SizeBytes, 0)
						var b []byte
						if ge == nil && rc != nil {
							b, _ = io.ReadAll(rc)
							rc.Close()
						}
						if !bytes.Equal(b, c) || rc == nil {
							bad("%s view replaced %d bytes that were uploaded inline (upload %d, via %s) by the digest %s/%d, but the CAS does not hold that blob (found=%v, %v)", name, len(c), h.Stored, h.Uploads[h.Stored-1].Enc, d.Hash[:12], d.SizeBytes, rc != nil, ge)
						}
					}
				}
			}
			for name, v := range views {
				if v.ExecutionMetadata == nil || v.ExecutionMetadata.Worker == "" {
					bad("%s view of the stored message has no worker name", name)
				} else if wantWorker != "" && v.ExecutionMetadata.Worker != wantWorker {
					bad("%s view: worker name %q was overwritten with %q", name, wantWorker, v.ExecutionMetadata.Worker)
				}
				n := normalise(v, wantWorker != "")
				if !proto.Equal(n, want) {
					bad("%s view differs from the latest accepted upload (upload %d of the history): got %v want %v", name, h.Stored, n, want)
				}
			}
			run.ReadBack = "hit"
		}
		runs = append(runs, run)
	}
	v2, _, e := acDeinlineAfterEviction(seed, mode)
	viols = append(viols, v2...)
	return runs, viols, e
}

// lyingDigest is a digest that does not describe c: another blob's digest, the right size with a wrong
// hash, or the right hash with a wrong size.
func lyingDigest(rng *rand.Rand, c []byte) *pb.Digest {
	d := drv.MkBlob(c)
	switch rng.Intn(4) {
	case 0:
		o := drv.MkBlob(append([]byte("x"), c...))
		return &pb.Digest{Hash: o.Hash, SizeBytes: int64(len(c) + 1)}
	case 1:
		o := drv.MkBlob(append([]byte("x"), c...))
		return &pb.Digest{Hash: o.Hash, SizeBytes: int64(len(c))}
	case 2:
		return &pb.Digest{Hash: d.Hash, SizeBytes: int64(len(c)) + 1 + int64(rng.Intn(7))}
	default:
		return &pb.Digest{Hash: d.Hash, SizeBytes: int64(len(c)) - 1}
	}
}
