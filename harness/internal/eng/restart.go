package eng

import (
	"bytes"
	"context"
	"fmt"
	"io"
	"math/rand"
	"os"
	"path/filepath"
	"sort"
	"time"

	"github.com/buchgr/bazel-remote/v2/cache"
	"github.com/buchgr/bazel-remote/v2/cache/disk"
	"github.com/klauspost/compress/zstd"

	"verif/harness/internal/drv"
	"verif/harness/internal/fmtw"
	"verif/harness/internal/rec"
)

// RestartCase is one row of Restart.tla's table.
type RestartCase struct {
	Files []struct {
		Key  string `json:"key"`
		Size int    `json:"size"`
	} `json:"files"`
	Max       int   `json:"max"`
	Survivors []int `json:"survivors"` // 1-based indices into Files
	Newest    []int `json:"newest"`
}

// RestartRun describes one executed population.
type RestartRun struct {
	Case    RestartCase `json:"case"`
	Kinds   []string    `json:"kinds"`
	Layouts []string    `json:"layouts"`
	Mode    string      `json:"mode_after_restart"`
	Started bool        `json:"started"`
	Present []int       `json:"present"`
}

type matFile struct {
	kind   fmtw.Kind
	hash   string
	data   []byte // logical content
	rel    string // where it was written
	lookup cache.EntryKind
}

// materialise writes the population into dir with the independent writer.
func materialise(dir string, c RestartCase, rng *rand.Rand, allowOld bool) ([]matFile, []string, []string, error) {
	// one content per (key) for CAS kinds (content-addressed), per file for AC/RAW
	keyKind := map[string]fmtw.Kind{}
	keyCAS := map[string][]byte{}
	var out []matFile
	var kinds, layouts []string
	base := time.Now().Add(-48 * time.Hour)
	usedOld := map[string]bool{}
	for i, f := range c.Files {
		k, ok := keyKind[f.Key]
		if !ok {
			k = []fmtw.Kind{fmtw.CAS, fmtw.CASLegacy, fmtw.AC, fmtw.RAW}[rng.Intn(4)]
			// two files of one key with different sizes can only be AC/RAW entries or
			// the two storage formats of one CAS blob; keep it simple: AC/RAW for duplicates
			dup := false
			for j, g := range c.Files {
				if j != i && g.Key == f.Key {
					dup = true
				}
			}
			for _, g := range c.Files {
				if g.Key == f.Key && g.Size == 0 {
					dup = true // a value of no bytes: an empty ActionResult or raw value (an empty CAS blob is never stored)
				}
			}
			if dup {
				k = []fmtw.Kind{fmtw.AC, fmtw.RAW}[rng.Intn(2)]
			}
			keyKind[f.Key] = k
		}
		// size in blocks -> a file of (size*4096 - slack) bytes on disk
		target := f.Size*4096 - 200 - rng.Intn(3000)
		var data, onDisk []byte
		var hash string
		switch k {
		case fmtw.CAS:
			d, ok := keyCAS[f.Key]
			if !ok {
				d = drv.GenData(rng, target-80, 0) // incompressible: on-disk = header + ~len
				if rng.Intn(2) == 0 {
					// well compressible: the logical size is far beyond the file size (and beyond small max_size values)
					d = append(drv.GenData(rng, target-400, 0), make([]byte, 200000+rng.Intn(900000))...)
				}
				keyCAS[f.Key] = d
			}
			data = d
			hash = fmtw.Sha(data)
			enc, err := fmtw.EncodeCAS(data, []int{1 << 20, 1 << 16, 4096}[rng.Intn(3)], zstd.SpeedFastest)
			if err != nil {
				return nil, nil, nil, err
			}
			for tries := 0; (len(enc)+4095)/4096 != f.Size && tries < 40; tries++ {
				// trim or extend the incompressible part until the file has the wanted number of blocks
				cut := 200
				if (len(enc)+4095)/4096 < f.Size {
					data = append(drv.GenData(rng, cut, 0), data...)
				} else if len(data) > cut+10 {
					data = data[cut:]
				}
				hash = fmtw.Sha(data)
				if enc, err = fmtw.EncodeCAS(data, 1<<20, zstd.SpeedFastest); err != nil {
					return nil, nil, nil, err
				}
				keyCAS[f.Key] = data
			}
			onDisk = enc
		case fmtw.CASLegacy:
			d, ok := keyCAS[f.Key]
			if !ok {
				d = drv.GenData(rng, target, rng.Intn(3))
				keyCAS[f.Key] = d
			}
			data, onDisk, hash = d, d, fmtw.Sha(d)
		default:
			if f.Size == 0 {
				target = 0
			}
			data = drv.GenData(rng, target, rng.Intn(3))
			onDisk = data
			hash = fmtw.Sha([]byte("restart-key-" + f.Key))
		}
		if (len(onDisk)+4095)/4096 != f.Size {
			return nil, nil, nil, fmt.Errorf("materialised file has %d bytes, wanted %d blocks", len(onDisk), f.Size)
		}
		layout := "v2"
		if allowOld && k != fmtw.CAS && rng.Intn(3) != 0 {
			// the old layouts carry no suffix: a key has at most one flat ("v0") and one two-level ("v1") file
			l := []string{"v1", "v0"}[rng.Intn(2)]
			if !usedOld[f.Key+"/"+l] {
				layout = l
				usedOld[f.Key+"/"+l] = true
			}
		}
		var rel string
		if layout == "v2" {
			suffix := fmt.Sprintf("%d", 100000000+rng.Intn(899999999))
			if rng.Intn(3) == 0 {
				suffix = fmt.Sprintf("%dabcXYZ", rng.Intn(100000)) // any alphanumeric suffix
			}
			rel = fmtw.RelName(k, hash, int64(len(data)), suffix)
		} else {
			rel = fmtw.OldName(k, hash, layout)
		}
		if err := fmtw.WriteFile(dir, rel, onDisk); err != nil {
			return nil, nil, nil, err
		}
		at := base.Add(time.Duration(i) * time.Hour)
		if err := os.Chtimes(filepath.Join(dir, rel), at, at); err != nil {
			return nil, nil, nil, err
		}
		lk := cache.CAS
		if k == fmtw.AC {
			lk = cache.AC
		} else if k == fmtw.RAW {
			lk = cache.RAW
		}
		out = append(out, matFile{kind: k, hash: hash, data: data, rel: rel, lookup: lk})
		kinds = append(kinds, string(k))
		layouts = append(layouts, layout)
	}
	return out, kinds, layouts, nil
}

func twinWanted(files []matFile, want map[int]bool, i int) bool {
	for j, g := range files {
		if j != i && want[j+1] && g.lookup == files[i].lookup && g.hash == files[i].hash && bytes.Equal(g.data, files[i].data) {
			return true
		}
	}
	return false
}

// RunRestart materialises every population, starts the real cache on it and
// compares what survived with the specification's survivors.
func RunRestart(cases []RestartCase, seed int64, stride int) (runs []RestartRun, viols []drv.Violation, err error) {
	rng := rand.New(rand.NewSource(seed))
	for ci, c := range cases {
		if stride > 1 && (ci+int(seed))%stride != 0 {
			continue
		}
		dir, e := os.MkdirTemp("", "vh-restart")
		if e != nil {
			return runs, viols, e
		}
		mode := []string{"zstd", "uncompressed"}[rng.Intn(2)]
		// old layouts carry no suffix: two files of one key cannot both be old-layout files
		files, kinds, layouts, e := materialise(dir, c, rng, true)
		if e != nil {
			os.RemoveAll(dir)
			return runs, viols, e
		}
		run := RestartRun{Case: c, Kinds: kinds, Layouts: layouts, Mode: mode}
		bad := func(f string, a ...any) {
			viols = append(viols, drv.Violation{Prop: "C09", What: fmt.Sprintf("population %v kinds=%v layouts=%v max_size=%d blocks, restart in %s mode: ", c.Files, kinds, layouts, c.Max, mode) + fmt.Sprintf(f, a...), Hist: ci})
		}
		cch, e := disk.New(dir, int64(c.Max)*4096, disk.WithAccessLogger(drv.Silent()), disk.WithStorageMode(mode))
		if e != nil {
			bad("start-up failed: %v", e)
			runs = append(runs, run)
			os.RemoveAll(dir)
			continue
		}
		run.Started = true
		rec.WaitIdle(cch, 10*time.Second)
		// which files survived, by looking at the index snapshot (does not touch recency)
		snap := disk.VerifSnapshot(cch)
		idx := map[string]disk.VerifEntry{}
		for _, en := range snap.Entries {
			idx[en.Key] = en
		}
		want := map[int]bool{}
		for _, s := range c.Survivors {
			want[s] = true
		}
		ctx := context.Background()
		for i, f := range files {
			key := cache.LookupKey(f.lookup, f.hash)
			en, present := idx[key]
			// is it *this* file (and not the other version of the key)?
			mine := present && en.Size == int64(len(f.data))
			if present && (f.kind == fmtw.AC || f.kind == fmtw.RAW) {
				// duplicates of AC/RAW keys differ in content: compare bytes
				rc, _, ge := cch.Get(ctx, f.lookup, f.hash, -1, 0)
				mine = false
				if ge == nil && rc != nil {
					b, _ := io.ReadAll(rc)
					rc.Close()
					mine = bytes.Equal(b, f.data)
				}
			}
			if mine {
				run.Present = append(run.Present, i+1)
			}
			switch {
			case want[i+1] && !mine:
				bad("file %d (key %s, %d blocks) fits and should have survived, but is not served", i+1, c.Files[i].Key, c.Files[i].Size)
			case !want[i+1] && mine && twinWanted(files, want, i):
				// another file of the key with the same bytes is the survivor: indistinguishable, and fine
			case !want[i+1] && mine:
				bad("file %d (key %s, %d blocks) should have been evicted (older / surplus), but is still served", i+1, c.Files[i].Key, c.Files[i].Size)
			}
			if want[i+1] && mine && (f.kind == fmtw.CAS || f.kind == fmtw.CASLegacy) {
				rc, sz, ge := cch.Get(ctx, cache.CAS, f.hash, int64(len(f.data)), 0)
				if ge != nil || rc == nil {
					bad("survivor %d is indexed but cannot be read: %v", i+1, ge)
				} else {
					b, _ := io.ReadAll(rc)
					rc.Close()
					if !bytes.Equal(b, f.data) || sz != int64(len(f.data)) {
						bad("survivor %d reads back %d bytes (size %d), content differs from what was on disk", i+1, len(b), sz)
					}
				}
			}
		}
		// accounting = directory
		rec.WaitIdle(cch, 10*time.Second)
		s2, d2, e := rec.Snapshot(cch, true, true)
		if e == nil {
			for _, v := range drv.CheckQuiescent(cch, s2, d2, ci, 0) {
				v.Prop = "C09"
				v.What = fmt.Sprintf("population %v max_size=%d blocks after restart: %s", c.Files, c.Max, v.What)
				viols = append(viols, v)
			}
		}
		// later evictions follow access-time order: survivors leave oldest first.
		// (the reads above refreshed recency in index order, oldest read first, so the
		// order is unchanged)
		if len(run.Present) >= 2 && len(run.Present) == len(c.Survivors) {
			order := append([]int{}, run.Present...)
			sort.Ints(order)
			// the probes above may have touched a key through its other version: touch the
			// survivors once more, oldest access time first, to re-establish that order
			for _, x := range order {
				f := files[x-1]
				cch.Contains(ctx, f.lookup, f.hash, -1)
			}
			for n := 0; n < len(order)-1; n++ {
				// one block of pressure at a time
				b := drv.MkBlob(drv.GenData(rng, 3000, 0))
				if e := cch.Put(ctx, cache.RAW, b.Hash, int64(len(b.Data)), bytes.NewReader(b.Data)); e != nil {
					break
				}
				rec.WaitIdle(cch, 10*time.Second)
				sn := disk.VerifSnapshot(cch)
				have := map[string]bool{}
				for _, en := range sn.Entries {
					have[en.Key] = true
				}
				// whatever is gone must be a prefix (oldest end) of the survivors
				goneSeen := false
				for k := len(order) - 1; k >= 0; k-- {
					f := files[order[k]-1]
					present := have[cache.LookupKey(f.lookup, f.hash)]
					if !present {
						goneSeen = true
					} else if goneSeen {
						bad("after start-up, pressure evicted a more recently accessed survivor while file %d (older access time) is still present", order[k])
						break
					}
				}
			}
		}
		runs = append(runs, run)
		os.RemoveAll(dir)
	}
	return runs, viols, nil
}
