package eng

import (
	"bytes"
	"context"
	"encoding/json"
	"fmt"
	"io"
	"math/rand"
	"net/http"
	"net/http/httptest"
	"net/url"
	"os"
	"path/filepath"
	"regexp"
	"strings"
	"sync"
	"time"

	"github.com/buchgr/bazel-remote/v2/cache"
	"github.com/buchgr/bazel-remote/v2/cache/azblobproxy"
	"github.com/buchgr/bazel-remote/v2/cache/grpcproxy"
	"github.com/buchgr/bazel-remote/v2/cache/httpproxy"
	"github.com/buchgr/bazel-remote/v2/cache/s3proxy"
	pb "github.com/buchgr/bazel-remote/v2/genproto/build/bazel/remote/execution/v2"
	"github.com/klauspost/compress/zstd"
	"github.com/minio/minio-go/v7"
	"github.com/minio/minio-go/v7/pkg/credentials"
	"google.golang.org/grpc"
	"google.golang.org/protobuf/proto"

	"verif/harness/internal/bk"
	"verif/harness/internal/drv"
	"verif/harness/internal/fe"
	"verif/harness/internal/fmtw"
	"verif/harness/internal/rec"
)

// FmtParam is one independent encoding whose header the specification lays out.
type FmtParam struct {
	ID       int     `json:"id"`
	Usize    int64   `json:"usize"`
	Ctype    int     `json:"ctype"`
	Csize    int64   `json:"csize"`
	Offsets  []int64 `json:"offsets"`
	Filesize int64   `json:"filesize"`
	Settings string  `json:"settings"`
}

// FmtHeader is what Format.tla renders for a FmtParam.
type FmtHeader struct {
	ID    int   `json:"id"`
	Bytes []int `json:"bytes"`
}

// FmtNameRow is one row of Format.tla's table of names.
type FmtNameRow struct {
	Kind      string `json:"kind"`
	Mode      string `json:"mode"`
	Prefix    string `json:"prefix"`
	File      string `json:"file"`
	FileOther string `json:"file_other"`
	Object    string `json:"object"`
	Azure     string `json:"azure"`
	HTTP      string `json:"http"`
	GrpcRead  bk.Req `json:"grpc_read"`
	GrpcWrite bk.Req `json:"grpc_write"`
}

// FmtRun describes one executed experiment.
type FmtRun struct {
	Part   string `json:"part"` // independent-file | written-file | backend-names
	What   string `json:"what"`
	Checks int    `json:"checks"`
}

const hdrFixed = 4 + 4 + 8 + 1 + 4 + 8

func encoderVariants() []struct {
	name string
	opts []zstd.EOption
} {
	return []struct {
		name string
		opts []zstd.EOption
	}{
		{"fastest", []zstd.EOption{zstd.WithEncoderLevel(zstd.SpeedFastest)}},
		{"default+crc", []zstd.EOption{zstd.WithEncoderLevel(zstd.SpeedDefault), zstd.WithEncoderCRC(true)}},
		{"better,nocrc", []zstd.EOption{zstd.WithEncoderLevel(zstd.SpeedBetterCompression), zstd.WithEncoderCRC(false)}},
		{"best,window64k", []zstd.EOption{zstd.WithEncoderLevel(zstd.SpeedBestCompression), zstd.WithWindowSize(64 << 10)}},
		{"default,noentropy", []zstd.EOption{zstd.WithEncoderLevel(zstd.SpeedDefault), zstd.WithNoEntropyCompression(true)}},
		{"fastest,window8M,singlesegment", []zstd.EOption{zstd.WithEncoderLevel(zstd.SpeedFastest), zstd.WithWindowSize(8 << 20), zstd.WithSingleSegment(true)}},
	}
}

// FormatPrep produces independent encodings: data, chunk frames and the field
// values of their headers (the header bytes come from the specification).
func FormatPrep(dir string, seed int64, tier string) (int, error) {
	rng := rand.New(rand.NewSource(seed))
	chunkSizes := []int{4096, 5000, 65536, 1 << 20, 3 << 20}
	if tier == "thorough" {
		chunkSizes = append(chunkSizes, 4097, 100000, 1<<20+1, 5<<20)
	}
	w, err := os.Create(filepath.Join(dir, "params.ndjson"))
	if err != nil {
		return 0, err
	}
	defer w.Close()
	id := 0
	vars := encoderVariants()
	for _, K := range chunkSizes {
		sizes := []int{1, K - 1, K, K + 1, 2 * K, 2*K + 1, 3*K + K/2}
		if K >= 1<<20 && tier != "thorough" {
			sizes = []int{K - 1, K + 1, 2*K + 1}
		}
		for _, n := range sizes {
			id++
			data := drv.GenData(rng, n, rng.Intn(3))
			ev := vars[rng.Intn(len(vars))]
			ctype := fmtw.TypeZstd
			if n < 70000 && rng.Intn(6) == 0 {
				ctype = fmtw.TypeIdentity
			}
			var frames [][]byte
			if ctype == fmtw.TypeIdentity {
				frames = [][]byte{data}
				ev.name = "identity"
			} else {
				enc, err := zstd.NewWriter(nil, append(ev.opts, zstd.WithEncoderConcurrency(1))...)
				if err != nil {
					return 0, err
				}
				for at := 0; at < n; at += K {
					end := at + K
					if end > n {
						end = n
					}
					frames = append(frames, enc.EncodeAll(data[at:end], nil))
				}
				enc.Close()
			}
			p := FmtParam{ID: id, Usize: int64(n), Ctype: ctype, Csize: int64(K), Settings: ev.name}
			at := int64(hdrFixed + 8*(len(frames)+1))
			var body []byte
			for _, f := range frames {
				p.Offsets = append(p.Offsets, at)
				at += int64(len(f))
				body = append(body, f...)
			}
			p.Offsets = append(p.Offsets, at)
			p.Filesize = at
			b, _ := json.Marshal(p)
			if _, err := w.Write(append(b, '\n')); err != nil {
				return 0, err
			}
			if err := os.WriteFile(filepath.Join(dir, fmt.Sprintf("%d.frames", id)), body, 0o644); err != nil {
				return 0, err
			}
			if err := os.WriteFile(filepath.Join(dir, fmt.Sprintf("%d.data", id)), data, 0o644); err != nil {
				return 0, err
			}
		}
	}
	return id, nil
}

// instantiate fills the placeholders of a name of the specification.
func instantiate(tmpl, hash string, size int64, suffix string) string {
	s := strings.ReplaceAll(tmpl, "HHASH", hash)
	s = strings.ReplaceAll(s, "HH", hash[:2])
	s = strings.ReplaceAll(s, "SSIZE", fmt.Sprint(size))
	s = strings.ReplaceAll(s, "SUFFIX", suffix)
	return s
}

// nameRegexp turns a file-name template into a regexp that captures the suffix.
func nameRegexp(tmpl, hash string, size int64) *regexp.Regexp {
	s := regexp.QuoteMeta(instantiate(tmpl, hash, size, "SUFFIX"))
	s = strings.ReplaceAll(s, "SUFFIX", "([0-9a-zA-Z]+)")
	return regexp.MustCompile("^" + s + "$")
}

func findRow(rows []FmtNameRow, kind, mode, prefix string) *FmtNameRow {
	for i := range rows {
		if rows[i].Kind == kind && rows[i].Mode == mode && rows[i].Prefix == prefix {
			return &rows[i]
		}
	}
	return nil
}

var suffixCatalogue = []string{"0", "1234567890", "abcXYZ789", "Z", "00000000000000000000000042", "aB3dE5gH7jK9"}

func validAR(rng *rand.Rand) []byte {
	ar := &pb.ActionResult{ExitCode: int32(rng.Intn(100)),
		ExecutionMetadata: &pb.ExecutedActionMetadata{Worker: fmt.Sprintf("worker-%d", rng.Int63())}}
	b, _ := proto.Marshal(ar)
	return b
}

// FormatRun executes the three parts; recordPath receives the headers of files the real writer produced.
func FormatRun(prepDir, headersPath, namesPath, recordPath string, seed int64, tier string) (runs []FmtRun, viols []drv.Violation, err error) {
	rng := rand.New(rand.NewSource(seed))
	var rows []FmtNameRow
	b, err := os.ReadFile(namesPath)
	if err == nil {
		err = json.Unmarshal(b, &rows)
	}
	if err != nil {
		return nil, nil, fmt.Errorf("names table: %w", err)
	}
	var headers []FmtHeader
	b, err = os.ReadFile(headersPath)
	if err == nil {
		err = json.Unmarshal(b, &headers)
	}
	if err != nil {
		return nil, nil, fmt.Errorf("rendered headers: %w", err)
	}
	hdrOf := map[int][]byte{}
	for _, h := range headers {
		bb := make([]byte, len(h.Bytes))
		for i, v := range h.Bytes {
			bb[i] = byte(v)
		}
		hdrOf[h.ID] = bb
	}
	var params []FmtParam
	pf, err := os.ReadFile(filepath.Join(prepDir, "params.ndjson"))
	if err != nil {
		return nil, nil, err
	}
	for _, l := range bytes.Split(bytes.TrimSpace(pf), []byte("\n")) {
		var p FmtParam
		if err := json.Unmarshal(l, &p); err != nil {
			return nil, nil, err
		}
		params = append(params, p)
	}
	bad := func(f string, a ...any) {
		viols = append(viols, drv.Violation{Prop: "C20", What: fmt.Sprintf(f, a...)})
	}

	// ---------------------------------------------------------------- part A: independent files
	rowZ := findRow(rows, "cas", "zstd", "")
	rowU := findRow(rows, "cas", "uncompressed", "")
	rowAC := findRow(rows, "ac", "zstd", "")
	rowRAW := findRow(rows, "raw", "zstd", "")
	if rowZ == nil || rowU == nil || rowAC == nil || rowRAW == nil {
		return nil, nil, fmt.Errorf("names table lacks rows")
	}
	dir, err := os.MkdirTemp("", "vh-fmt")
	if err != nil {
		return nil, nil, err
	}
	defer os.RemoveAll(dir)
	type indep struct {
		kind  cache.EntryKind
		hash  string
		data  []byte
		what  string
		csize int64
	}
	var pop []indep
	for _, p := range params {
		frames, e1 := os.ReadFile(filepath.Join(prepDir, fmt.Sprintf("%d.frames", p.ID)))
		data, e2 := os.ReadFile(filepath.Join(prepDir, fmt.Sprintf("%d.data", p.ID)))
		hb, ok := hdrOf[p.ID]
		if e1 != nil || e2 != nil || !ok {
			return nil, nil, fmt.Errorf("prepared encoding %d incomplete", p.ID)
		}
		hash := fmtw.Sha(data)
		name := instantiate(rowZ.File, hash, p.Usize, suffixCatalogue[rng.Intn(len(suffixCatalogue))])
		if err := fmtw.WriteFile(dir, name, append(append([]byte{}, hb...), frames...)); err != nil {
			return nil, nil, err
		}
		pop = append(pop, indep{cache.CAS, hash, data, fmt.Sprintf("compressed CAS file %s (chunk size %d, type %d, encoder %s, %d chunks, header laid out by Format.tla)", name, p.Csize, p.Ctype, p.Settings, len(p.Offsets)-1), p.Csize})
	}
	for i := 0; i < 6; i++ {
		data := drv.GenData(rng, []int{1, 4096, 70001, 1<<20 + 3, 333, 2 << 20}[i], rng.Intn(3))
		hash := fmtw.Sha(data)
		name := instantiate(rowU.File, hash, int64(len(data)), suffixCatalogue[rng.Intn(len(suffixCatalogue))])
		if err := fmtw.WriteFile(dir, name, data); err != nil {
			return nil, nil, err
		}
		pop = append(pop, indep{cache.CAS, hash, data, "uncompressed CAS file " + name, 0})
	}
	for i := 0; i < 4; i++ {
		data := validAR(rng)
		hash := fmtw.Sha([]byte(fmt.Sprintf("action %d %d", i, rng.Int63())))
		name := instantiate(rowAC.File, hash, 0, suffixCatalogue[rng.Intn(len(suffixCatalogue))])
		if err := fmtw.WriteFile(dir, name, data); err != nil {
			return nil, nil, err
		}
		pop = append(pop, indep{cache.AC, hash, data, "action cache file " + name, 0})
		data = drv.GenData(rng, 100+rng.Intn(5000), 0)
		hash = fmtw.Sha([]byte(fmt.Sprintf("raw %d %d", i, rng.Int63())))
		name = instantiate(rowRAW.File, hash, 0, suffixCatalogue[rng.Intn(len(suffixCatalogue))])
		if err := fmtw.WriteFile(dir, name, data); err != nil {
			return nil, nil, err
		}
		pop = append(pop, indep{cache.RAW, hash, data, "raw file " + name, 0})
	}
	impls := []string{"go"}
	if tier == "thorough" {
		impls = append(impls, "cgo")
	}
	for _, impl := range impls {
		for _, mode := range []string{"zstd", "uncompressed"} {
			f, e := fe.New(fe.Opts{Dir: dir, Mode: mode, Impl: impl, MaxSize: 4 << 30, NoValidateAC: true})
			if e != nil {
				bad("a directory of independently written v2 files is refused at start (%s mode, %s codec): %v", mode, impl, e)
				continue
			}
			for _, it := range pop {
				checks := 0
				n := len(it.data)
				eq := func(path string, got []byte, err error, off int) {
					checks++
					if err != nil {
						bad("%s: %s (%s mode, %s codec) failed: %v", it.what, path, mode, impl, err)
					} else if !bytes.Equal(got, it.data[off:]) {
						bad("%s: %s (%s mode, %s codec) delivered %d bytes that differ from the stored blob's bytes [%d, %d)", it.what, path, mode, impl, len(got), off, n)
					}
				}
				ctx := context.Background()
				offs := []int{0}
				if it.kind == cache.CAS && it.csize > 0 {
					for _, o := range []int64{1, it.csize - 1, it.csize, it.csize + 1, 2 * it.csize, int64(n) - 1} {
						if o > 0 && o < int64(n) {
							offs = append(offs, int(o))
						}
					}
				}
				for _, off := range offs {
					for _, known := range []int64{int64(n), -1} {
						if it.kind != cache.CAS && known == -1 && off == 0 {
							// fine: AC/RAW reads never know the size
						}
						rc, sz, e := f.Cache.Get(ctx, it.kind, it.hash, known, int64(off))
						var got []byte
						if e == nil && rc == nil {
							e = fmt.Errorf("not found")
						}
						if e == nil {
							got, e = io.ReadAll(rc)
							rc.Close()
							if sz != int64(n) {
								bad("%s: Get reports size %d, the blob has %d bytes", it.what, sz, n)
							}
						}
						eq(fmt.Sprintf("Get(size=%d, offset=%d)", known, off), got, e, off)
					}
					if it.kind == cache.CAS {
						rc, _, e := f.Cache.GetZstd(ctx, it.hash, int64(n), int64(off))
						var got []byte
						if e == nil && rc == nil {
							e = fmt.Errorf("not found")
						}
						if e == nil {
							var raw []byte
							raw, e = io.ReadAll(rc)
							rc.Close()
							if e == nil {
								got, e = fmtw.DecodeZstdStream(raw)
							}
						}
						eq(fmt.Sprintf("GetZstd(offset=%d)", off), got, e, off)
						got, e = bsRead(f, fmt.Sprintf("blobs/%s/%d", it.hash, n), int64(off), 0)
						eq(fmt.Sprintf("ByteStream.Read(offset=%d)", off), got, e, off)
					}
				}
				switch it.kind {
				case cache.CAS:
					c, body, _, e := f.HTTPDo(http.MethodGet, "/cas/"+it.hash, nil, nil)
					if e == nil && c != 200 {
						e = fmt.Errorf("status %d", c)
					}
					eq("HTTP GET", body, e, 0)
					ok, sz := f.Cache.Contains(ctx, cache.CAS, it.hash, int64(n))
					if !ok || sz != int64(n) {
						bad("%s: Contains answers (%v, %d)", it.what, ok, sz)
					}
				case cache.AC:
					cctx, cancel := fe.Ctx()
					ar, e := f.AC.GetActionResult(cctx, &pb.GetActionResultRequest{ActionDigest: &pb.Digest{Hash: it.hash, SizeBytes: 1}})
					cancel()
					want := &pb.ActionResult{}
					_ = proto.Unmarshal(it.data, want)
					checks++
					if e != nil || !proto.Equal(ar, want) {
						bad("%s: GetActionResult (%s mode) returned %v, %v", it.what, mode, ar, e)
					}
				case cache.RAW:
					c, body, _, e := f.HTTPDo(http.MethodGet, "/ac/"+it.hash, nil, nil)
					if e == nil && c != 200 {
						e = fmt.Errorf("status %d", c)
					}
					eq("HTTP GET /ac/ without validation", body, e, 0)
				}
				runs = append(runs, FmtRun{"independent-file", fmt.Sprintf("%s / %s / %s", it.what, mode, impl), checks})
			}
			f.Close()
		}
	}

	// ---------------------------------------------------------------- part B: files written by this build
	recW, err := os.Create(recordPath)
	if err != nil {
		return runs, viols, err
	}
	defer recW.Close()
	sizesB := []int{1, 100, 4095, 4097, 1<<20 - 1, 1 << 20, 1<<20 + 1, 2<<20 + 5}
	if tier == "thorough" {
		sizesB = append(sizesB, 3<<20, 5<<20+17, 65536)
	}
	type combo struct{ mode, impl string }
	combosB := []combo{{"zstd", "go"}, {"uncompressed", "go"}}
	if tier == "thorough" {
		combosB = append(combosB, combo{"zstd", "cgo"}, combo{"uncompressed", "cgo"})
	}
	for _, cb := range combosB {
		f, e := fe.New(fe.Opts{Mode: cb.mode, Impl: cb.impl, MaxSize: 1 << 30, NoValidateAC: true})
		if e != nil {
			return runs, viols, e
		}
		type written struct {
			kind string
			hash string
			data []byte
		}
		var ws []written
		ctx := context.Background()
		for i, n := range sizesB {
			data := drv.GenData(rng, n, i%3)
			hash := fmtw.Sha(data)
			switch i % 3 {
			case 0:
				e = f.Cache.Put(ctx, cache.CAS, hash, int64(n), bytes.NewReader(data))
			case 1:
				var c int
				c, _, _, e = f.HTTPDo(http.MethodPut, "/cas/"+hash, data, nil)
				if e == nil && c != 200 {
					e = fmt.Errorf("status %d", c)
				}
			default:
				cctx, cancel := fe.Ctx()
				var r *pb.BatchUpdateBlobsResponse
				r, e = f.CAS.BatchUpdateBlobs(cctx, &pb.BatchUpdateBlobsRequest{Requests: []*pb.BatchUpdateBlobsRequest_Request{{Digest: &pb.Digest{Hash: hash, SizeBytes: int64(n)}, Data: data}}})
				cancel()
				if e == nil && r.Responses[0].Status.GetCode() != 0 {
					e = fmt.Errorf("%v", r.Responses[0].Status)
				}
			}
			if e != nil {
				return runs, viols, fmt.Errorf("upload failed: %w", e)
			}
			ws = append(ws, written{"cas", hash, data})
		}
		for i := 0; i < 3; i++ {
			ar := &pb.ActionResult{}
			arb := validAR(rng)
			_ = proto.Unmarshal(arb, ar)
			hash := fmtw.Sha([]byte(fmt.Sprintf("act %d %d", i, rng.Int63())))
			cctx, cancel := fe.Ctx()
			_, e := f.AC.UpdateActionResult(cctx, &pb.UpdateActionResultRequest{ActionDigest: &pb.Digest{Hash: hash, SizeBytes: 3}, ActionResult: ar})
			cancel()
			if e != nil {
				return runs, viols, e
			}
			ws = append(ws, written{"ac", hash, arb})
			raw := drv.GenData(rng, 200+i, 0)
			hash = fmtw.Sha([]byte(fmt.Sprintf("rawk %d %d", i, rng.Int63())))
			c, _, _, e := f.HTTPDo(http.MethodPut, "/ac/"+hash, raw, nil)
			if e != nil || c != 200 {
				return runs, viols, fmt.Errorf("raw PUT: %v %d", e, c)
			}
			ws = append(ws, written{"raw", hash, raw})
		}
		rec.WaitIdle(f.Cache, 5*time.Second)
		entries, e := rec.ListDir(f.Dir)
		if e != nil {
			return runs, viols, e
		}
		claimed := map[string]bool{}
		for _, w := range ws {
			row := findRow(rows, w.kind, cb.mode, "")
			re := nameRegexp(row.File, w.hash, int64(len(w.data)))
			var match, suffix string
			for _, en := range entries {
				if m := re.FindStringSubmatch(filepath.ToSlash(en.Path)); m != nil {
					match, suffix = en.Path, m[1]
				}
			}
			checks := 1
			if match == "" {
				var near []string
				for _, en := range entries {
					if strings.Contains(en.Path, w.hash) {
						near = append(near, en.Path)
					}
				}
				bad("%s entry of %d bytes written in %s mode (%s codec): no file named %s; files of that key: %v", w.kind, len(w.data), cb.mode, cb.impl, instantiate(row.File, w.hash, int64(len(w.data)), "<suffix>"), near)
				continue
			}
			claimed[match] = true
			fb, e := os.ReadFile(filepath.Join(f.Dir, match))
			if e != nil {
				return runs, viols, e
			}
			if w.kind == "cas" && cb.mode == "zstd" {
				got, h, e := fmtw.DecodeCAS(fb)
				checks += 3
				if e != nil {
					bad("file %s written by this build (%s codec) is not readable by the independent reader: %v", match, cb.impl, e)
				} else if !bytes.Equal(got, w.data) {
					bad("file %s written by this build (%s codec) decodes to different bytes", match, cb.impl)
				}
				if whole, e := fmtw.DecodeZstdStream(fb); e != nil || !bytes.Equal(whole, w.data) {
					bad("file %s written by this build is not a plain zstd stream of the blob (header must be a skippable frame): %v", match, e)
				}
				hl := len(fb)
				if h != nil {
					hl = hdrFixed + 8*len(h.Offsets)
				} else if hl > 4096 {
					hl = 4096
				}
				head := make([]int, hl)
				for i := range head {
					head[i] = int(fb[i])
				}
				line, _ := json.Marshal(map[string]any{"name": filepath.ToSlash(match), "hash": w.hash, "suffix": suffix, "namesize": len(w.data), "filesize": len(fb), "chunksize": 1 << 20, "head": head})
				if _, e := recW.Write(append(line, '\n')); e != nil {
					return runs, viols, e
				}
			} else {
				checks++
				if !bytes.Equal(fb, w.data) {
					bad("file %s (%s, %s mode) does not hold the uploaded bytes verbatim", match, w.kind, cb.mode)
				}
			}
			runs = append(runs, FmtRun{"written-file", fmt.Sprintf("%s %d bytes %s/%s -> %s", w.kind, len(w.data), cb.mode, cb.impl, match), checks})
		}
		for _, en := range entries {
			if !claimed[en.Path] {
				bad("file %s in the directory written by this build (%s mode) is not named by the format for any uploaded entry", en.Path, cb.mode)
			}
		}
		f.Close()
	}

	// ---------------------------------------------------------------- part C: backend names and objects
	for _, mode := range []string{"zstd", "uncompressed"} {
		for _, prefix := range []string{"", "p", "p/q", "p/", "a//b", "./a"} {
			for _, backend := range []string{"http", "s3", "grpc", "azblob"} {
				if backend == "grpc" && prefix != "" {
					continue // a gRPC backend has no prefix
				}
				if backend == "http" && (strings.Contains(prefix, "//") || strings.HasPrefix(prefix, ".") || strings.HasSuffix(prefix, "/")) {
					continue // an HTTP backend takes a base URL, not a key prefix
				}
				n, e := backendNames(rows, backend, mode, prefix, rng, bad)
				if e != nil {
					return runs, viols, fmt.Errorf("backend %s/%s/%q: %w", backend, mode, prefix, e)
				}
				runs = append(runs, FmtRun{"backend-names", fmt.Sprintf("%s backend, %s mode, prefix %q", backend, mode, prefix), n})
			}
		}
	}
	return runs, viols, nil
}

func waitFor(cond func() bool, d time.Duration) bool {
	end := time.Now().Add(d)
	for time.Now().Before(end) {
		if cond() {
			return true
		}
		time.Sleep(5 * time.Millisecond)
	}
	return cond()
}

// backendNames drives a real proxy client (through a real disk cache where
// possible) and compares the names it uses with the specification's.
func backendNames(rows []FmtNameRow, backend, mode, prefix string, rng *rand.Rand, bad func(string, ...any)) (int, error) {
	checks := 0
	lg := drv.Silent()
	type ent struct {
		kind cache.EntryKind
		row  *FmtNameRow
		hash string
		data []byte // logical content
		disk []byte // on-disk / on-backend representation written by the independent writer
	}
	mk := func(kind cache.EntryKind, ks string, n int) ent {
		e := ent{kind: kind, row: findRow(rows, ks, mode, prefix)}
		switch kind {
		case cache.CAS:
			e.data = drv.GenData(rng, n, rng.Intn(3))
			e.hash = fmtw.Sha(e.data)
			if mode == "zstd" {
				e.disk, _ = fmtw.EncodeCAS(e.data, 70000, zstd.SpeedDefault)
			} else {
				e.disk = e.data
			}
		case cache.AC:
			e.data = validAR(rng)
			e.hash = fmtw.Sha([]byte(fmt.Sprint("k", rng.Int63())))
			e.disk = e.data
		default:
			e.data = drv.GenData(rng, n, 0)
			if backend == "grpc" {
				e.data = validAR(rng) // REAPI carries raw entries as action results
			}
			e.hash = fmtw.Sha([]byte(fmt.Sprint("r", rng.Int63())))
			e.disk = e.data
		}
		return e
	}
	where := fmt.Sprintf("%s backend, %s mode, prefix %q", backend, mode, prefix)

	if backend == "azblob" {
		// the real client, pointed at a local recorder: which blob does it ask for, fetch and write?
		var mu sync.Mutex
		var seen []string
		srv := httptest.NewServer(http.HandlerFunc(func(w http.ResponseWriter, r *http.Request) {
			_, _ = io.Copy(io.Discard, r.Body)
			mu.Lock()
			seen = append(seen, r.Method+" "+r.URL.EscapedPath())
			mu.Unlock()
			if r.Method == http.MethodPut {
				w.WriteHeader(http.StatusCreated)
				return
			}
			w.Header().Set("x-ms-error-code", "BlobNotFound")
			w.WriteHeader(http.StatusNotFound)
		}))
		defer srv.Close()
		p := azblobproxy.New("acct", "container", prefix, nil, "", false, mode, lg, lg, 1, 10)
		if err := azblobproxy.VerifRedirect(p, srv.URL); err != nil {
			return checks, err
		}
		for _, ks := range []string{"cas", "ac", "raw"} {
			kind := map[string]cache.EntryKind{"cas": cache.CAS, "ac": cache.AC, "raw": cache.RAW}[ks]
			e := mk(kind, ks, 100)
			got := azblobproxy.VerifObjectKey(p, e.hash, kind)
			checks++
			if want := instantiate(e.row.Object, e.hash, 0, ""); got != want {
				bad("%s: object key of a %s entry is %q, the format says %q", where, ks, got, want)
			}
			// the blob name on the wire
			want := "/container/" + instantiate(e.row.Azure, e.hash, 0, "")
			for _, op := range []string{"HEAD", "GET", "PUT"} {
				mu.Lock()
				seen = nil
				mu.Unlock()
				ctx, cancel := context.WithTimeout(context.Background(), 10*time.Second)
				switch op {
				case "HEAD":
					p.Contains(ctx, kind, e.hash, int64(len(e.data)))
				case "GET":
					if rc, _, _ := p.Get(ctx, kind, e.hash, int64(len(e.data))); rc != nil {
						rc.Close()
					}
				case "PUT":
					tf, err := os.CreateTemp("", "vh-az")
					if err != nil {
						cancel()
						return checks, err
					}
					_, _ = tf.Write(e.disk)
					_, _ = tf.Seek(0, 0)
					p.Put(ctx, kind, e.hash, int64(len(e.data)), int64(len(e.disk)), tf)
					waitFor(func() bool { mu.Lock(); defer mu.Unlock(); return len(seen) > 0 }, 30*time.Second)
					os.Remove(tf.Name())
				}
				cancel()
				mu.Lock()
				reqs := append([]string{}, seen...)
				mu.Unlock()
				checks++
				found := false
				for _, r := range reqs {
					if un, err := url.PathUnescape(strings.SplitN(r, " ", 2)[1]); err == nil && strings.HasPrefix(r, op+" ") && un == want {
						found = true
					}
				}
				if !found {
					bad("%s: %s of a %s entry goes to %v, the format says the blob is %q", where, op, ks, reqs, want)
				}
			}
		}
		return checks, nil
	}

	// the store and the proxy constructor
	var store *bk.HTTPStore
	var tap *bk.GRPCTap
	var peer *fe.Fixture
	var mkProxy func() (cache.Proxy, func(), error)
	objPath := func(e ent) string { return "" }
	switch backend {
	case "http":
		store = bk.NewHTTPStore()
		defer store.Close()
		base := store.Srv.URL
		pp := ""
		if prefix != "" {
			pp = "/" + prefix
		}
		objPath = func(e ent) string { return pp + instantiate(e.row.HTTP, e.hash, 0, "") }
		mkProxy = func() (cache.Proxy, func(), error) {
			u, _ := url.Parse(base + pp)
			tr := &http.Transport{}
			p, err := httpproxy.New(u, mode, &http.Client{Transport: tr}, lg, lg, 2, 100)
			return p, tr.CloseIdleConnections, err
		}
	case "s3":
		store = bk.NewHTTPStore()
		defer store.Close()
		objPath = func(e ent) string { return "/bucket/" + instantiate(e.row.Object, e.hash, 0, "") }
		mkProxy = func() (cache.Proxy, func(), error) {
			p := s3proxy.New(strings.TrimPrefix(store.Srv.URL, "http://"), "bucket", minio.BucketLookupPath, prefix,
				credentials.NewStaticV4("AKIAVERIF", "secret", ""), true, false, "us-east-1", 4, mode, lg, lg, 2, 100)
			return p, func() {}, nil
		}
	case "grpc":
		tap = &bk.GRPCTap{}
		var err error
		peer, err = fe.New(fe.Opts{Mode: mode, MaxSize: 1 << 30, NoDepsCheck: true,
			GRPCOpts: []grpc.ServerOption{grpc.ChainUnaryInterceptor(tap.Unary), grpc.ChainStreamInterceptor(tap.Stream)}})
		if err != nil {
			return 0, err
		}
		defer peer.Close()
		mkProxy = func() (cache.Proxy, func(), error) {
			cl := grpcproxy.NewGrpcClients(peer.Conn)
			if err := cl.CheckCapabilities(mode == "zstd"); err != nil {
				return nil, nil, err
			}
			return grpcproxy.New(cl, mode, lg, lg, 2, 100), func() {}, nil
		}
	}
	requests := func() []bk.Req {
		if tap != nil {
			rs := tap.Requests()
			for i := range rs {
				rs[i].Name = bk.NormUUID(rs[i].Name)
			}
			return rs
		}
		return store.Requests()
	}

	// 1. uploads through a real cache hand the entry to the backend under the format's name, in the format's encoding
	p1, done1, err := mkProxy()
	if err != nil {
		return 0, err
	}
	f1, err := fe.New(fe.Opts{Mode: mode, MaxSize: 1 << 30, Proxy: p1, NoValidateAC: true})
	if err != nil {
		return 0, err
	}
	ups := []ent{mk(cache.CAS, "cas", 1<<20+77), mk(cache.CAS, "cas", 300), mk(cache.AC, "ac", 0), mk(cache.RAW, "raw", 500)}
	ctx := context.Background()
	for _, e := range ups {
		var uerr error
		switch e.kind {
		case cache.CAS:
			uerr = f1.Cache.Put(ctx, cache.CAS, e.hash, int64(len(e.data)), bytes.NewReader(e.data))
		case cache.AC:
			ar := &pb.ActionResult{}
			_ = proto.Unmarshal(e.data, ar)
			cctx, cancel := fe.Ctx()
			_, uerr = f1.AC.UpdateActionResult(cctx, &pb.UpdateActionResultRequest{ActionDigest: &pb.Digest{Hash: e.hash, SizeBytes: 5}, ActionResult: ar})
			cancel()
		default:
			c, _, _, e2 := f1.HTTPDo(http.MethodPut, "/ac/"+e.hash, e.data, nil)
			if e2 != nil || c != 200 {
				uerr = fmt.Errorf("raw PUT %v %d", e2, c)
			}
		}
		if uerr != nil {
			return 0, fmt.Errorf("upload: %w", uerr)
		}
	}
	// wait for the asynchronous uploads
	arrived := func(e ent) bool {
		if store != nil {
			_, ok := store.Get(objPath(e))
			return ok
		}
		switch e.kind {
		case cache.CAS:
			ok, _ := peer.Cache.Contains(ctx, cache.CAS, e.hash, int64(len(e.data)))
			return ok
		default:
			ok, _ := peer.Cache.Contains(ctx, cache.AC, e.hash, -1)
			return ok
		}
	}
	for _, e := range ups {
		checks++
		if !waitFor(func() bool { return arrived(e) }, 10*time.Second) {
			var have []string
			if store != nil {
				have = store.Paths()
			}
			bad("%s: an accepted %s upload did not arrive under the name the format gives (%s); backend holds %v", where, e.row.Kind, objPath(e), have)
			continue
		}
		if store != nil {
			obj, _ := store.Get(objPath(e))
			checks++
			if e.kind == cache.CAS && mode == "zstd" {
				got, _, derr := fmtw.DecodeCAS(obj)
				if derr != nil || !bytes.Equal(got, e.data) {
					bad("%s: the object stored for a CAS blob is not a v2 CAS file of that blob (independent reader: %v)", where, derr)
				}
			} else if !bytes.Equal(obj, e.data) {
				bad("%s: the object stored for a %s entry is not the entry verbatim", where, e.row.Kind)
			}
		}
	}
	waitFor(func() bool {
		if store != nil {
			return store.ActiveNow() == 0
		}
		return tap.ActiveNow() == 0
	}, 3*time.Second)
	seen := requests()
	for _, r := range seen {
		checks++
		ok := false
		for _, e := range ups {
			if store != nil && r.Name == objPath(e) {
				ok = true
			}
			if tap != nil {
				w := e.row.GrpcWrite
				w.Name = instantiate(w.Name, e.hash, int64(len(e.data)), "")
				rd := e.row.GrpcRead
				rd.Name = instantiate(rd.Name, e.hash, int64(len(e.data)), "")
				if r == w || r == rd || r.Method == "FindMissingBlobs" || r.Method == "Fetch.FetchBlob" {
					ok = true
				}
				if e.kind == cache.RAW && r.Method == "UpdateActionResult" && r.Name == e.hash {
					ok = true
				}
			}
		}
		if !ok {
			bad("%s: the backend was addressed with %s %q, which is not a name the format gives to any uploaded entry", where, r.Method, r.Name)
		}
	}
	if tap != nil {
		for _, e := range ups {
			w := e.row.GrpcWrite
			w.Name = instantiate(w.Name, e.hash, int64(len(e.data)), "")
			found := false
			for _, r := range seen {
				if r == w {
					found = true
				}
			}
			checks++
			if !found {
				bad("%s: upload of a %s entry did not use %s %q", where, e.row.Kind, w.Method, w.Name)
			}
		}
	}
	f1.Close()
	done1()

	// 2. entries laid down by an independent writer under the format's names are found and served identically
	indep := []ent{mk(cache.CAS, "cas", 200001), mk(cache.CAS, "cas", 1), mk(cache.AC, "ac", 0), mk(cache.RAW, "raw", 900)}
	if store != nil {
		for _, e := range indep {
			store.Put(objPath(e), e.disk)
		}
	} else {
		for _, e := range indep {
			if e.kind == cache.CAS {
				if err := peer.Cache.Put(ctx, cache.CAS, e.hash, int64(len(e.data)), bytes.NewReader(e.data)); err != nil {
					return 0, err
				}
			} else {
				if err := peer.Cache.Put(ctx, cache.AC, e.hash, int64(len(e.data)), bytes.NewReader(e.data)); err != nil {
					return 0, err
				}
			}
		}
	}
	requests()
	p2, done2, err := mkProxy()
	if err != nil {
		return 0, err
	}
	f2, err := fe.New(fe.Opts{Mode: mode, MaxSize: 1 << 30, Proxy: p2, NoValidateAC: true})
	if err != nil {
		return 0, err
	}
	for _, e := range indep {
		checks += 2
		kind := e.kind
		if backend == "grpc" && kind == cache.RAW {
			kind = cache.AC // written to the peer's action cache above
		}
		size := int64(len(e.data))
		if kind != cache.CAS {
			size = -1
		}
		if kind == cache.CAS {
			ok, sz := f2.Cache.Contains(ctx, kind, e.hash, size)
			if !ok || (sz != int64(len(e.data)) && sz != -1) {
				bad("%s: a blob the backend holds under %s is reported absent or with another size (Contains = %v, %d)", where, objPath(e), ok, sz)
			}
		}
		rc, sz, gerr := f2.Cache.Get(ctx, kind, e.hash, size, 0)
		if gerr == nil && rc == nil {
			gerr = fmt.Errorf("miss")
		}
		var got []byte
		if gerr == nil {
			got, gerr = io.ReadAll(rc)
			rc.Close()
		}
		if gerr != nil || !bytes.Equal(got, e.data) || sz != int64(len(e.data)) {
			bad("%s: a %s entry the backend holds under the format's name is not served identically (size %d, %d bytes, %v)", where, e.row.Kind, sz, len(got), gerr)
		}
	}
	for _, r := range requests() {
		checks++
		ok := false
		for _, e := range indep {
			if store != nil && r.Name == objPath(e) {
				ok = true
			}
			if tap != nil {
				rd := e.row.GrpcRead
				rd.Name = instantiate(rd.Name, e.hash, int64(len(e.data)), "")
				if r == rd || r.Method == "FindMissingBlobs" || r.Method == "Fetch.FetchBlob" {
					ok = true
				}
			}
		}
		if !ok {
			bad("%s: a read addressed the backend with %s %q, which is not a name the format gives to the entry", where, r.Method, r.Name)
		}
	}
	f2.Close()
	done2()
	return checks, nil
}
