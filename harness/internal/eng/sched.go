package eng

import (
	"bytes"
	"context"
	"encoding/json"
	"errors"
	"fmt"
	"io"
	"math/rand"
	"os"
	"path/filepath"
	"sort"
	"strings"
	"sync"
	"time"

	"github.com/buchgr/bazel-remote/v2/cache"
	"github.com/buchgr/bazel-remote/v2/cache/disk"

	"verif/harness/internal/drv"
	"verif/harness/internal/fmtw"
	"verif/harness/internal/rec"
)

// A behaviour of CacheReplay.tla.
type SchedItem struct {
	Lsz int `json:"lsz"`
	Dsz int `json:"dsz"`
}
type SchedOp struct {
	Op    string    `json:"op"`
	Key   string    `json:"key"`
	Item  SchedItem `json:"item"`
	Known bool      `json:"known"`
	Cid   int       `json:"cid"`
}
type SchedIdx struct {
	Key string `json:"key"`
	Lsz int    `json:"lsz"`
	Dsz int    `json:"dsz"`
	Fid int    `json:"fid"`
}
type SchedFile struct {
	Fid   int    `json:"fid"`
	Key   string `json:"key"`
	State string `json:"state"`
	Dsz   int    `json:"dsz"`
}
type SchedRes struct {
	Res  string `json:"res"`
	Rcid int    `json:"rcid"`
}
type SchedObs struct {
	Idx     []SchedIdx          `json:"idx"`
	Cur     int                 `json:"cur"`
	Resv    int                 `json:"resv"`
	Unc     int                 `json:"unc"`
	Evq     []int               `json:"evq"`
	Evcur   int                 `json:"evcur"`
	Evstage string              `json:"evstage"`
	Files   []SchedFile         `json:"files"`
	Pc      map[string]string   `json:"pc"`
	Res     map[string]SchedRes `json:"res"`
}
type SchedStep struct {
	P   string   `json:"p"`
	Act string   `json:"act"`
	Op  SchedOp  `json:"op"`
	Obs SchedObs `json:"obs"`
}
type SchedBehaviour struct {
	Init struct {
		Corrupt bool `json:"corrupt"`
		Max     int  `json:"max"`
		Block   int  `json:"block"`
		Backend bool `json:"backend"`
	} `json:"init"`
	Steps []SchedStep `json:"steps"`
}

// SchedRun summarises one replayed behaviour.
type SchedRun struct {
	Steps     int      `json:"steps"`
	Acts      []string `json:"acts,omitempty"`
	Evictions int      `json:"evictions"`
	Overlaps  int      `json:"overlaps"` // steps taken while another request was in flight
}

const unit = 2048 // bytes per model size unit (Block = 2 units = 4096 bytes)

type parkEvt struct {
	who   string // proc name or "remover"
	point string // gate name, or "done"
}

type schedProc struct {
	name    string
	release chan struct{}
	parked  string // gate the goroutine is parked at, "" = running or not started, "done" = finished
	// the current request
	op      SchedOp
	result  string
	content []byte // bytes a hit delivered
	failWr  bool
}

type scheduler struct {
	mu      sync.Mutex
	lru     uint64
	byGoid  map[int64]*schedProc
	procs   map[string]*schedProc
	remover *schedProc
	events  chan parkEvt
}

func (s *scheduler) gate(lru uint64, g int64, point string) {
	if lru != s.lru {
		return
	}
	var p *schedProc
	if point == "evict" || point == "evict.unlinked" {
		p = s.remover
	} else {
		s.mu.Lock()
		p = s.byGoid[g]
		s.mu.Unlock()
	}
	if p == nil {
		return
	}
	s.events <- parkEvt{p.name, point}
	<-p.release
}

// waitFor waits until `who` parks or finishes; other goroutines must stay where they are.
func (s *scheduler) waitFor(who string, d time.Duration) (string, error) {
	t := time.NewTimer(d)
	defer t.Stop()
	for {
		select {
		case e := <-s.events:
			if e.who == who {
				return e.point, nil
			}
			if e.who == "remover" {
				// the remover reaches its gate by itself as soon as something is queued
				s.remover.parked = e.point
				continue
			}
			return "", fmt.Errorf("goroutine %s moved (%s) while %s was scheduled", e.who, e.point, who)
		case <-t.C:
			return "", fmt.Errorf("goroutine %s neither reached a gate nor finished within %v", who, d)
		}
	}
}

type errReader struct {
	data []byte
	pos  int
	fail *bool
}

func (r *errReader) Read(p []byte) (int, error) {
	if *r.fail && r.pos >= len(r.data)/2 {
		return 0, errors.New("client went away")
	}
	if r.pos >= len(r.data) {
		return 0, io.EOF
	}
	n := copy(p, r.data[r.pos:])
	if *r.fail && r.pos+n > len(r.data)/2 {
		n = len(r.data)/2 - r.pos
		if n <= 0 {
			return 0, errors.New("client went away")
		}
	}
	r.pos += n
	return n, nil
}

// RunSched replays behaviours of CacheReplay.tla on the real disk cache.
func RunSched(behaviours []SchedBehaviour, seed int64) (runs []SchedRun, viols []drv.Violation, err error) {
	rng := rand.New(rand.NewSource(seed))
	for bi, b := range behaviours {
		run, vv, e := schedOne(bi, b, rng)
		if e != nil {
			return runs, viols, fmt.Errorf("behaviour %d: %w", bi, e)
		}
		runs = append(runs, run)
		viols = append(viols, vv...)
	}
	return runs, viols, nil
}

func schedOne(bi int, b SchedBehaviour, rng *rand.Rand) (run SchedRun, viols []drv.Violation, err error) {
	dir, err := os.MkdirTemp("", "vh-sched")
	if err != nil {
		return run, nil, err
	}
	defer os.RemoveAll(dir)
	// key material
	casData := drv.GenData(rng, 1*unit, 0) // incompressible: the file is a little larger than the blob
	casHash := fmtw.Sha(casData)
	acHash := fmtw.Sha([]byte(fmt.Sprintf("sched-ac-%d-%d", bi, rng.Int63())))
	kindOf := map[string]cache.EntryKind{"k1": cache.CAS, "k2": cache.AC}
	hashOf := map[string]string{"k1": casHash, "k2": acHash}
	lookup := map[string]string{cache.LookupKey(cache.CAS, casHash): "k1", cache.LookupKey(cache.AC, acHash): "k2"}
	contentOf := func(key string, cid int, lsz int) []byte {
		if key == "k1" {
			return casData
		}
		d := bytes.Repeat([]byte{byte(cid)}, lsz*unit)
		copy(d, fmt.Sprintf("cid=%d;", cid))
		return d
	}
	fidPath := map[int]string{} // model file id -> path relative to the cache directory
	fidSize := map[int]int64{}
	fidCid := map[int]int{}
	if b.Init.Corrupt {
		rel := fmtw.RelName(fmtw.CAS, casHash, int64(unit), "000000001")
		garbage := drv.GenData(rng, unit+65, 0)
		if err := fmtw.WriteFile(dir, rel, garbage); err != nil {
			return run, nil, err
		}
		fidPath[1] = rel
		fidSize[1] = int64(len(garbage))
		fidCid[1] = -1
	}
	opts := []disk.Option{disk.WithStorageMode("zstd"), disk.WithAccessLogger(drv.Silent())}
	var fp *drv.FakeProxy
	if b.Init.Backend {
		fp = drv.NewFakeProxy()
		opts = append(opts, disk.WithProxyBackend(fp), disk.WithProxyMaxBlobSize(1<<40))
	}
	c, err := disk.New(dir, int64(b.Init.Max*unit), opts...)
	if err != nil {
		return run, nil, err
	}
	s := &scheduler{lru: disk.VerifLruID(c), byGoid: map[int64]*schedProc{}, procs: map[string]*schedProc{}, events: make(chan parkEvt, 16)}
	s.remover = &schedProc{name: "remover", release: make(chan struct{})}
	disk.VerifSetGate(s.gate)
	defer func() {
		disk.VerifSetGate(nil)
		// let everything run to its end
		for _, p := range s.procs {
			if p.parked != "" && p.parked != "done" {
				close(p.release)
			}
		}
		if s.remover.parked != "" {
			close(s.remover.release)
		}
	}()
	desc := func(i int) string {
		var acts []string
		for j := 0; j <= i && j < len(b.Steps); j++ {
			st := b.Steps[j]
			a := st.P + ":" + st.Act
			if strings.HasPrefix(st.Act, "Start") {
				a += fmt.Sprintf("(%s %s %d/%d known=%v)", st.Op.Op, st.Op.Key, st.Op.Item.Lsz, st.Op.Item.Dsz, st.Op.Known)
			}
			acts = append(acts, a)
		}
		return strings.Join(acts, " ")
	}
	badP := func(prop string, i int, f string, a ...any) {
		viols = append(viols, drv.Violation{Prop: prop, What: fmt.Sprintf("schedule [%s]: ", desc(i)) + fmt.Sprintf(f, a...), Hist: bi, Op: i})
	}
	bad := func(i int, f string, a ...any) { badP("C07", i, f, a...) }
	ctx := context.Background()
	launch := func(p *schedProc) {
		op := p.op
		p.result, p.content = "", nil
		p.failWr = false
		go func() {
			s.mu.Lock()
			s.byGoid[disk.VerifGoid()] = p
			s.mu.Unlock()
			kind, hash := kindOf[op.Key], hashOf[op.Key]
			switch op.Op {
			case "put":
				data := contentOf(op.Key, op.Cid, op.Item.Lsz)
				e := c.Put(ctx, kind, hash, int64(len(data)), &errReader{data: data, fail: &p.failWr})
				switch {
				case e == nil:
					p.result = "ok"
				default:
					var ce *cache.Error
					if errors.As(e, &ce) && ce.Code == 507 {
						p.result = "refused507"
					} else {
						p.result = "error"
					}
				}
			case "get":
				size := int64(op.Item.Lsz * unit)
				if !op.Known {
					size = -1
				}
				rc, _, e := c.Get(ctx, kind, hash, size, 0)
				var ce *cache.Error
				switch {
				case e != nil && errors.As(e, &ce) && ce.Code == 507:
					p.result = "refused507"
				case e != nil:
					p.result = "error"
				case rc == nil:
					p.result = "miss"
				default:
					p.content, _ = io.ReadAll(rc)
					rc.Close()
					p.result = "hit"
				}
			case "contains":
				ok, _ := c.Contains(ctx, kind, hash, -1)
				p.result = map[bool]string{true: "present", false: "absent"}[ok]
			}
			s.events <- parkEvt{p.name, "done"}
		}()
	}
	// gates that a request passes without doing anything observable when the specification does not stop there
	passable := map[string]bool{"put.cleanup": true, "put.unreserve": true, "get.cleanup": true, "get.unreserve": true,
		"get.looked": true, "get.precommit": true, "get.fetched": true}
	// advance p until it parks at one of the gates in want (or finishes); passable gates not in want are passed
	advance := func(p *schedProc, want []string) (string, error) {
		for {
			pt, e := s.waitFor(p.name, 10*time.Second)
			if e != nil {
				return "", e
			}
			if pt != "done" && !has(want, pt) && passable[pt] {
				p.release <- struct{}{}
				continue
			}
			p.parked = pt
			return pt, nil
		}
	}
	releaseAdvance := func(p *schedProc, want []string) (string, error) {
		if p.parked == "" || p.parked == "done" {
			return "", fmt.Errorf("%s is not parked at a gate", p.name)
		}
		p.parked = ""
		p.release <- struct{}{}
		return advance(p, want)
	}
	// where the code must be for a model program counter
	gateOf := map[string][]string{
		"put_create": {"put.reserved"}, "put_write": {"put.created"}, "put_commit": {"put.written"},
		"put_cleanup": {"put.committed", "put.cleanup"}, "unreserve": {"put.unreserve", "get.unreserve"},
		"get_open": {"get.looked"}, "get_slow": {"get.slow"}, "get_drop": {"get.drop"},
		"get_header":     {"get.drop", "get.prereserve", "get.proxy", "done"}, // the code validates the header right after opening
		"get_prereserve": {"get.prereserve"}, "get_proxy": {"get.proxy"}, "get_fetch": {"get.created"},
		"get_commit": {"get.fetched"}, "get_cleanup": {"get.cleanup"},
		"idle": {"done"},
	}
	// does the fetch that p starts now fail while copying? (the stream is handed out when the backend is asked)
	fetchFails := func(from int, who string) bool {
		for j := from + 1; j < len(b.Steps); j++ {
			if b.Steps[j].P == who && b.Steps[j].Act == "GetFetch" {
				return b.Steps[j].Obs.Pc[who] == "get_cleanup"
			}
			if b.Steps[j].P == who && strings.HasPrefix(b.Steps[j].Act, "Start") {
				break
			}
		}
		return false
	}
	for i, st := range b.Steps {
		run.Steps++
		inflight := 0
		for _, q := range s.procs {
			if q.parked != "" && q.parked != "done" {
				inflight++
			}
		}
		if inflight > 1 || (inflight == 1 && st.P != "remover") {
			run.Overlaps++
		}
		var p *schedProc
		if st.P == "remover" {
			p = s.remover
		} else {
			p = s.procs[st.P]
			if p == nil {
				p = &schedProc{name: st.P, release: make(chan struct{})}
				s.procs[st.P] = p
			}
		}
		var at string
		var e error
		wantAt := gateOf[st.Obs.Pc[st.P]]
		switch st.Act {
		case "StartPut", "StartGet", "StartContains":
			p.op = st.Op
			p.parked = ""
			continue // a choice, no step of the code
		case "PutReserve", "GetLookup", "ContainsLookup":
			launch(p)
			at, e = advance(p, wantAt)
		case "PutWrite":
			p.failWr = st.Obs.Pc[st.P] == "put_cleanup"
			at, e = releaseAdvance(p, wantAt)
		case "PutCleanup":
			if p.parked == "put.committed" {
				at, e = releaseAdvance(p, []string{"put.unreserve"})
			} else {
				at, e = releaseAdvance(p, wantAt)
			}
		case "GetHeader":
			at = p.parked // no step of the code: the header was validated when the file was opened
		case "GetProxy":
			if fp != nil {
				k := cache.LookupKey(kindOf[p.op.Key], hashOf[p.op.Key])
				if fetchFails(i, st.P) {
					fp.SetFault(k, drv.Fault{Kind: "midstreamErr", At: 7})
				} else {
					fp.SetFault(k, drv.Fault{})
				}
			}
			at, e = releaseAdvance(p, wantAt)
		case "EvictTake":
			// the remover takes what is queued by itself and stops before the first unlink
			if p.parked == "" {
				at, e = advance(p, []string{"evict"})
			} else {
				at = p.parked
			}
			if e == nil && at != "evict" {
				bad(i, "the remover is at %q, the specification has it holding an entry before the unlink", at)
			}
		case "EvictUnlink":
			at, e = releaseAdvance(p, []string{"evict.unlinked"})
			run.Evictions++
		case "EvictAccount":
			p.parked = ""
			p.release <- struct{}{}
			at = "account"
		default:
			at, e = releaseAdvance(p, wantAt)
		}
		if e != nil {
			bad(i, "the code does not follow the schedule: %v", e)
			return run, viols, nil
		}
		// control flow: the code is where the specification's program counter says
		if st.P != "remover" {
			if !has(wantAt, at) {
				bad(i, "after %s of %s the code is at %q, the specification's program counter is %q (expected %v)", st.Act, st.P, at, st.Obs.Pc[st.P], wantAt)
				return run, viols, nil
			}
			if st.Obs.Pc[st.P] == "idle" && at == "done" {
				want := st.Obs.Res[st.P]
				if p.result != want.Res {
					bad(i, "request of %s (%s %s) answered %q, the specification says %q", st.P, p.op.Op, p.op.Key, p.result, want.Res)
				}
				if want.Res == "hit" {
					exp := contentOf(p.op.Key, want.Rcid, len(p.content)/unit)
					if !bytes.Equal(p.content, exp) {
						bad(i, "hit of %s on %s delivered %d bytes that are not the content of upload #%d", st.P, p.op.Key, len(p.content), want.Rcid)
					}
				}
			}
		}
		// a file the specification created in this step: learn its path
		ents, _ := rec.ListDir(dir)
		onDisk := map[string]int64{}
		for _, en := range ents {
			onDisk[en.Path] = en.Size
		}
		known := map[string]bool{}
		for _, pth := range fidPath {
			known[pth] = true
		}
		for _, f := range st.Obs.Files {
			if _, ok := fidPath[f.Fid]; !ok {
				var fresh []string
				for pth := range onDisk {
					if !known[pth] {
						fresh = append(fresh, pth)
					}
				}
				sort.Strings(fresh)
				if len(fresh) != 1 {
					bad(i, "the specification creates file #%d in this step, the directory shows %d new files %v", f.Fid, len(fresh), fresh)
					return run, viols, nil
				}
				fidPath[f.Fid] = fresh[0]
				known[fresh[0]] = true
				fidCid[f.Fid] = p.op.Cid
			}
		}
		// the directory
		wantFiles := map[string]SchedFile{}
		for _, f := range st.Obs.Files {
			wantFiles[fidPath[f.Fid]] = f
		}
		for pth, f := range wantFiles {
			sz, ok := onDisk[pth]
			if !ok {
				badP("C04", i, "file #%d (%s, %s) exists in the specification, not in the directory", f.Fid, pth, f.State)
				continue
			}
			if f.State == "complete" {
				fidSize[f.Fid] = sz
				if int((sz+unit-1)/unit) != f.Dsz {
					bad(i, "file #%d (%s) has %d bytes, the specification says %d units of %d", f.Fid, pth, sz, f.Dsz, unit)
				}
			}
		}
		for pth := range onDisk {
			if _, ok := wantFiles[pth]; !ok {
				badP("C04", i, "file %s is in the directory, the specification has no such file now", pth)
			}
		}
		// the index and the counters
		var snap *disk.VerifSnap
		wantEvq := int64(0)
		for _, fid := range st.Obs.Evq {
			wantEvq += fidSize[fid]
		}
		if st.Obs.Evstage != "idle" {
			wantEvq += fidSize[st.Obs.Evcur]
		}
		for try := 0; try < 400; try++ { // the remover's last step is not followed by a gate
			snap = disk.VerifSnapshot(c)
			if st.Act != "EvictAccount" || snap.EvqSize == wantEvq {
				break
			}
			time.Sleep(time.Millisecond)
		}
		if snap.EvqSize != wantEvq {
			badP("C17", i, "deletion backlog counter is %d, the specification's queue %v (+ entry in hand %d, stage %s) amounts to %d", snap.EvqSize, st.Obs.Evq, st.Obs.Evcur, st.Obs.Evstage, wantEvq)
		}
		if snap.Cur != int64(st.Obs.Cur*unit) || snap.Resv != int64(st.Obs.Resv*unit) || snap.Unc != int64(st.Obs.Unc*unit) {
			badP("C03", i, "accounted / reserved / logical size are %d / %d / %d, the specification says %d / %d / %d", snap.Cur, snap.Resv, snap.Unc, st.Obs.Cur*unit, st.Obs.Resv*unit, st.Obs.Unc*unit)
		}
		var got, want []string
		for _, en := range snap.Entries {
			got = append(got, fmt.Sprintf("%s@%s", lookup[en.Key], en.Path))
		}
		for _, en := range st.Obs.Idx {
			want = append(want, fmt.Sprintf("%s@%s", en.Key, fidPath[en.Fid]))
		}
		if strings.Join(got, " ") != strings.Join(want, " ") {
			badP("C05", i, "index (most recent first) is [%s], the specification says [%s]", strings.Join(got, " "), strings.Join(want, " "))
		}
		if len(viols) > 0 {
			return run, viols, nil
		}
	}
	if len(run.Acts) == 0 && bi < 3 {
		for _, st := range b.Steps {
			run.Acts = append(run.Acts, st.P+":"+st.Act)
		}
	}
	return run, viols, nil
}

// LoadBehaviours reads the ndjson file of behaviours printed by TLC.
func LoadBehaviours(path string) ([]SchedBehaviour, error) {
	f, err := os.ReadFile(path)
	if err != nil {
		return nil, err
	}
	var out []SchedBehaviour
	for _, l := range bytes.Split(bytes.TrimSpace(f), []byte("\n")) {
		if len(l) == 0 {
			continue
		}
		var b SchedBehaviour
		if err := json.Unmarshal(l, &b); err != nil {
			return nil, err
		}
		out = append(out, b)
	}
	return out, nil
}

var _ = filepath.Join
