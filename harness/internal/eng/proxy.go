package eng

import (
	"bytes"
	"context"
	"fmt"
	"io"
	"math/rand"
	"net/http"
	"net/url"
	"os"
	"runtime"
	"strings"
	"time"

	"github.com/buchgr/bazel-remote/v2/cache"
	"github.com/buchgr/bazel-remote/v2/cache/grpcproxy"
	"github.com/buchgr/bazel-remote/v2/cache/httpproxy"
	"github.com/buchgr/bazel-remote/v2/cache/s3proxy"
	asset "github.com/buchgr/bazel-remote/v2/genproto/build/bazel/remote/asset/v1"
	pb "github.com/buchgr/bazel-remote/v2/genproto/build/bazel/remote/execution/v2"
	"github.com/klauspost/compress/zstd"
	"github.com/minio/minio-go/v7"
	"github.com/minio/minio-go/v7/pkg/credentials"
	"google.golang.org/genproto/googleapis/bytestream"
	"google.golang.org/grpc"
	"google.golang.org/grpc/codes"
	"google.golang.org/grpc/status"
	"google.golang.org/protobuf/proto"

	"verif/harness/internal/bk"
	"verif/harness/internal/drv"
	"verif/harness/internal/fe"
	"verif/harness/internal/fmtw"
	"verif/harness/internal/rec"
)

// PxCfg .. PxCase mirror Proxy.tla's table.
type PxCfg struct {
	Kind  string `json:"kind"`
	Mode  string `json:"mode"`
	Known bool   `json:"known"`
	Limit string `json:"limit"`
}
type PxExpect struct {
	Fault        string   `json:"fault"`
	Allowed      []string `json:"allowed"`
	CachedAfter  bool     `json:"cached_after"`
	BackendAsked bool     `json:"backend_asked"`
}
type PxCase struct {
	Cfg    PxCfg      `json:"cfg"`
	Script []string   `json:"script"`
	Expect []PxExpect `json:"expect"`
}

// PxRun is one executed script.
type PxRun struct {
	Backend string   `json:"backend"`
	Cfg     PxCfg    `json:"cfg"`
	Script  []string `json:"script"`
	Fronts  []string `json:"fronts"`
	Results []string `json:"results"`
	Size    int      `json:"size"`
	Cuts    []int    `json:"cuts,omitempty"`
}

// pxBackend is a backend of some kind that can hold objects and misbehave.
type pxBackend interface {
	name() string
	proxy() (cache.Proxy, error)
	store(kind cache.EntryKind, hash string, logical []byte, mode string)
	remove(kind cache.EntryKind, hash string, size int, mode string)
	// arm prepares the fault for the next Get of the entry; false = this transport cannot produce it
	arm(kind cache.EntryKind, hash string, logical []byte, known bool, mode string, fault string, at int) bool
	disarm()
	gets(kind cache.EntryKind, hash string, mode string) int // backend read requests for the entry so far
	busy() int
	objLen(kind cache.EntryKind, hash string, mode string) int
	close()
}

func onBackend(logical []byte, kind cache.EntryKind, mode string) []byte {
	if kind == cache.CAS && mode == "zstd" {
		b, _ := fmtw.EncodeCAS(logical, 1<<20, zstd.SpeedDefault)
		return b
	}
	return logical
}

// ---- interface-level fake
type fakeBk struct{ p *drv.FakeProxy }

func (b *fakeBk) name() string                { return "iface" }
func (b *fakeBk) proxy() (cache.Proxy, error) { return b.p, nil }
func (b *fakeBk) store(kind cache.EntryKind, hash string, logical []byte, mode string) {
	k := cache.LookupKey(kind, hash)
	b.p.SetObj(k, onBackend(logical, kind, mode), int64(len(logical)))
}
func (b *fakeBk) remove(kind cache.EntryKind, hash string, size int, mode string) {
	b.p.DelObj(cache.LookupKey(kind, hash))
}
func (b *fakeBk) arm(kind cache.EntryKind, hash string, logical []byte, known bool, mode string, fault string, at int) bool {
	m := map[string]string{"err": "err", "notFound": "notfound", "sizeUnknown": "unknownSize", "sizeWrong": "wrongSize",
		"streamErr": "midstreamErr", "streamShort": "short", "streamLong": "long"}
	b.p.SetFault(cache.LookupKey(kind, hash), drv.Fault{Kind: m[fault], At: at})
	return true
}
func (b *fakeBk) disarm() { b.p.ClearFaults() }
func (b *fakeBk) gets(kind cache.EntryKind, hash string, mode string) int {
	return b.p.GetCalls(cache.LookupKey(kind, hash))
}
func (b *fakeBk) busy() int { return b.p.OpenReaders() }
func (b *fakeBk) objLen(kind cache.EntryKind, hash string, mode string) int {
	return b.p.ObjLen(cache.LookupKey(kind, hash))
}
func (b *fakeBk) close() {}

// ---- HTTP and S3 object stores behind the real clients
type httpBk struct {
	s3      bool
	st      *bk.HTTPStore
	tr      *http.Transport
	saved   map[string][]byte
	counted map[string]int
}

func newHTTPBk(s3 bool) *httpBk {
	return &httpBk{s3: s3, st: bk.NewHTTPStore(), saved: map[string][]byte{}, counted: map[string]int{}}
}
func (b *httpBk) name() string {
	if b.s3 {
		return "s3"
	}
	return "http"
}
func (b *httpBk) path(kind cache.EntryKind, hash string, mode string) string {
	ks := kind.String()
	if kind == cache.CAS && mode == "zstd" {
		ks = "cas.v2"
	}
	if b.s3 {
		return "/bucket/" + ks + "/" + hash[:2] + "/" + hash
	}
	return "/" + ks + "/" + hash
}
func (b *httpBk) mode() string { return "" }
func (b *httpBk) proxyFor(mode string) (cache.Proxy, error) {
	lg := drv.Silent()
	if b.s3 {
		return s3proxy.New(strings.TrimPrefix(b.st.Srv.URL, "http://"), "bucket", minio.BucketLookupPath, "",
			credentials.NewStaticV4("AKIAVERIF", "secret", ""), true, false, "us-east-1", 4, mode, lg, lg, 2, 100), nil
	}
	u, _ := url.Parse(b.st.Srv.URL)
	b.tr = &http.Transport{}
	return httpproxy.New(u, mode, &http.Client{Transport: b.tr}, lg, lg, 2, 100)
}
func (b *httpBk) proxy() (cache.Proxy, error) { return nil, fmt.Errorf("use proxyFor") }
func (b *httpBk) store(kind cache.EntryKind, hash string, logical []byte, mode string) {
	b.st.Put(b.path(kind, hash, mode), onBackend(logical, kind, mode))
}
func (b *httpBk) remove(kind cache.EntryKind, hash string, size int, mode string) {
	b.st.Delete(b.path(kind, hash, mode))
}
func (b *httpBk) arm(kind cache.EntryKind, hash string, logical []byte, known bool, mode string, fault string, at int) bool {
	p := b.path(kind, hash, mode)
	compressed := kind == cache.CAS && mode == "zstd"
	switch fault {
	case "err":
		st := 500
		if b.s3 {
			st = 403 // the S3 client retries 5xx with back-off
		}
		if at%2 == 1 && !b.s3 {
			b.st.SetFault("GET", p, bk.HFault{Hangup: true, Forever: true}) // the HTTP transport retries once on a dead keep-alive connection
		} else {
			b.st.SetFault("GET", p, bk.HFault{Status: st})
		}
	case "notFound":
		b.st.SetFault("GET", p, bk.HFault{Status: 404})
	case "sizeUnknown":
		if compressed {
			return false // the size comes from the object itself
		}
		b.st.SetFault("GET", p, bk.HFault{NoLen: true})
	case "sizeWrong":
		return false // HTTP enforces Content-Length = body length; a consistent lie is another object
	case "streamErr":
		b.st.SetFault("GET", p, bk.HFault{Abort: true, CutAt: at})
	case "streamShort":
		b.st.SetFault("GET", p, bk.HFault{Clean: true, CutAt: at})
	case "streamLong":
		if !compressed && !known {
			return false // indistinguishable from a larger object of that name
		}
		obj, _ := b.st.Get(p)
		b.saved[p] = obj
		b.st.Put(p, append(append([]byte{}, obj...), []byte("trailing-garbage")...))
	}
	return true
}
func (b *httpBk) disarm() {
	b.st.ClearFaults()
	for p, o := range b.saved {
		b.st.Put(p, o)
	}
	b.saved = map[string][]byte{}
}
func (b *httpBk) gets(kind cache.EntryKind, hash string, mode string) int {
	for _, r := range b.st.Requests() {
		if r.Method == "GET" {
			b.counted[r.Name]++
		}
	}
	return b.counted[b.path(kind, hash, mode)]
}
func (b *httpBk) busy() int { return b.st.ActiveNow() }
func (b *httpBk) objLen(kind cache.EntryKind, hash string, mode string) int {
	o, _ := b.st.Get(b.path(kind, hash, mode))
	return len(o)
}
func (b *httpBk) close() {
	if b.tr != nil {
		b.tr.CloseIdleConnections()
	}
	b.st.Close()
}

// ---- a real peer server behind the real gRPC client
type grpcBk struct {
	mode    string
	peer    *fe.Fixture
	tap     *bk.GRPCTap
	counted map[string]int
}

func newGrpcBk(mode string) (*grpcBk, error) {
	b := &grpcBk{mode: mode, tap: &bk.GRPCTap{}, counted: map[string]int{}}
	var err error
	b.peer, err = fe.New(fe.Opts{Mode: mode, MaxSize: 4 << 30, NoDepsCheck: true,
		GRPCOpts: []grpc.ServerOption{grpc.ChainUnaryInterceptor(b.tap.Unary), grpc.ChainStreamInterceptor(b.tap.Stream)}})
	return b, err
}
func (b *grpcBk) name() string { return "grpc" }
func (b *grpcBk) proxy() (cache.Proxy, error) {
	cl := grpcproxy.NewGrpcClients(b.peer.Conn)
	if err := cl.CheckCapabilities(b.mode == "zstd"); err != nil {
		return nil, err
	}
	lg := drv.Silent()
	return grpcproxy.New(cl, b.mode, lg, lg, 2, 100), nil
}
func (b *grpcBk) store(kind cache.EntryKind, hash string, logical []byte, mode string) {
	k := kind
	if k == cache.RAW {
		k = cache.AC
	}
	_ = b.peer.Cache.Put(context.Background(), k, hash, int64(len(logical)), bytes.NewReader(logical))
}
func (b *grpcBk) remove(kind cache.EntryKind, hash string, size int, mode string) {
	// entries of a peer cannot be deleted through its API; scripts use fresh keys instead
}
func (b *grpcBk) arm(kind cache.EntryKind, hash string, logical []byte, known bool, mode string, fault string, at int) bool {
	readM := "ByteStream/Read"
	if kind != cache.CAS {
		readM = "GetActionResult"
	}
	switch fault {
	case "err":
		if kind == cache.CAS && !known && at%2 == 1 {
			b.tap.SetFault(bk.GFault{Method: "FetchBlob", Code: codes.Unavailable, AfterOut: -1})
		} else {
			b.tap.SetFault(bk.GFault{Method: readM, Code: codes.Unavailable, AfterOut: -1})
		}
	case "notFound":
		if kind == cache.CAS && !known {
			b.tap.SetFault(bk.GFault{Method: "FetchBlob", Mutate: func(r any) {
				if fr, ok := r.(*asset.FetchBlobResponse); ok {
					fr.Status = status.New(codes.NotFound, "not found").Proto()
					fr.BlobDigest = nil
				}
			}})
		} else {
			b.tap.SetFault(bk.GFault{Method: readM, Code: codes.NotFound, AfterOut: -1})
		}
	case "sizeUnknown":
		return false
	case "sizeWrong":
		if kind != cache.CAS || known {
			return false
		}
		b.tap.SetFault(bk.GFault{Method: "FetchBlob", Mutate: func(r any) {
			if fr, ok := r.(*asset.FetchBlobResponse); ok && fr.BlobDigest != nil {
				fr.BlobDigest.SizeBytes++
			}
		}})
	case "streamErr":
		if kind != cache.CAS {
			return false
		}
		b.tap.SetFault(bk.GFault{Method: readM, Code: codes.Unavailable, AfterOut: at})
	case "streamShort":
		if kind != cache.CAS {
			return false
		}
		b.tap.SetFault(bk.GFault{Method: readM, CleanEnd: true, AfterOut: at})
	case "streamLong":
		return false
	}
	return true
}
func (b *grpcBk) disarm() { b.tap.ClearFaults() }
func (b *grpcBk) gets(kind cache.EntryKind, hash string, mode string) int {
	for _, r := range b.tap.Requests() {
		if (r.Method == "ByteStream.Read" || r.Method == "GetActionResult") && strings.Contains(r.Name, hash) {
			b.counted[hash]++
		}
	}
	return b.counted[hash]
}
func (b *grpcBk) busy() int { return b.tap.ActiveNow() }
func (b *grpcBk) objLen(kind cache.EntryKind, hash string, mode string) int {
	// the length of the stream the peer sends for the entry
	if kind != cache.CAS || mode != "zstd" {
		return 0
	}
	rc, _, err := b.peer.Cache.GetZstd(context.Background(), hash, -1, 0)
	if err != nil || rc == nil {
		return 0
	}
	defer rc.Close()
	n, _ := io.Copy(io.Discard, rc)
	return int(n)
}
func (b *grpcBk) close() { b.peer.Close() }

// ----------------------------------------------------------------------------

func proxyGoroutines() (int, string) {
	buf := make([]byte, 8<<20)
	n := runtime.Stack(buf, true)
	cnt := 0
	var sample string
	for _, g := range strings.Split(string(buf[:n]), "\n\n") {
		if strings.Contains(g, "containsWorker") || strings.Contains(g, "performQueuedEvictionsContinuously") {
			continue
		}
		inReq := strings.Contains(g, "cache/disk.(*diskCache).get") || strings.Contains(g, "cache/disk.(*diskCache).Contains") ||
			strings.Contains(g, "proxy.(*remoteHTTPProxyCache).Get") || strings.Contains(g, "proxy.(*remoteGrpcProxyCache).Get") ||
			strings.Contains(g, "proxy.(*s3Cache).Get") || strings.Contains(g, "grpcproxy.(*StreamReadCloser")
		if inReq {
			cnt++
			if sample == "" {
				lines := strings.Split(g, "\n")
				if len(lines) > 9 {
					lines = lines[:9]
				}
				sample = strings.Join(lines, " | ")
			}
		}
	}
	return cnt, sample
}

type pxFixtureKey struct {
	backend, mode, limit string
}

type pxEnv struct {
	f  *fe.Fixture
	b  pxBackend
	px cache.Proxy
}

const pxLimit = 3000 // max_proxy_blob_size of the "over" fixtures; their objects are larger

func newPxEnv(backend, mode, limit string) (*pxEnv, error) {
	var b pxBackend
	var px cache.Proxy
	var err error
	switch backend {
	case "iface":
		fb := &fakeBk{p: drv.NewFakeProxy()}
		b, px = fb, fb.p
	case "http", "s3":
		hb := newHTTPBk(backend == "s3")
		px, err = hb.proxyFor(mode)
		b = hb
	case "grpc":
		var gb *grpcBk
		gb, err = newGrpcBk(mode)
		if err == nil {
			px, err = gb.proxy()
		}
		b = gb
	}
	if err != nil {
		return nil, err
	}
	o := fe.Opts{Mode: mode, MaxSize: 4 << 30, Proxy: px, NoValidateAC: false, NoDepsCheck: true}
	if limit == "over" {
		o.ProxyMaxBlob = pxLimit
	}
	f, err := fe.New(o)
	if err != nil {
		b.close()
		return nil, err
	}
	return &pxEnv{f: f, b: b, px: px}, nil
}

func (e *pxEnv) close() { e.f.Close(); e.b.close() }

func bigAR(rng *rand.Rand, min int) ([]byte, *pb.ActionResult) {
	ar := &pb.ActionResult{ExitCode: int32(rng.Intn(100)),
		ExecutionMetadata: &pb.ExecutedActionMetadata{Worker: fmt.Sprintf("worker-%d-%s", rng.Int63(), strings.Repeat("w", min))}}
	b, _ := proto.Marshal(ar)
	return b, ar
}

// pxRead performs one read through a front end; returns the outcome class and what was delivered.
func pxRead(f *fe.Fixture, front string, kind cache.EntryKind, hash string, n int, ctx context.Context) (string, []byte, string) {
	switch front {
	case "disk":
		size := int64(n)
		rc, _, err := f.Cache.Get(ctx, kind, hash, size, 0)
		if err != nil {
			return "error", nil, err.Error()
		}
		if rc == nil {
			return "miss", nil, ""
		}
		b, err := io.ReadAll(rc)
		rc.Close()
		if err != nil {
			return "error", b, err.Error()
		}
		return "hit", b, ""
	case "bytestream":
		cctx, cancel := context.WithTimeout(ctx, 60*time.Second)
		defer cancel()
		st, err := f.BS.Read(cctx, &bytestream.ReadRequest{ResourceName: fmt.Sprintf("blobs/%s/%d", hash, n)})
		if err != nil {
			return "error", nil, err.Error()
		}
		var out []byte
		for {
			m, e := st.Recv()
			if e == io.EOF {
				return "hit", out, ""
			}
			if e != nil {
				if status.Code(e) == codes.NotFound && len(out) == 0 {
					return "miss", nil, ""
				}
				return "error", out, e.Error()
			}
			out = append(out, m.Data...)
		}
	case "http":
		p := "/cas/" + hash
		if kind != cache.CAS {
			p = "/ac/" + hash
		}
		req, _ := http.NewRequestWithContext(ctx, http.MethodGet, f.HTTP.URL+p, nil)
		tr := &http.Transport{DisableCompression: true}
		defer tr.CloseIdleConnections()
		resp, err := (&http.Client{Transport: tr, Timeout: 60 * time.Second}).Do(req)
		if err != nil {
			return "error", nil, err.Error()
		}
		defer resp.Body.Close()
		b, rerr := io.ReadAll(resp.Body)
		switch {
		case resp.StatusCode == 404:
			return "miss", nil, ""
		case resp.StatusCode != 200:
			return "error", nil, fmt.Sprintf("status %d", resp.StatusCode)
		case rerr != nil:
			return "error", b, rerr.Error()
		}
		return "hit", b, ""
	case "getactionresult":
		cctx, cancel := context.WithTimeout(ctx, 60*time.Second)
		defer cancel()
		ar, err := f.AC.GetActionResult(cctx, &pb.GetActionResultRequest{ActionDigest: &pb.Digest{Hash: hash, SizeBytes: 11}})
		if status.Code(err) == codes.NotFound {
			return "miss", nil, ""
		}
		if err != nil {
			return "error", nil, err.Error()
		}
		b, _ := proto.Marshal(ar)
		return "hit", b, ""
	}
	return "error", nil, "unknown front"
}

// RunProxy executes scripts of Proxy.tla's table against one kind of backend.
func RunProxy(cases []PxCase, backend string, seed int64, stride int, maxLen int) (runs []PxRun, viols []drv.Violation, err error) {
	rng := rand.New(rand.NewSource(seed))
	envs := map[pxFixtureKey]*pxEnv{}
	defer func() {
		for _, e := range envs {
			e.close()
		}
	}()
	for ci, c := range cases {
		if len(c.Script) > maxLen || (stride > 1 && (ci+int(seed))%stride != 0) {
			continue
		}
		k := pxFixtureKey{backend, c.Cfg.Mode, c.Cfg.Limit}
		env := envs[k]
		if env == nil {
			env, err = newPxEnv(backend, c.Cfg.Mode, c.Cfg.Limit)
			if err != nil {
				return runs, viols, err
			}
			envs[k] = env
		}
		f, b := env.f, env.b
		kind := cache.CAS
		if c.Cfg.Kind == "ac" {
			kind = cache.AC
		}
		// the entry
		var logical []byte
		var hash string
		if kind == cache.CAS {
			n := []int{pxLimit + 1, pxLimit + 1500, 70001, 1<<20 + 9, 4097}[rng.Intn(5)]
			if c.Cfg.Limit == "fits" && rng.Intn(3) == 0 {
				n = 1 + rng.Intn(300)
			}
			logical = drv.GenData(rng, n, rng.Intn(3))
			hash = fmtw.Sha(logical)
		} else {
			logical, _ = bigAR(rng, pxLimit+10)
			hash = fmtw.Sha([]byte(fmt.Sprintf("action-%d-%d", ci, rng.Int63())))
		}
		b.store(kind, hash, logical, c.Cfg.Mode)
		run := PxRun{Backend: backend, Cfg: c.Cfg, Script: c.Script, Size: len(logical)}
		where := fmt.Sprintf("%s backend, %s %s entry of %d bytes, size %s, max_proxy_blob_size %s", backend, c.Cfg.Mode, c.Cfg.Kind, len(logical),
			map[bool]string{true: "known", false: "unknown"}[c.Cfg.Known], map[string]string{"fits": "not limiting", "over": fmt.Sprint(pxLimit)}[c.Cfg.Limit])
		bad := func(step int, fm string, a ...any) {
			viols = append(viols, drv.Violation{Prop: "C12", What: fmt.Sprintf("%s, script %v, request %d: ", where, c.Script, step+1) + fmt.Sprintf(fm, a...), Hist: ci, Op: step})
		}
		skipped := false
		for step, ex := range c.Expect {
			objLen := b.objLen(kind, hash, c.Cfg.Mode)
			if objLen == 0 {
				objLen = len(logical)
			}
			at := 0
			switch rng.Intn(6) {
			case 0:
				at = 0
			case 1:
				at = 1
			case 2:
				at = 37 // inside the header of a compressed file
			case 3:
				at = objLen - 1
			case 4:
				at = objLen / 2
			default:
				at = rng.Intn(objLen)
			}
			if at >= objLen {
				at = objLen - 1
			}
			if ex.Fault != "none" {
				if !b.arm(kind, hash, logical, c.Cfg.Known, c.Cfg.Mode, ex.Fault, at) {
					skipped = true
					break
				}
				run.Cuts = append(run.Cuts, at)
			}
			getsBefore := b.gets(kind, hash, c.Cfg.Mode)
			var front string
			n := len(logical)
			switch {
			case kind == cache.AC:
				front = []string{"getactionresult", "http", "disk"}[rng.Intn(3)]
				n = -1
			case c.Cfg.Known:
				front = []string{"bytestream", "disk"}[rng.Intn(2)]
			default:
				front = []string{"http", "disk"}[rng.Intn(2)]
				n = -1
			}
			if os.Getenv("VERIF_DEBUG_TAP") != "" {
				fmt.Fprintf(os.Stderr, "REQ %s case %d step %d fault %s front? size %d\n", time.Now().Format("15:04:05.000"), ci, step, ex.Fault, len(logical))
			}
			rctx, rcancel := context.WithCancel(context.Background()) // the scope of one request, as a server handler has it
			res, got, detail := pxRead(f, front, kind, hash, n, rctx)
			rcancel()
			run.Fronts = append(run.Fronts, front)
			run.Results = append(run.Results, res)
			b.disarm()
			if !has(ex.Allowed, res) {
				bad(step, "backend fault %q (at byte %d of %d), read through %s: answered %s (%s), the specification allows %v", ex.Fault, at, objLen, front, res, detail, ex.Allowed)
			}
			if res == "hit" {
				same := bytes.Equal(got, logical)
				if kind == cache.AC && !same {
					a, bb := &pb.ActionResult{}, &pb.ActionResult{}
					same = proto.Unmarshal(got, a) == nil && proto.Unmarshal(logical, bb) == nil && proto.Equal(a, bb)
				}
				if !same {
					bad(step, "backend fault %q (at byte %d of %d), read through %s: a hit with %d bytes that are not the entry's %d bytes", ex.Fault, at, objLen, front, len(got), len(logical))
				}
			} else if len(got) > 0 && !bytes.HasPrefix(logical, got) {
				bad(step, "backend fault %q, read through %s: %d bytes delivered before the error are not a prefix of the entry", ex.Fault, front, len(got))
			}
			// nothing may be left behind
			// a genuine leak stays for ever: flagged only if the residue never disappears within 10 s
			// (the peer may still be starting or finishing a stream the client has already dropped)
			if !waitFor(func() bool { n, _ := proxyGoroutines(); return n == 0 && b.busy() == 0 }, 10*time.Second) {
				if n, sample := proxyGoroutines(); n != 0 {
					bad(step, "backend fault %q: %d goroutine(s) of the request still alive 10 s after it ended: %s", ex.Fault, n, sample)
				}
				if n := b.busy(); n != 0 {
					bad(step, "backend fault %q: %d backend reader(s)/call(s) still open 10 s after the request ended%s", ex.Fault, n, stacksWith("bk.(*GRPCTap)"))
				}
			}
			// (the front end closes the file after the last byte has gone out: give it a moment; a leak stays)
			if !waitFor(func() bool { _, r, _, _ := f.Cache.Stats(); return r == 0 }, 5*time.Second) {
				_, resv, _, _ := f.Cache.Stats()
				bad(step, "backend fault %q: %d bytes still reserved 5 s after the request ended", ex.Fault, resv)
			}
			if !waitFor(func() bool { return openCacheFiles(f.Dir) == 0 }, 5*time.Second) {
				bad(step, "backend fault %q: %d descriptor(s) into the cache directory still open 5 s after the request ended", ex.Fault, openCacheFiles(f.Dir))
			}
			rec.WaitIdle(f.Cache, 2*time.Second)
			ents, _ := rec.ListDir(f.Dir)
			files := 0
			for _, en := range ents {
				if strings.Contains(en.Path, hash) {
					files++
				}
			}
			wantFiles := 0
			if ex.CachedAfter {
				wantFiles = 1
			}
			if files != wantFiles {
				bad(step, "backend fault %q: %d file(s) of the entry in the cache directory afterwards, the specification says %d", ex.Fault, files, wantFiles)
			}
			asked := b.gets(kind, hash, c.Cfg.Mode) - getsBefore
			if ex.BackendAsked && asked == 0 && !(backend == "grpc" && !c.Cfg.Known && kind == cache.CAS) {
				bad(step, "the backend was not asked although the entry was not cached")
			}
			if !ex.BackendAsked && asked != 0 {
				bad(step, "the backend was asked %d time(s) although the specification says it is not consulted (cached locally, or over max_proxy_blob_size with known size)", asked)
			}
		}
		if !skipped {
			runs = append(runs, run)
		}
	}
	return runs, viols, nil
}

var _ = os.Remove

// PxWriteRun is one write-through experiment.
type PxWriteRun struct {
	Backend string `json:"backend"`
	Mode    string `json:"mode"`
	What    string `json:"what"`
	Checks  int    `json:"checks"`
}

// RunProxyWrites: accepted uploads reach the backend once, in a form a peer recovers; a full
// upload queue and cancelled reads leak nothing.
func RunProxyWrites(seed int64) (runs []PxWriteRun, viols []drv.Violation, err error) {
	rng := rand.New(rand.NewSource(seed))
	for _, backend := range []string{"http", "s3", "grpc"} {
		for _, mode := range []string{"zstd", "uncompressed"} {
			envA, e := newPxEnv(backend, mode, "fits")
			if e != nil {
				return runs, viols, e
			}
			where := fmt.Sprintf("%s backend, %s mode", backend, mode)
			bad := func(fm string, a ...any) {
				viols = append(viols, drv.Violation{Prop: "C12", What: where + ": " + fmt.Sprintf(fm, a...)})
			}
			checks := 0
			type up struct {
				kind cache.EntryKind
				hash string
				data []byte
			}
			var ups []up
			ctx := context.Background()
			// sizes at the chunk sizes of the store (1 MiB) and of the uploaders (2 MiB), incompressible and not
			for i, n := range []int{1, 4096, 70001, 1<<20 + 1, 2<<20 + 3, 1 << 20, 2 << 20, 4 << 20, 2<<20 - 1} {
				class := i % 3
				if n >= 1<<20 && n%(1<<20) == 0 {
					class = 0
				}
				data := drv.GenData(rng, n, class)
				u := up{cache.CAS, fmtw.Sha(data), data}
				if e := envA.f.Cache.Put(ctx, cache.CAS, u.hash, int64(n), bytes.NewReader(data)); e != nil {
					return runs, viols, e
				}
				ups = append(ups, u)
			}
			for i := 0; i < 3; i++ {
				b, ar := bigAR(rng, 10+i)
				u := up{cache.AC, fmtw.Sha([]byte(fmt.Sprint("w", i, rng.Int63()))), b}
				cctx, cancel := fe.Ctx()
				_, e := envA.f.AC.UpdateActionResult(cctx, &pb.UpdateActionResultRequest{ActionDigest: &pb.Digest{Hash: u.hash, SizeBytes: 5}, ActionResult: ar})
				cancel()
				if e != nil {
					return runs, viols, e
				}
				ups = append(ups, u)
			}
			// uploads whose client goes away exactly when the last byte has been read: if the server accepts
			// them (no error, served locally) they count like any other accepted upload
			for i, n := range []int{3000, 1<<20 + 5} {
				data := drv.GenData(rng, n, i)
				u := up{cache.CAS, fmtw.Sha(data), data}
				cctx, cancel := context.WithCancel(ctx)
				e := envA.f.Cache.Put(cctx, cache.CAS, u.hash, int64(n), &cancelAtEOF{r: bytes.NewReader(data), cancel: cancel})
				cancel()
				if e == nil {
					ups = append(ups, u)
				}
			}
			// a peer on the same backend recovers every entry
			var envB *pxEnv
			switch bb := envA.b.(type) {
			case *httpBk:
				px, e := bb.proxyFor(mode)
				if e != nil {
					return runs, viols, e
				}
				fB, e := fe.New(fe.Opts{Mode: mode, MaxSize: 4 << 30, Proxy: px, NoDepsCheck: true})
				if e != nil {
					return runs, viols, e
				}
				envB = &pxEnv{f: fB, b: bb, px: px}
			case *grpcBk:
				px, e := bb.proxy()
				if e != nil {
					return runs, viols, e
				}
				fB, e := fe.New(fe.Opts{Mode: mode, MaxSize: 4 << 30, Proxy: px, NoDepsCheck: true})
				if e != nil {
					return runs, viols, e
				}
				envB = &pxEnv{f: fB, b: bb, px: px}
			}
			for _, u := range ups {
				checks++
				size := int64(len(u.data))
				if u.kind != cache.CAS {
					size = -1
				}
				var got []byte
				ok := waitFor(func() bool {
					rc, _, e := envB.f.Cache.Get(ctx, u.kind, u.hash, size, 0)
					if e != nil || rc == nil {
						return false
					}
					got, e = io.ReadAll(rc)
					rc.Close()
					return e == nil
				}, 10*time.Second)
				if !ok {
					bad("an accepted %s upload of %d bytes cannot be recovered by a peer on the same backend", u.kind, len(u.data))
					continue
				}
				same := bytes.Equal(got, u.data)
				if u.kind != cache.CAS && !same {
					a, b2 := &pb.ActionResult{}, &pb.ActionResult{}
					same = proto.Unmarshal(got, a) == nil && proto.Unmarshal(u.data, b2) == nil && proto.Equal(a, b2)
				}
				if !same {
					bad("a peer on the same backend recovers different bytes for an accepted %s upload of %d bytes", u.kind, len(u.data))
				}
			}
			// exactly once
			waitFor(func() bool { return envA.b.busy() == 0 }, 3*time.Second)
			switch bb := envA.b.(type) {
			case *httpBk:
				puts := map[string]int{}
				for _, r := range bb.st.Requests() {
					if r.Method == "PUT" {
						puts[r.Name]++
					}
				}
				for p, n := range puts {
					checks++
					if n != 1 {
						bad("object %s was uploaded %d times for one accepted upload", p, n)
					}
				}
				if len(puts) != len(ups) {
					bad("%d uploads accepted, %d objects handed to the backend", len(ups), len(puts))
				}
			case *grpcBk:
				n := 0
				for _, r := range bb.tap.Requests() {
					if r.Method == "ByteStream.Write" || r.Method == "UpdateActionResult" {
						n++
					}
				}
				checks++
				if n != len(ups) {
					bad("%d uploads accepted, %d write calls seen by the backend", len(ups), n)
				}
			}
			envB.f.Close()
			runs = append(runs, PxWriteRun{backend, mode, "write-through and recovery by a peer", checks})

			// cancelled read: the client goes away while the backend is slow
			if hb, ok := envA.b.(*httpBk); ok {
				data := drv.GenData(rng, 200000, 0)
				hash := fmtw.Sha(data)
				hb.store(cache.CAS, hash, data, mode)
				hb.st.SetFault("GET", hb.path(cache.CAS, hash, mode), bk.HFault{Delay: 400 * time.Millisecond, CutAt: -1})
				cctx, cancel := context.WithTimeout(ctx, 60*time.Millisecond)
				res, _, _ := pxRead(envA.f, "http", cache.CAS, hash, -1, cctx)
				cancel()
				checks++
				if res == "hit" {
					bad("a read cancelled by the client after 60 ms was answered with a hit although the backend needs 400 ms")
				}
				if !waitFor(func() bool { n, _ := proxyGoroutines(); return n == 0 && hb.busy() == 0 }, 10*time.Second) {
					n, sample := proxyGoroutines()
					bad("cancelled read: %d goroutine(s) / %d backend call(s) still alive 10 s later: %s", n, hb.busy(), sample)
				}
				if _, resv, _, _ := envA.f.Cache.Stats(); resv != 0 {
					bad("cancelled read: %d bytes still reserved", resv)
				}
				if !waitFor(func() bool { return openCacheFiles(envA.f.Dir) == 0 }, 5*time.Second) {
					bad("cancelled read: %d descriptor(s) into the cache directory still open 5 s later", openCacheFiles(envA.f.Dir))
				}
				hb.st.ClearFaults()
				res, got, detail := pxRead(envA.f, "http", cache.CAS, hash, -1, ctx)
				if res != "hit" || !bytes.Equal(got, data) {
					bad("after a cancelled read the same entry is not served (%s %s)", res, detail)
				}
				runs = append(runs, PxWriteRun{backend, mode, "cancelled read", 5})
			}
			// Contains / FindMissingBlobs under backend faults: present only on the strength of a clean, size-consistent answer
			{
				data := drv.GenData(rng, 5000, 0)
				hash := fmtw.Sha(data)
				envA.b.store(cache.CAS, hash, data, mode)
				probe := func() (bool, bool) {
					ok, sz := envA.f.Cache.Contains(ctx, cache.CAS, hash, int64(len(data)))
					if ok && sz != int64(len(data)) && sz != -1 {
						bad("Contains reports the blob present with size %d, it has %d bytes", sz, len(data))
					}
					cctx, cancel := fe.Ctx()
					r, e := envA.f.CAS.FindMissingBlobs(cctx, &pb.FindMissingBlobsRequest{BlobDigests: []*pb.Digest{{Hash: hash, SizeBytes: int64(len(data))}}})
					cancel()
					return ok, e == nil && len(r.MissingBlobDigests) == 0
				}
				if ok, fm := probe(); !ok || !fm {
					bad("a blob the backend holds is reported absent (Contains=%v, FindMissingBlobs present=%v)", ok, fm)
				}
				arm := func(which string) bool {
					switch bb := envA.b.(type) {
					case *httpBk:
						p := bb.path(cache.CAS, hash, mode)
						switch which {
						case "error":
							st := 500
							if bb.s3 {
								st = 403
							}
							bb.st.SetFault("HEAD", p, bk.HFault{Status: st, Forever: true})
						case "wrongsize":
							if mode == "zstd" {
								return false
							}
							bb.st.SetFault("HEAD", p, bk.HFault{LieLen: int64(len(data)) + 1, Forever: true, CutAt: -1})
						}
					case *grpcBk:
						switch which {
						case "error":
							bb.tap.SetFault(bk.GFault{Method: "FindMissingBlobs", Code: codes.Unavailable, AfterOut: -1, Forever: true})
						case "wrongsize":
							return false
						}
					}
					return true
				}
				for _, which := range []string{"error", "wrongsize"} {
					if !arm(which) {
						continue
					}
					checks++
					if ok, fm := probe(); ok || fm {
						bad("with the backend's existence check failing (%s) the blob is reported present (Contains=%v, FindMissingBlobs present=%v)", which, ok, fm)
					}
					envA.b.disarm()
				}
				// existence checks in the other key spaces (HTTP HEAD /ac/ with validation off asks for a raw entry, size
				// unknown): an entry the backend holds is found, one it does not hold is a plain miss - not a panic
				{
					// a well-formed ActionResult: a peer serves an action result only if it parses
					val, _ := proto.Marshal(&pb.ActionResult{ExitCode: 3, StdoutRaw: drv.GenData(rng, 300, 0)})
					vh := fmtw.Sha(val)
					absent := fmtw.Sha(append([]byte("absent"), val...))
					for _, kind := range []cache.EntryKind{cache.AC, cache.RAW} {
						envA.b.store(kind, vh, val, mode)
						for _, c := range []struct {
							hash string
							want bool
						}{{vh, true}, {absent, false}} {
							checks++
							func() {
								defer func() {
									if p := recover(); p != nil {
										viols = append(viols, drv.Violation{Prop: "C14", What: fmt.Sprintf("%s: existence check of a %s entry the backend %s (size unknown) panics: %v", where, kind,
											map[bool]string{true: "holds", false: "does not hold"}[c.want], p)})
									}
								}()
								ok, _ := envA.f.Cache.Contains(ctx, kind, c.hash, -1)
								if ok != c.want {
									bad("existence check of a %s entry the backend %s answers %v", kind, map[bool]string{true: "holds", false: "does not hold"}[c.want], ok)
								}
							}()
						}
					}
				}
				ents, _ := rec.ListDir(envA.f.Dir)
				for _, en := range ents {
					if strings.Contains(en.Path, hash) {
						bad("an existence check created the file %s", en.Path)
					}
				}
				if ok, fm := probe(); !ok || !fm {
					bad("after failed existence checks the blob the backend holds is reported absent (Contains=%v, FindMissingBlobs present=%v)", ok, fm)
				}
				runs = append(runs, PxWriteRun{backend, mode, "existence checks under faults", checks})
			}
			envA.close()

			// full upload queue: one uploader, queue of one, backend stalls
			if backend == "http" {
				hb := newHTTPBk(false)
				hb.st.PutGate = make(chan struct{})
				u, _ := url.Parse(hb.st.Srv.URL)
				hb.tr = &http.Transport{}
				lg := drv.Silent()
				px, e := httpproxy.New(u, mode, &http.Client{Transport: hb.tr}, lg, lg, 1, 1)
				if e != nil {
					return runs, viols, e
				}
				f, e := fe.New(fe.Opts{Mode: mode, MaxSize: 1 << 30, Proxy: px})
				if e != nil {
					return runs, viols, e
				}
				var blobs [][]byte
				for i := 0; i < 8; i++ {
					data := drv.GenData(rng, 5000+i, 0)
					blobs = append(blobs, data)
					if e := f.Cache.Put(ctx, cache.CAS, fmtw.Sha(data), int64(len(data)), bytes.NewReader(data)); e != nil {
						bad("upload %d refused while the backend's upload queue is full: %v", i, e)
					}
				}
				close(hb.st.PutGate)
				waitFor(func() bool { return hb.busy() == 0 }, 3*time.Second)
				time.Sleep(50 * time.Millisecond)
				waitFor(func() bool { return hb.busy() == 0 && openCacheFiles(f.Dir) == 0 }, 3*time.Second)
				if n := openCacheFiles(f.Dir); n != 0 {
					bad("full upload queue: %d descriptor(s) into the cache directory still open after the queue drained", n)
				}
				if _, resv, _, _ := f.Cache.Stats(); resv != 0 {
					bad("full upload queue: %d bytes still reserved", resv)
				}
				arrived := 0
				for _, data := range blobs {
					h := fmtw.Sha(data)
					rc, _, e := f.Cache.Get(ctx, cache.CAS, h, int64(len(data)), 0)
					if e != nil || rc == nil {
						bad("full upload queue: a locally accepted blob is not served locally afterwards")
					} else {
						rc.Close()
					}
					if obj, ok := hb.st.Get(hb.path(cache.CAS, h, mode)); ok {
						arrived++
						want := onBackend(data, cache.CAS, mode)
						if mode == "zstd" {
							dec, _, derr := fmtw.DecodeCAS(obj)
							if derr != nil || !bytes.Equal(dec, data) {
								bad("full upload queue: an object that did arrive is not the blob")
							}
						} else if !bytes.Equal(obj, want) {
							bad("full upload queue: an object that did arrive is not the blob")
						}
					}
				}
				if arrived == 0 {
					bad("full upload queue: nothing arrived at all")
				}
				f.Close()
				hb.close()
				runs = append(runs, PxWriteRun{backend, mode, fmt.Sprintf("full upload queue: 8 uploads, %d handed over", arrived), 20})
			}

			// an upload that waits in the queue (there is room) while its local file is evicted: it was accepted, so it
			// reaches the backend all the same, byte for byte (Cache.tla: PutCommit hands the *file* to the backend, the
			// index entry may go at any time afterwards)
			if backend == "http" {
				hb := newHTTPBk(false)
				hb.st.PutGate = make(chan struct{})
				u, _ := url.Parse(hb.st.Srv.URL)
				hb.tr = &http.Transport{}
				lg := drv.Silent()
				px, e := httpproxy.New(u, mode, &http.Client{Transport: hb.tr}, lg, lg, 1, 50)
				if e != nil {
					return runs, viols, e
				}
				f, e := fe.New(fe.Opts{Mode: mode, MaxSize: 6 * 4096, Proxy: px})
				if e != nil {
					return runs, viols, e
				}
				var blobs [][]byte
				for i := 0; i < 6; i++ {
					data := drv.GenData(rng, 5000+i, 0) // two blocks each: the third upload starts evicting the first
					blobs = append(blobs, data)
					if e := f.Cache.Put(ctx, cache.CAS, fmtw.Sha(data), int64(len(data)), bytes.NewReader(data)); e != nil {
						bad("queued uploads: upload %d refused: %v", i, e)
					}
				}
				rec.WaitIdle(f.Cache, 5*time.Second)
				evicted := 0
				for _, data := range blobs[:3] {
					if ok, _ := f.Cache.Contains(ctx, cache.CAS, fmtw.Sha(data), int64(len(data))); !ok {
						evicted++
					}
				}
				close(hb.st.PutGate)
				waitFor(func() bool {
					n := 0
					for _, data := range blobs {
						if _, ok := hb.st.Get(hb.path(cache.CAS, fmtw.Sha(data), mode)); ok {
							n++
						}
					}
					return n == len(blobs)
				}, 40*time.Second)
				for i, data := range blobs {
					obj, ok := hb.st.Get(hb.path(cache.CAS, fmtw.Sha(data), mode))
					if !ok {
						bad("queued uploads: upload %d of 6 was accepted while the queue had room, its local copy was evicted before its turn (%d of the first 3 evicted), and it never reached the backend", i+1, evicted)
						continue
					}
					if mode == "zstd" {
						dec, _, derr := fmtw.DecodeCAS(obj)
						if derr != nil || !bytes.Equal(dec, data) {
							bad("queued uploads: the object that arrived for upload %d is not the blob", i+1)
						}
					} else if !bytes.Equal(obj, data) {
						bad("queued uploads: the object that arrived for upload %d is not the blob", i+1)
					}
				}
				waitFor(func() bool { return hb.busy() == 0 && openCacheFiles(f.Dir) == 0 }, 5*time.Second)
				if n := openCacheFiles(f.Dir); n != 0 {
					bad("queued uploads: %d descriptor(s) into the cache directory still open after the queue drained", n)
				}
				f.Close()
				hb.close()
				runs = append(runs, PxWriteRun{backend, mode, fmt.Sprintf("queued uploads outlive local eviction: 6 uploads, %d evicted while queued", evicted), 12})
			}
		}
	}
	return runs, viols, nil
}

func stacksWith(sub string) string {
	buf := make([]byte, 8<<20)
	n := runtime.Stack(buf, true)
	out := ""
	for _, g := range strings.Split(string(buf[:n]), "\n\n") {
		if strings.Contains(g, sub) {
			out += "\n" + g
		}
	}
	return out
}

// cancelAtEOF cancels the request's context at the moment the payload has been read completely.
type cancelAtEOF struct {
	r      io.Reader
	cancel context.CancelFunc
}

func (c *cancelAtEOF) Read(p []byte) (int, error) {
	n, err := c.r.Read(p)
	if err == io.EOF {
		c.cancel()
	}
	return n, err
}
