package eng

import (
	"bytes"
	"context"
	"fmt"
	"math/rand"
	"sync"
	"sync/atomic"
	"time"

	"github.com/buchgr/bazel-remote/v2/cache"
	pb "github.com/buchgr/bazel-remote/v2/genproto/build/bazel/remote/execution/v2"

	"verif/harness/internal/drv"
	"verif/harness/internal/fe"
	"verif/harness/internal/fmtw"
)

// FMCase is one abstract request list of FindMissing.tla.
type FMCase struct {
	Classes []string `json:"classes"`
	Missing []int    `json:"missing"`
}

// FMRun describes one executed request.
type FMRun struct {
	Backend  bool     `json:"backend"`
	Len      int      `json:"len"`
	Pattern  []string `json:"pattern"`
	Layout   string   `json:"layout"`
	Expected int      `json:"expected_missing"`
	Got      int      `json:"got_missing"`
}

const proxyLimit = 6000 // max_proxy_blob_size used by the fixture

type fmPools struct {
	byClass map[string][]*pb.Digest
	// the same hash under its stored size / under another size: requests deliberately contain both
	right, wrong map[string]*pb.Digest
}

func policyMissing(class string, backend bool) bool {
	switch class {
	case "localOtherSize", "backendOtherSize", "backendOversize", "absent":
		return true
	case "backendOnly":
		return !backend
	}
	return false
}

// buildPools creates 48 digests per class in the fixture (and its backend).
func buildPools(f *fe.Fixture, p *drv.FakeProxy, mode string, rng *rand.Rand) (*fmPools, error) {
	pools := &fmPools{byClass: map[string][]*pb.Digest{}, right: map[string]*pb.Digest{}, wrong: map[string]*pb.Digest{}}
	otherSize := func(d *pb.Digest) *pb.Digest {
		n := d.SizeBytes + 1 + int64(rng.Intn(5))
		if d.SizeBytes > 1 && rng.Intn(2) == 0 {
			n = d.SizeBytes - 1
		}
		o := &pb.Digest{Hash: d.Hash, SizeBytes: n}
		pools.right[d.Hash], pools.wrong[d.Hash] = d, o
		return o
	}
	ctx := context.Background()
	for i := 0; i < 48; i++ {
		mk := func(n int) drv.Blob { return drv.MkBlob(drv.GenData(rng, n, i%3)) }
		// many digests share a size (blobs of equal size are common: empty-ish files, fixed-size records)
		sz := func() int { return []int{64, 64, 200, 200, 1000, 10 + rng.Intn(3000)}[rng.Intn(6)] }
		// local
		b := mk(sz())
		if err := f.Cache.Put(ctx, cache.CAS, b.Hash, int64(len(b.Data)), bytes.NewReader(b.Data)); err != nil {
			return nil, err
		}
		loc := &pb.Digest{Hash: b.Hash, SizeBytes: int64(len(b.Data))}
		pools.byClass["local"] = append(pools.byClass["local"], loc)
		// held locally under another size: the hash of a blob that is also asked for under its right size
		// (even i), or of a stored blob that is otherwise not part of any request
		if i%2 == 0 {
			pools.byClass["localOtherSize"] = append(pools.byClass["localOtherSize"], otherSize(loc))
		} else {
			b = mk(sz())
			if err := f.Cache.Put(ctx, cache.CAS, b.Hash, int64(len(b.Data)), bytes.NewReader(b.Data)); err != nil {
				return nil, err
			}
			pools.byClass["localOtherSize"] = append(pools.byClass["localOtherSize"], &pb.Digest{Hash: b.Hash, SizeBytes: int64(len(b.Data)) + 1 + int64(rng.Intn(5))})
		}
		// absent everywhere
		b = mk(sz())
		pools.byClass["absent"] = append(pools.byClass["absent"], &pb.Digest{Hash: b.Hash, SizeBytes: int64(len(b.Data))})
		pools.byClass["empty"] = append(pools.byClass["empty"], &pb.Digest{Hash: "e3b0c44298fc1c149afbf4c8996fb92427ae41e4649b934ca495991b7852b855", SizeBytes: 0})
		// only in the backend, within / above max_proxy_blob_size
		b = mk(sz())
		bo := &pb.Digest{Hash: b.Hash, SizeBytes: int64(len(b.Data))}
		pools.byClass["backendOnly"] = append(pools.byClass["backendOnly"], bo)
		// held by the backend under another size
		pools.byClass["backendOtherSize"] = append(pools.byClass["backendOtherSize"], otherSize(bo))
		big := mk(proxyLimit + 1 + rng.Intn(2000))
		pools.byClass["backendOversize"] = append(pools.byClass["backendOversize"], &pb.Digest{Hash: big.Hash, SizeBytes: int64(len(big.Data))})
		if p != nil {
			drv.SeedBackend(p, mode, b)
			drv.SeedBackend(p, mode, big)
		}
	}
	return pools, nil
}

// RunFindMissing executes scaled versions of every abstract list.
func RunFindMissing(cases []FMCase, seed int64, lengths []int, mode string) (runs []FMRun, viols []drv.Violation, err error) {
	rng := rand.New(rand.NewSource(seed))
	for _, backend := range []bool{true, false} {
		var p *drv.FakeProxy
		opt := fe.Opts{Mode: mode, MaxSize: 1 << 30}
		if backend {
			p = drv.NewFakeProxy()
			p.Delay = 300 * time.Microsecond
			opt.Proxy = p
			opt.ProxyMaxBlob = proxyLimit
		}
		f, e := fe.New(opt)
		if e != nil {
			return runs, viols, e
		}
		pools, e := buildPools(f, p, mode, rng)
		if e != nil {
			f.Close()
			return runs, viols, e
		}
		// unrelated traffic while requests run
		var stop atomic.Bool
		var wg sync.WaitGroup
		wg.Add(1)
		go func() {
			defer wg.Done()
			r2 := rand.New(rand.NewSource(seed + 99))
			for !stop.Load() {
				b := drv.MkBlob(drv.GenData(r2, 50+r2.Intn(500), 0))
				_ = f.Cache.Put(context.Background(), cache.CAS, b.Hash, int64(len(b.Data)), bytes.NewReader(b.Data))
				time.Sleep(200 * time.Microsecond)
			}
		}()
		for ci, c := range cases {
			n := len(c.Classes)
			targets := []int{n}
			if n > 0 {
				targets = append(targets, lengths...)
			}
			for _, T := range targets {
				for _, layout := range []string{"tile", "stretch"} {
					if T == n && layout == "stretch" {
						continue
					}
					var req []*pb.Digest
					var want []*pb.Digest
					// class of each concrete digest (duplicates included)
					classOf := map[string]string{}
					for cl, pool := range pools.byClass {
						for _, d := range pool {
							classOf[fmt.Sprintf("%s/%d", d.Hash, d.SizeBytes)] = cl
						}
					}
					for i := 0; i < T; i++ {
						var cl string
						if layout == "tile" {
							cl = c.Classes[i%n]
						} else {
							cl = c.Classes[i*n/T]
						}
						pool := pools.byClass[cl]
						d := pool[rng.Intn(len(pool))]
						if rng.Intn(6) == 0 && len(req) > 0 {
							// duplicate an earlier digest of the request
							d = req[rng.Intn(len(req))]
							cl = ""
						} else if len(req) > 0 && rng.Intn(2) == 0 {
							// the same hash as an earlier digest of the request, under the other size:
							// right size after wrong size and wrong size after right size
							e := req[rng.Intn(len(req))]
							switch {
							case (cl == "localOtherSize" || cl == "backendOtherSize") && pools.wrong[e.Hash] != nil && e.SizeBytes == pools.right[e.Hash].SizeBytes:
								if o := pools.wrong[e.Hash]; classOf[fmt.Sprintf("%s/%d", o.Hash, o.SizeBytes)] == cl {
									d = o
								}
							case (cl == "local" || cl == "backendOnly") && pools.right[e.Hash] != nil && e.SizeBytes != pools.right[e.Hash].SizeBytes:
								if o := pools.right[e.Hash]; classOf[fmt.Sprintf("%s/%d", o.Hash, o.SizeBytes)] == cl {
									d = o
								}
							}
						}
						cp := &pb.Digest{Hash: d.Hash, SizeBytes: d.SizeBytes}
						req = append(req, cp)
					}
					for _, d := range req {
						if policyMissing(classOf[fmt.Sprintf("%s/%d", d.Hash, d.SizeBytes)], backend) {
							want = append(want, d)
						}
					}
					ctx, cancel := fe.Ctx()
					resp, e := f.CAS.FindMissingBlobs(ctx, &pb.FindMissingBlobsRequest{BlobDigests: req})
					cancel()
					if e != nil {
						viols = append(viols, drv.Violation{Prop: "C10", What: fmt.Sprintf("FindMissingBlobs failed for pattern %v length %d backend=%v: %v", c.Classes, T, backend, e), Hist: ci, Op: T})
						continue
					}
					got := resp.MissingBlobDigests
					run := FMRun{Backend: backend, Len: T, Pattern: c.Classes, Layout: layout, Expected: len(want), Got: len(got)}
					runs = append(runs, run)
					ok := len(got) == len(want)
					if ok {
						for i := range got {
							if got[i].Hash != want[i].Hash || got[i].SizeBytes != want[i].SizeBytes {
								ok = false
								break
							}
						}
					}
					if !ok {
						// say which way it is wrong
						what := "order or duplicates differ"
						gs, ws := map[string]int{}, map[string]int{}
						for _, d := range got {
							gs[fmt.Sprintf("%s/%d", d.Hash, d.SizeBytes)]++
						}
						for _, d := range want {
							ws[fmt.Sprintf("%s/%d", d.Hash, d.SizeBytes)]++
						}
						for k := range ws {
							if gs[k] == 0 {
								what = fmt.Sprintf("a %s digest is reported present", classOf[k])
							}
						}
						for k := range gs {
							if ws[k] == 0 {
								what = fmt.Sprintf("a %s digest is reported missing", classOf[k])
							}
						}
						viols = append(viols, drv.Violation{Prop: "C10", What: fmt.Sprintf("pattern %v (%s) length %d backend=%v: %d missing reported, %d expected: %s", c.Classes, layout, T, backend, len(got), len(want), what), Hist: ci, Op: T})
					}
				}
			}
		}
		stop.Store(true)
		wg.Wait()
		f.Close()
	}
	r2, v2, e := fmSaturation(seed, mode)
	runs = append(runs, r2...)
	viols = append(viols, v2...)
	return runs, viols, e
}

// fmSaturation: more backend checks outstanding than the hand-off queue (QueueCap of FindMissing.tla, 2048
// in the code) and the workers (512) hold together, against a backend that takes its time: one long request,
// then several clients at once.  The specification's Enqueue blocks on a full queue; the answer stays exact.
func fmSaturation(seed int64, mode string) (runs []FMRun, viols []drv.Violation, err error) {
	rng := rand.New(rand.NewSource(seed + 4242))
	p := drv.NewFakeProxy()
	p.Delay = 12 * time.Millisecond
	f, e := fe.New(fe.Opts{Mode: mode, MaxSize: 1 << 30, Proxy: p, ProxyMaxBlob: proxyLimit})
	if e != nil {
		return nil, nil, e
	}
	defer f.Close()
	mk := func(tag string, n int) (req, want []*pb.Digest) {
		for i := 0; i < n; i++ {
			h := fmtw.Sha([]byte(fmt.Sprintf("sat-%s-%d-%d", tag, seed, i)))
			sz := int64(10 + rng.Intn(90))
			d := &pb.Digest{Hash: h, SizeBytes: sz}
			if rng.Intn(9) == 0 {
				want = append(want, d) // absent everywhere
			} else {
				p.SetObj(cache.LookupKey(cache.CAS, h), []byte{1}, sz)
			}
			req = append(req, d)
		}
		return
	}
	ask := func(label string, req, want []*pb.Digest) {
		ctx, cancel := context.WithTimeout(context.Background(), 120*time.Second)
		resp, e := f.CAS.FindMissingBlobs(ctx, &pb.FindMissingBlobsRequest{BlobDigests: req})
		cancel()
		run := FMRun{Backend: true, Len: len(req), Pattern: []string{"backendOnly", "absent"}, Layout: label, Expected: len(want)}
		if e != nil {
			fmMu.Lock()
			viols = append(viols, drv.Violation{Prop: "C10", What: fmt.Sprintf("%s: FindMissingBlobs of %d digests against a slow backend failed: %v", label, len(req), e)})
			fmMu.Unlock()
			return
		}
		got := resp.MissingBlobDigests
		run.Got = len(got)
		ok := len(got) == len(want)
		for i := 0; ok && i < len(got); i++ {
			ok = got[i].Hash == want[i].Hash && got[i].SizeBytes == want[i].SizeBytes
		}
		fmMu.Lock()
		defer fmMu.Unlock()
		runs = append(runs, run)
		if !ok {
			viols = append(viols, drv.Violation{Prop: "C10", What: fmt.Sprintf("%s: %d digests, all but %d held by a slow backend (%v per lookup): %d reported missing, %d expected - a digest the backend holds throughout is reported missing (or order differs) once more lookups are outstanding than queue and workers hold", label, len(req), len(want), p.Delay, len(got), len(want)), Op: len(req)})
		}
	}
	req, want := mk("one", 2048+512+600)
	ask("saturating request", req, want)
	var wg sync.WaitGroup
	type rw struct{ req, want []*pb.Digest }
	var all []rw
	for c := 0; c < 8; c++ {
		r, w := mk(fmt.Sprintf("c%d", c), 520)
		all = append(all, rw{r, w})
	}
	for c := range all {
		wg.Add(1)
		go func(c int) {
			defer wg.Done()
			ask(fmt.Sprintf("client %d of 8 concurrent", c), all[c].req, all[c].want)
		}(c)
	}
	wg.Wait()
	return runs, viols, nil
}

var fmMu sync.Mutex
