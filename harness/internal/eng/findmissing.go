package eng

import (
	"bytes"
	"context"
	"fmt"
	"math/rand"
	"sync"
	"sync/atomic"
	"time"

	"github.com/buchgr/bazel-remote/v2/cache"
	pb "github.com/buchgr/bazel-remote/v2/genproto/build/bazel/remote/execution/v2"

	"verif/harness/internal/drv"
	"verif/harness/internal/fe"
)

// FMCase is one abstract request list of FindMissing.tla.
type FMCase struct {
	Classes []string `json:"classes"`
	Missing []int    `json:"missing"`
}

// FMRun describes one executed request.
type FMRun struct {
	Backend  bool     `json:"backend"`
	Len      int      `json:"len"`
	Pattern  []string `json:"pattern"`
	Layout   string   `json:"layout"`
	Expected int      `json:"expected_missing"`
	Got      int      `json:"got_missing"`
}

const proxyLimit = 6000 // max_proxy_blob_size used by the fixture

type fmPools struct {
	byClass map[string][]*pb.Digest
}

func policyMissing(class string, backend bool) bool {
	switch class {
	case "localOtherSize", "backendOversize", "absent":
		return true
	case "backendOnly":
		return !backend
	}
	return false
}

// buildPools creates 48 digests per class in the fixture (and its backend).
func buildPools(f *fe.Fixture, p *drv.FakeProxy, mode string, rng *rand.Rand) (*fmPools, error) {
	pools := &fmPools{byClass: map[string][]*pb.Digest{}}
	ctx := context.Background()
	for i := 0; i < 48; i++ {
		mk := func(n int) drv.Blob { return drv.MkBlob(drv.GenData(rng, n, i%3)) }
		// many digests share a size (blobs of equal size are common: empty-ish files, fixed-size records)
		sz := func() int { return []int{64, 64, 200, 200, 1000, 10 + rng.Intn(3000)}[rng.Intn(6)] }
		// local
		b := mk(sz())
		if err := f.Cache.Put(ctx, cache.CAS, b.Hash, int64(len(b.Data)), bytes.NewReader(b.Data)); err != nil {
			return nil, err
		}
		pools.byClass["local"] = append(pools.byClass["local"], &pb.Digest{Hash: b.Hash, SizeBytes: int64(len(b.Data))})
		// held locally under another size
		b = mk(sz())
		if err := f.Cache.Put(ctx, cache.CAS, b.Hash, int64(len(b.Data)), bytes.NewReader(b.Data)); err != nil {
			return nil, err
		}
		pools.byClass["localOtherSize"] = append(pools.byClass["localOtherSize"], &pb.Digest{Hash: b.Hash, SizeBytes: int64(len(b.Data)) + 1 + int64(rng.Intn(5))})
		// absent everywhere
		b = mk(sz())
		pools.byClass["absent"] = append(pools.byClass["absent"], &pb.Digest{Hash: b.Hash, SizeBytes: int64(len(b.Data))})
		pools.byClass["empty"] = append(pools.byClass["empty"], &pb.Digest{Hash: "e3b0c44298fc1c149afbf4c8996fb92427ae41e4649b934ca495991b7852b855", SizeBytes: 0})
		// only in the backend, within / above max_proxy_blob_size
		b = mk(sz())
		pools.byClass["backendOnly"] = append(pools.byClass["backendOnly"], &pb.Digest{Hash: b.Hash, SizeBytes: int64(len(b.Data))})
		big := mk(proxyLimit + 1 + rng.Intn(2000))
		pools.byClass["backendOversize"] = append(pools.byClass["backendOversize"], &pb.Digest{Hash: big.Hash, SizeBytes: int64(len(big.Data))})
		if p != nil {
			drv.SeedBackend(p, mode, b)
			drv.SeedBackend(p, mode, big)
		}
	}
	return pools, nil
}

// RunFindMissing executes scaled versions of every abstract list.
func RunFindMissing(cases []FMCase, seed int64, lengths []int, mode string) (runs []FMRun, viols []drv.Violation, err error) {
	rng := rand.New(rand.NewSource(seed))
	for _, backend := range []bool{true, false} {
		var p *drv.FakeProxy
		opt := fe.Opts{Mode: mode, MaxSize: 1 << 30}
		if backend {
			p = drv.NewFakeProxy()
			p.Delay = 300 * time.Microsecond
			opt.Proxy = p
			opt.ProxyMaxBlob = proxyLimit
		}
		f, e := fe.New(opt)
		if e != nil {
			return runs, viols, e
		}
		pools, e := buildPools(f, p, mode, rng)
		if e != nil {
			f.Close()
			return runs, viols, e
		}
		// unrelated traffic while requests run
		var stop atomic.Bool
		var wg sync.WaitGroup
		wg.Add(1)
		go func() {
			defer wg.Done()
			r2 := rand.New(rand.NewSource(seed + 99))
			for !stop.Load() {
				b := drv.MkBlob(drv.GenData(r2, 50+r2.Intn(500), 0))
				_ = f.Cache.Put(context.Background(), cache.CAS, b.Hash, int64(len(b.Data)), bytes.NewReader(b.Data))
				time.Sleep(200 * time.Microsecond)
			}
		}()
		for ci, c := range cases {
			n := len(c.Classes)
			targets := []int{n}
			if n > 0 {
				targets = append(targets, lengths...)
			}
			for _, T := range targets {
				for _, layout := range []string{"tile", "stretch"} {
					if T == n && layout == "stretch" {
						continue
					}
					var req []*pb.Digest
					var want []*pb.Digest
					for i := 0; i < T; i++ {
						var cl string
						if layout == "tile" {
							cl = c.Classes[i%n]
						} else {
							cl = c.Classes[i*n/T]
						}
						pool := pools.byClass[cl]
						d := pool[rng.Intn(len(pool))]
						if rng.Intn(6) == 0 && len(req) > 0 {
							// duplicate an earlier digest of the request
							d = req[rng.Intn(len(req))]
							cl = ""
						}
						cp := &pb.Digest{Hash: d.Hash, SizeBytes: d.SizeBytes}
						req = append(req, cp)
					}
					// expectation by class of each concrete digest (duplicates included)
					classOf := map[string]string{}
					for cl, pool := range pools.byClass {
						for _, d := range pool {
							classOf[fmt.Sprintf("%s/%d", d.Hash, d.SizeBytes)] = cl
						}
					}
					for _, d := range req {
						if policyMissing(classOf[fmt.Sprintf("%s/%d", d.Hash, d.SizeBytes)], backend) {
							want = append(want, d)
						}
					}
					ctx, cancel := fe.Ctx()
					resp, e := f.CAS.FindMissingBlobs(ctx, &pb.FindMissingBlobsRequest{BlobDigests: req})
					cancel()
					if e != nil {
						viols = append(viols, drv.Violation{Prop: "C10", What: fmt.Sprintf("FindMissingBlobs failed for pattern %v length %d backend=%v: %v", c.Classes, T, backend, e), Hist: ci, Op: T})
						continue
					}
					got := resp.MissingBlobDigests
					run := FMRun{Backend: backend, Len: T, Pattern: c.Classes, Layout: layout, Expected: len(want), Got: len(got)}
					runs = append(runs, run)
					ok := len(got) == len(want)
					if ok {
						for i := range got {
							if got[i].Hash != want[i].Hash || got[i].SizeBytes != want[i].SizeBytes {
								ok = false
								break
							}
						}
					}
					if !ok {
						// say which way it is wrong
						what := "order or duplicates differ"
						gs, ws := map[string]int{}, map[string]int{}
						for _, d := range got {
							gs[fmt.Sprintf("%s/%d", d.Hash, d.SizeBytes)]++
						}
						for _, d := range want {
							ws[fmt.Sprintf("%s/%d", d.Hash, d.SizeBytes)]++
						}
						for k := range ws {
							if gs[k] == 0 {
								what = fmt.Sprintf("a %s digest is reported present", classOf[k])
							}
						}
						for k := range gs {
							if ws[k] == 0 {
								what = fmt.Sprintf("a %s digest is reported missing", classOf[k])
							}
						}
						viols = append(viols, drv.Violation{Prop: "C10", What: fmt.Sprintf("pattern %v (%s) length %d backend=%v: %d missing reported, %d expected: %s", c.Classes, layout, T, backend, len(got), len(want), what), Hist: ci, Op: T})
					}
				}
			}
		}
		stop.Store(true)
		wg.Wait()
		f.Close()
	}
	return runs, viols, nil
}
