// Package eng holds the case executors: each takes the case table written by
// TLC from a specification and runs every case against the real servers.
package eng

import (
	"bytes"
	"context"
	"crypto/sha256"
	"encoding/base64"
	"encoding/hex"
	"errors"
	"fmt"
	"io"
	"math/rand"
	"net"
	"net/http"
	"net/http/httptest"
	"strings"
	"sync"
	"time"

	asset "github.com/buchgr/bazel-remote/v2/genproto/build/bazel/remote/asset/v1"
	pb "github.com/buchgr/bazel-remote/v2/genproto/build/bazel/remote/execution/v2"
	"github.com/klauspost/compress/zstd"
	"google.golang.org/genproto/googleapis/bytestream"
	"google.golang.org/grpc/codes"
	"google.golang.org/grpc/status"

	"verif/harness/internal/drv"
	"verif/harness/internal/fe"
	"verif/harness/internal/fmtw"
)

// IngressCase is one row of the table written by Ingress.tla.
type IngressCase struct {
	Path         string   `json:"path"`
	Defect       string   `json:"defect"`
	Present      bool     `json:"present"`
	Limit        string   `json:"limit"`
	Framing      string   `json:"framing"` // framing rows: how the (valid) zstd stream is framed
	Allowed      []string `json:"allowed"`
	PresentAfter string   `json:"presentAfter"`
}

// IngressRun is one concretised execution of a case.
type IngressRun struct {
	Case    IngressCase `json:"case"`
	Mode    string      `json:"mode"`
	Impl    string      `json:"impl"`
	Size    int         `json:"size"`
	Content int         `json:"content_class"`
	Outcome string      `json:"outcome"`
	Detail  string      `json:"detail,omitempty"`
	After   string      `json:"present_after"`
}

var zenc, _ = zstd.NewWriter(nil)

func zstdEncode(b []byte) []byte { return zenc.EncodeAll(b, nil) }

func sha(b []byte) string { h := sha256.Sum256(b); return hex.EncodeToString(h[:]) }

// origin is a loopback HTTP server for FetchBlob cases.
type origin struct {
	srv   *httptest.Server
	mu    sync.Mutex
	blobs map[string]originBlob
}
type originBlob struct {
	body    []byte
	declare int // Content-Length to declare (-1: chunked)
	cut     int // close the connection after this many body bytes (-1: never)
}

func newOrigin() *origin {
	o := &origin{blobs: map[string]originBlob{}}
	o.srv = httptest.NewServer(http.HandlerFunc(func(w http.ResponseWriter, r *http.Request) {
		o.mu.Lock()
		b, ok := o.blobs[r.URL.Path]
		o.mu.Unlock()
		if !ok {
			http.NotFound(w, r)
			return
		}
		if b.cut >= 0 {
			hj, ok := w.(http.Hijacker)
			if !ok {
				return
			}
			conn, buf, err := hj.Hijack()
			if err != nil {
				return
			}
			fmt.Fprintf(buf, "HTTP/1.1 200 OK\r\nContent-Length: %d\r\nContent-Type: application/octet-stream\r\n\r\n", b.declare)
			_, _ = buf.Write(b.body[:b.cut])
			_ = buf.Flush()
			_ = conn.Close()
			return
		}
		if b.declare >= 0 {
			w.Header().Set("Content-Length", fmt.Sprint(b.declare))
		}
		w.WriteHeader(200)
		_, _ = w.Write(b.body)
	}))
	return o
}

// execIngress performs one upload attempt and classifies the answer.
func execIngress(f *fe.Fixture, o *origin, c IngressCase, rng *rand.Rand, size int, class int) (outcome, detail, claimH string, claimS int64, err error) {
	D := drv.GenData(rng, size, class)
	other := drv.GenData(rng, size, class)
	for bytes.Equal(other, D) {
		other = drv.GenData(rng, size, class)
	}
	data := D
	H, S := sha(D), int64(len(D))
	switch c.Defect {
	case "flip":
		data = append([]byte{}, D...)
		data[rng.Intn(len(data))] ^= 0x20
	case "truncate":
		data = D[:len(D)-1]
	case "extend":
		data = append(append([]byte{}, D...), 'x')
	case "sizePlus":
		S++
	case "sizeMinus":
		S--
	case "wrongHash":
		H = sha(other)
	case "zeroLenNonEmptyHash":
		S = 0
		data = []byte{}
	}
	claimH, claimS = H, S

	if c.Present {
		ctx, cancel := fe.Ctx()
		r, e := f.CAS.BatchUpdateBlobs(ctx, &pb.BatchUpdateBlobsRequest{Requests: []*pb.BatchUpdateBlobsRequest_Request{{Digest: &pb.Digest{Hash: sha(D), SizeBytes: int64(len(D))}, Data: D}}})
		cancel()
		if e != nil || len(r.Responses) != 1 || r.Responses[0].Status.GetCode() != 0 {
			return "", "", claimH, claimS, fmt.Errorf("pre-upload failed: %v %v", e, r)
		}
	}

	transport := data
	if c.Path == "HttpPutZstd" || c.Path == "BatchZstd" || c.Path == "BsZstd" {
		transport = zstdEncode(data)
		switch c.Defect {
		case "malformedFrame":
			transport = append([]byte{}, transport...)
			transport[0] ^= 0xff // break the magic number
			if len(transport) > 12 && rng.Intn(2) == 0 {
				transport[0] ^= 0xff
				transport = transport[:len(transport)-3] // or cut the frame short
			}
		case "trailingBytes":
			transport = append(append([]byte{}, transport...), []byte("trailing-bytes-after-the-frame")...)
		}
	}

	classify := func(e error) (string, string) {
		if e == nil {
			return "ack", ""
		}
		st, _ := status.FromError(e)
		if st.Code() == codes.InvalidArgument || st.Code() == codes.OutOfRange || st.Code() == codes.FailedPrecondition {
			return "clientError", st.Code().String() + ": " + st.Message()
		}
		return "reject", st.Code().String() + ": " + st.Message()
	}

	switch c.Path {
	case "HttpPut", "HttpPutZstd":
		hdr := map[string]string{}
		if c.Path == "HttpPutZstd" {
			hdr["Content-Encoding"] = "zstd"
			hdr["X-Digest-SizeBytes"] = fmt.Sprint(S)
			if c.Defect == "badCompressor" {
				hdr["Content-Encoding"] = "gzip"
			}
		}
		if c.Defect == "abort" {
			code, e := httpAbortPut(f, "/cas/"+H, transport)
			if e != nil || code == 0 {
				return "reject", "connection aborted", claimH, claimS, nil
			}
			if code == 200 {
				return "ack", "", claimH, claimS, nil
			}
			return "reject", fmt.Sprint(code), claimH, claimS, nil
		}
		code, body, _, e := f.HTTPDo("PUT", "/cas/"+H, transport, hdr)
		if e != nil {
			return "", "", claimH, claimS, e
		}
		switch {
		case code == 200:
			return "ack", "", claimH, claimS, nil
		case code >= 400 && code < 500:
			return "clientError", fmt.Sprintf("%d %s", code, strings.TrimSpace(string(body))), claimH, claimS, nil
		default:
			return "reject", fmt.Sprintf("%d %s", code, strings.TrimSpace(string(body))), claimH, claimS, nil
		}

	case "BatchIdentity", "BatchZstd":
		req := &pb.BatchUpdateBlobsRequest_Request{Digest: &pb.Digest{Hash: H, SizeBytes: S}, Data: transport}
		if c.Path == "BatchZstd" {
			req.Compressor = pb.Compressor_ZSTD
			if c.Defect == "badCompressor" {
				req.Compressor = pb.Compressor_DEFLATE
			}
		}
		ctx, cancel := fe.Ctx()
		defer cancel()
		r, e := f.CAS.BatchUpdateBlobs(ctx, &pb.BatchUpdateBlobsRequest{Requests: []*pb.BatchUpdateBlobsRequest_Request{req}})
		if e != nil {
			oc, d := classify(e)
			return oc, d, claimH, claimS, nil
		}
		if len(r.Responses) != 1 {
			return "reject", "no per-blob response", claimH, claimS, nil
		}
		cd := codes.Code(r.Responses[0].Status.GetCode())
		if cd == codes.OK {
			return "ack", "", claimH, claimS, nil
		}
		oc, d := classify(status.Error(cd, r.Responses[0].Status.GetMessage()))
		return oc, d, claimH, claimS, nil

	case "BsBlobs", "BsZstd":
		name := fmt.Sprintf("uploads/%08x-aaaa-bbbb-cccc-000000000000/blobs/%s/%d", rng.Uint32(), H, S)
		if c.Path == "BsZstd" {
			comp := "zstd"
			if c.Defect == "badCompressor" {
				comp = "deflate"
			}
			name = fmt.Sprintf("uploads/%08x-aaaa-bbbb-cccc-000000000000/compressed-blobs/%s/%s/%d", rng.Uint32(), comp, H, S)
		}
		ctx, cancel := context.WithTimeout(context.Background(), 60*time.Second)
		defer cancel()
		w, e := f.BS.Write(ctx)
		if e != nil {
			return "", "", claimH, claimS, e
		}
		chunk := 1 << 20
		sent := 0
		first := true
		for sent < len(transport) || first {
			end := sent + chunk
			if end > len(transport) {
				end = len(transport)
			}
			if c.Defect == "abort" && sent >= len(transport)/2 && !first {
				cancel() // the client goes away part-way (no half-close, see below)
				_ = w.RecvMsg(new(bytestream.WriteResponse))
				return "reject", "client aborted", claimH, claimS, nil
			}
			rq := &bytestream.WriteRequest{Data: transport[sent:end], WriteOffset: int64(sent), FinishWrite: end == len(transport) && c.Defect != "abort"}
			if first {
				rq.ResourceName = name
			}
			first = false
			if e = w.Send(rq); e != nil {
				break
			}
			sent = end
		}
		if c.Defect == "abort" {
			cancel()
			// no half-close: CloseAndRecv would send END_STREAM, which can overtake the reset - and a stream that
			// delivered all the bytes (a blob of one byte travels in the first message) and then ends cleanly is
			// a complete upload, which the server is right to store
			_ = w.RecvMsg(new(bytestream.WriteResponse))
			return "reject", "client aborted", claimH, claimS, nil
		}
		resp, e := w.CloseAndRecv()
		if e != nil {
			oc, d := classify(e)
			return oc, d, claimH, claimS, nil
		}
		return "ack", fmt.Sprintf("committed_size=%d", resp.CommittedSize), claimH, claimS, nil

	case "SpliceDigest", "SpliceNoDigest":
		// chunks of D are uploaded first (well-formed), then spliced
		var parts [][]byte
		if len(D) < 3 {
			parts = [][]byte{D}
		} else {
			a, b := len(D)/3, 2*len(D)/3
			parts = [][]byte{D[:a], D[a:b], D[b:]}
		}
		skip := -1
		switch c.Defect {
		case "flip":
			p := append([]byte{}, parts[len(parts)-1]...)
			p[0] ^= 0x11
			parts[len(parts)-1] = p
		case "truncate":
			skip = len(parts) - 1 // listed but never uploaded
		case "extend":
			parts = append(parts, []byte("extra-chunk"))
		}
		var ds []*pb.Digest
		var ups []*pb.BatchUpdateBlobsRequest_Request
		for i, p := range parts {
			d := &pb.Digest{Hash: sha(p), SizeBytes: int64(len(p))}
			ds = append(ds, d)
			if i != skip {
				ups = append(ups, &pb.BatchUpdateBlobsRequest_Request{Digest: d, Data: p})
			}
		}
		ctx, cancel := fe.Ctx()
		defer cancel()
		if len(ups) > 0 {
			if _, e := f.CAS.BatchUpdateBlobs(ctx, &pb.BatchUpdateBlobsRequest{Requests: ups}); e != nil {
				return "", "", claimH, claimS, e
			}
		}
		req := &pb.SpliceBlobRequest{ChunkDigests: ds}
		if c.Path == "SpliceDigest" {
			req.BlobDigest = &pb.Digest{Hash: H, SizeBytes: S}
		}
		r, e := f.CAS.SpliceBlob(ctx, req)
		if e != nil {
			oc, d := classify(e)
			return oc, d, claimH, claimS, nil
		}
		if c.Path == "SpliceNoDigest" {
			claimH, claimS = r.BlobDigest.GetHash(), r.BlobDigest.GetSizeBytes()
			if c.Defect == "none" && (claimH != sha(D) || claimS != int64(len(D))) {
				return "ack", "server computed digest " + claimH[:8] + " differs from the content's", claimH, claimS, nil
			}
		}
		return "ack", "", claimH, claimS, nil

	case "AcInlineFile", "AcInlineStdout", "AcInlineStderr":
		ar := &pb.ActionResult{}
		dg := &pb.Digest{Hash: H, SizeBytes: S}
		switch c.Path {
		case "AcInlineFile":
			ar.OutputFiles = []*pb.OutputFile{{Path: "out/file", Digest: dg, Contents: data}}
		case "AcInlineStdout":
			ar.StdoutRaw, ar.StdoutDigest = data, dg
		default:
			ar.StderrRaw, ar.StderrDigest = data, dg
		}
		key := sha([]byte(fmt.Sprintf("action-%d", rng.Int63())))
		ctx, cancel := fe.Ctx()
		defer cancel()
		_, e := f.AC.UpdateActionResult(ctx, &pb.UpdateActionResultRequest{ActionDigest: &pb.Digest{Hash: key, SizeBytes: 42}, ActionResult: ar})
		oc, d := classify(e)
		return oc, d, claimH, claimS, nil

	case "FetchBlobSri", "FetchBlobPlain":
		p := fmt.Sprintf("/blob-%d", rng.Int63())
		ob := originBlob{body: data, declare: len(data), cut: -1}
		if c.Defect == "abort" {
			ob.cut = len(data) / 2
		}
		if rng.Intn(2) == 0 && c.Defect != "abort" {
			ob.declare = -1 // origin without Content-Length
		}
		o.mu.Lock()
		o.blobs[p] = ob
		o.mu.Unlock()
		req := &asset.FetchBlobRequest{Uris: []string{o.srv.URL + p}}
		if c.Path == "FetchBlobSri" {
			raw, _ := hex.DecodeString(H)
			req.Qualifiers = []*asset.Qualifier{{Name: "checksum.sri", Value: "sha256-" + base64.StdEncoding.EncodeToString(raw)}}
		}
		ctx, cancel := fe.Ctx()
		defer cancel()
		r, e := f.Fetch.FetchBlob(ctx, req)
		if e != nil {
			oc, d := classify(e)
			return oc, d, claimH, claimS, nil
		}
		cd := codes.Code(r.GetStatus().GetCode())
		if cd != codes.OK {
			if cd == codes.InvalidArgument {
				return "clientError", cd.String(), claimH, claimS, nil
			}
			if cd == codes.NotFound {
				return "notFound", cd.String(), claimH, claimS, nil
			}
			return "reject", cd.String(), claimH, claimS, nil
		}
		if r.BlobDigest.GetHash() != H || r.BlobDigest.GetSizeBytes() != S {
			return "ack", fmt.Sprintf("answered digest %s/%d, want %s/%d", r.BlobDigest.GetHash()[:8], r.BlobDigest.GetSizeBytes(), H[:8], S), claimH, claimS, nil
		}
		return "ack", "", claimH, claimS, nil
	}
	return "", "", claimH, claimS, fmt.Errorf("unknown path %s", c.Path)
}

// httpAbortPut announces len(body) bytes and closes the connection half-way.
func httpAbortPut(f *fe.Fixture, path string, body []byte) (int, error) {
	addr := strings.TrimPrefix(f.HTTP.URL, "http://")
	conn, err := net.DialTimeout("tcp", addr, 5*time.Second)
	if err != nil {
		return 0, err
	}
	defer conn.Close()
	fmt.Fprintf(conn, "PUT %s HTTP/1.1\r\nHost: %s\r\nContent-Length: %d\r\n\r\n", path, addr, len(body))
	_, _ = conn.Write(body[:len(body)/2])
	if tc, ok := conn.(*net.TCPConn); ok {
		_ = tc.CloseWrite()
	}
	_ = conn.SetReadDeadline(time.Now().Add(5 * time.Second))
	buf := make([]byte, 64)
	n, _ := conn.Read(buf)
	var code int
	if n > 12 {
		fmt.Sscanf(string(buf[9:12]), "%d", &code)
	}
	return code, nil
}

// Presence reports whether (hash,size) is reported present and, if so,
// whether it reads back as exactly the content with that digest.
func Presence(f *fe.Fixture, hash string, size int64) (present bool, readable bool, detail string, err error) {
	if size < 0 || len(hash) != 64 {
		return false, false, "unaddressable digest", nil
	}
	ctx, cancel := fe.Ctx()
	defer cancel()
	r, e := f.CAS.FindMissingBlobs(ctx, &pb.FindMissingBlobsRequest{BlobDigests: []*pb.Digest{{Hash: hash, SizeBytes: size}}})
	if e != nil {
		if status.Code(e) == codes.InvalidArgument {
			return false, false, "digest refused: " + status.Convert(e).Message(), nil
		}
		return false, false, "", e
	}
	if len(r.MissingBlobDigests) > 0 {
		return false, false, "", nil
	}
	if size == 0 {
		return true, true, "", nil
	}
	rd, e := f.BS.Read(ctx, &bytestream.ReadRequest{ResourceName: fmt.Sprintf("blobs/%s/%d", hash, size)})
	if e != nil {
		return true, false, e.Error(), nil
	}
	h := sha256.New()
	var n int64
	for {
		m, e := rd.Recv()
		if e == io.EOF {
			break
		}
		if e != nil {
			return true, false, "read failed: " + e.Error(), nil
		}
		h.Write(m.Data)
		n += int64(len(m.Data))
	}
	if n != size || hex.EncodeToString(h.Sum(nil)) != hash {
		return true, false, fmt.Sprintf("read %d bytes hashing to %s", n, hex.EncodeToString(h.Sum(nil))[:8]), nil
	}
	return true, true, "", nil
}

var ErrNoCases = errors.New("no cases")

func contains(xs []string, x string) bool {
	for _, y := range xs {
		if y == x {
			return true
		}
	}
	return false
}

// RunIngress executes every case for every configuration and size.
// limitCases selects the C18 part of the table (limit != none) or the C01 part.
func RunIngress(cases []IngressCase, seed int64, sizes []int, modes, impls []string, limitCases bool) (runs []IngressRun, viols []drv.Violation, err error) {
	rng := rand.New(rand.NewSource(seed))
	o := newOrigin()
	defer o.srv.Close()
	prop := "C01"
	if limitCases {
		prop = "C18"
	}
	for _, mode := range modes {
		for _, impl := range impls {
			if mode == "uncompressed" && impl == "cgo" {
				continue // the codec only matters for compressed storage
			}
			for _, size := range sizes {
				// one fixture per limit value
				fixtures := map[string]*fe.Fixture{}
				get := func(limit string) (*fe.Fixture, error) {
					if f, ok := fixtures[limit]; ok {
						return f, nil
					}
					opt := fe.Opts{Mode: mode, Impl: impl, MaxSize: 1 << 30}
					switch limit {
					case "below":
						opt.MaxBlobSize = int64(size) - 1
					case "exact":
						opt.MaxBlobSize = int64(size)
					case "above":
						opt.MaxBlobSize = int64(size) + 1
					}
					f, e := fe.New(opt)
					if e != nil {
						return nil, e
					}
					fixtures[limit] = f
					return f, nil
				}
				for ci, c := range cases {
					if (c.Limit != "none") != limitCases || c.Framing != "" {
						continue
					}
					if c.Limit == "below" && size <= 1 {
						continue // a limit of 0 is not a valid configuration
					}
					if (c.Defect == "sizeMinus" || c.Defect == "truncate") && size <= 1 {
						continue // would become the empty blob
					}
					if strings.HasPrefix(c.Path, "Splice") && c.Defect != "none" && size < 3 {
						continue // the only chunk would be the blob itself
					}
					if size < 8 {
						// too few distinct blobs of this size to share a cache between cases
						for k, f := range fixtures {
							f.Close()
							delete(fixtures, k)
						}
					}
					f, e := get(c.Limit)
					if e != nil {
						return runs, viols, e
					}
					class := (ci + size) % 3
					oc, detail, h, s, e := execIngress(f, o, c, rng, size, class)
					if e != nil {
						return runs, viols, fmt.Errorf("case %+v size %d: %w", c, size, e)
					}
					run := IngressRun{Case: c, Mode: mode, Impl: impl, Size: size, Content: class, Outcome: oc, Detail: detail}
					sig := fmt.Sprintf("%s/%s present=%v limit=%s", c.Path, c.Defect, c.Present, c.Limit)
					bad := func(f string, a ...any) {
						viols = append(viols, drv.Violation{Prop: prop, What: sig + fmt.Sprintf(" mode=%s impl=%s size=%d: ", mode, impl, size) + fmt.Sprintf(f, a...), Hist: ci, Op: size})
					}
					allowed := c.Allowed
					// "clientError" is a kind of rejection: accept it wherever "reject" is allowed
					okOutcome := contains(allowed, oc) || ((oc == "clientError" || oc == "notFound") && contains(allowed, "reject"))
					if !okOutcome {
						bad("answered %q (%s), the specification allows %v", oc, detail, allowed)
					}
					if oc == "ack" && strings.Contains(detail, "digest") && !strings.HasPrefix(detail, "committed") {
						bad("acknowledged with a wrong digest: %s", detail)
					}
					p, readable, pd, e := Presence(f, h, s)
					if e != nil {
						return runs, viols, e
					}
					run.After = fmt.Sprintf("present=%v readable=%v", p, readable)
					switch {
					case oc == "ack" && (!p || !readable):
						bad("acknowledged but the claimed digest is not present and readable afterwards (%s)", pd)
					case c.PresentAfter == "no" && p:
						bad("upload answered %q yet the claimed digest %s/%d is reported present afterwards", oc, h[:8], s)
					case c.PresentAfter == "yes" && oc != "ack" && !c.Present:
						// (cannot happen: presentAfter=yes without present implies allowed={ack})
					case p && !readable:
						bad("claimed digest is reported present but does not read back as its content (%s)", pd)
					}
					// C14: whatever the answer, nothing of the request stays behind - no descriptor into the
					// cache directory (a deleted temporary file still open counts), no reservation
					if !waitFor(func() bool { return openCacheFiles(f.Dir) == 0 }, 3*time.Second) {
						viols = append(viols, drv.Violation{Prop: "C14", What: sig + fmt.Sprintf(" mode=%s impl=%s size=%d: %d descriptor(s) into the cache directory still open 3 s after the upload was answered %q", mode, impl, size, openCacheFiles(f.Dir), oc), Hist: ci, Op: size})
					}
					if _, resv, _, _ := f.Cache.Stats(); resv != 0 {
						if !waitFor(func() bool { _, r, _, _ := f.Cache.Stats(); return r == 0 }, 3*time.Second) {
							viols = append(viols, drv.Violation{Prop: "C14", What: sig + fmt.Sprintf(" mode=%s impl=%s size=%d: %d bytes still reserved 3 s after the upload was answered %q", mode, impl, size, resv, oc), Hist: ci, Op: size})
						}
					}
					runs = append(runs, run)
				}
				for _, f := range fixtures {
					f.Close()
				}
			}
		}
	}
	if len(runs) == 0 {
		return runs, viols, ErrNoCases
	}
	if !limitCases {
		r2, v2, e := ingressFramings(cases, rng, modes)
		runs = append(runs, r2...)
		viols = append(viols, v2...)
		if e != nil {
			return runs, viols, e
		}
	}
	return runs, viols, nil
}

// ingressFramings executes the framing rows of Ingress.tla: one blob of several MiB, compressed in the ways a
// client's encoder may choose, uploaded through the streaming transports.
func ingressFramings(cases []IngressCase, rng *rand.Rand, modes []string) (runs []IngressRun, viols []drv.Violation, err error) {
	data := append(drv.GenData(rng, 5<<20, 2), drv.GenData(rng, 4<<20+4099, 0)...) // 9 MiB and a bit: text, then noise
	H, S := sha(data), int64(len(data))
	frame := func(fr string) ([]byte, error) {
		var buf bytes.Buffer
		switch fr {
		case "singleSegment":
			return zenc.EncodeAll(data, nil), nil // announces the content size: the window is the content
		case "defaultWindow", "window16MiB":
			opts := []zstd.EOption{zstd.WithEncoderLevel(zstd.SpeedDefault)}
			if fr == "window16MiB" {
				opts = append(opts, zstd.WithWindowSize(16<<20))
			}
			w, e := zstd.NewWriter(&buf, opts...)
			if e != nil {
				return nil, e
			}
			for off := 0; off < len(data); off += 1 << 20 { // streamed: the encoder does not know the size in advance
				end := off + 1<<20
				if end > len(data) {
					end = len(data)
				}
				if _, e := w.Write(data[off:end]); e != nil {
					return nil, e
				}
			}
			if e := w.Close(); e != nil {
				return nil, e
			}
			return buf.Bytes(), nil
		}
		return nil, fmt.Errorf("unknown framing %s", fr)
	}
	for _, mode := range modes {
		for ci, c := range cases {
			if c.Framing == "" {
				continue
			}
			transport, e := frame(c.Framing)
			if e != nil {
				return runs, viols, e
			}
			// the stream is valid by an independent decoder's account, otherwise the row says nothing
			if dec, e := fmtw.DecodeZstdStream(transport); e != nil || !bytes.Equal(dec, data) {
				return runs, viols, fmt.Errorf("framing %s: the harness's own stream does not decode: %v", c.Framing, e)
			}
			f, e := fe.New(fe.Opts{Mode: mode, MaxSize: 1 << 30})
			if e != nil {
				return runs, viols, e
			}
			oc, detail := "", ""
			switch c.Path {
			case "HttpPutZstd":
				code, body, _, e := f.HTTPDo(http.MethodPut, "/cas/"+H, transport, map[string]string{"Content-Encoding": "zstd", "X-Digest-SizeBytes": fmt.Sprint(S)})
				if e != nil {
					f.Close()
					return runs, viols, e
				}
				oc, detail = "reject", fmt.Sprintf("status %d %s", code, strings.TrimSpace(string(body)))
				if code == 200 {
					oc = "ack"
				}
			case "BsZstd":
				ctx, cancel := context.WithTimeout(context.Background(), 60*time.Second)
				w, e := f.BS.Write(ctx)
				if e != nil {
					cancel()
					f.Close()
					return runs, viols, e
				}
				name := fmt.Sprintf("uploads/%08x-aaaa-bbbb-cccc-000000000000/compressed-blobs/zstd/%s/%d", rng.Uint32(), H, S)
				for sent := 0; sent < len(transport); sent += 1 << 20 {
					end := sent + 1<<20
					if end > len(transport) {
						end = len(transport)
					}
					rq := &bytestream.WriteRequest{Data: transport[sent:end], WriteOffset: int64(sent), FinishWrite: end == len(transport)}
					if sent == 0 {
						rq.ResourceName = name
					}
					if e := w.Send(rq); e != nil {
						break
					}
				}
				_, e = w.CloseAndRecv()
				cancel()
				oc, detail = "ack", ""
				if e != nil {
					oc, detail = "reject", e.Error()
				}
			}
			p, readable, pd, e := Presence(f, H, S)
			if e != nil {
				f.Close()
				return runs, viols, e
			}
			runs = append(runs, IngressRun{Case: c, Mode: mode, Impl: "go", Size: len(data), Outcome: oc})
			where := fmt.Sprintf("%s of a well-formed zstd stream framed as %s (blob of %d bytes, %d on the wire) mode=%s", c.Path, c.Framing, len(data), len(transport), mode)
			if !contains(c.Allowed, oc) {
				viols = append(viols, drv.Violation{Prop: "C01", What: where + fmt.Sprintf(": answered %q (%s), the specification allows %v", oc, detail, c.Allowed), Hist: ci})
			} else if !p || !readable {
				viols = append(viols, drv.Violation{Prop: "C01", What: where + fmt.Sprintf(": acknowledged, but the blob is present=%v readable=%v afterwards (%s)", p, readable, pd), Hist: ci})
			}
			f.Close()
		}
	}
	return runs, viols, nil
}

var _ = bytes.Equal
