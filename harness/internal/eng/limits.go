package eng

import (
	"bytes"
	"context"
	"encoding/base64"
	"encoding/hex"
	"fmt"
	"io"
	"math/rand"
	"net/http"
	"strings"
	"time"

	"github.com/buchgr/bazel-remote/v2/cache"
	asset "github.com/buchgr/bazel-remote/v2/genproto/build/bazel/remote/asset/v1"
	pb "github.com/buchgr/bazel-remote/v2/genproto/build/bazel/remote/execution/v2"
	"google.golang.org/grpc/codes"
	"google.golang.org/grpc/status"
	"google.golang.org/protobuf/proto"

	"verif/harness/internal/drv"
	"verif/harness/internal/fe"
	"verif/harness/internal/fmtw"
	"verif/harness/internal/rec"
)

// LimCase is one row of Limits.tla's table.
type LimCase struct {
	Path        string `json:"path"`
	Known       bool   `json:"known"`
	Kind        string `json:"kind"`
	Relation    string `json:"relation"`
	Positive    bool   `json:"positive"`
	AsksBackend bool   `json:"asks_backend"`
	CachedAfter bool   `json:"cached_after"`
}

// LimRun is one executed row.
type LimRun struct {
	Case   LimCase `json:"case"`
	Mode   string  `json:"mode"`
	Limit  int     `json:"limit"`
	Size   int     `json:"size"`
	Answer string  `json:"answer"`
}

// arOfSize builds a serialized ActionResult of exactly n bytes (by padding the worker name).
func arOfSize(rng *rand.Rand, n int, out *pb.Digest) ([]byte, error) {
	mk := func(pad int) []byte {
		ar := &pb.ActionResult{ExitCode: 0, ExecutionMetadata: &pb.ExecutedActionMetadata{Worker: strings.Repeat("w", pad)}}
		if out != nil {
			ar.OutputFiles = []*pb.OutputFile{{Path: "out/file", Digest: out}}
		}
		b, _ := proto.Marshal(ar)
		return b
	}
	base := len(mk(1)) - 1
	for pad := n - base - 12; pad <= n-base+2; pad++ {
		if pad < 1 {
			continue
		}
		if b := mk(pad); len(b) == n {
			return b, nil
		}
	}
	return nil, fmt.Errorf("no action result of exactly %d bytes", n)
}

// RunLimits executes the table against real front ends over a fake backend.
func RunLimits(cases []LimCase, seed int64) (runs []LimRun, viols []drv.Violation, err error) {
	rng := rand.New(rand.NewSource(seed))
	for _, mode := range []string{"zstd", "uncompressed"} {
		for _, L := range []int{5000, 1 << 20} {
			px := drv.NewFakeProxy()
			f, e := fe.New(fe.Opts{Mode: mode, MaxSize: 1 << 30, Proxy: px, ProxyMaxBlob: int64(L)})
			if e != nil {
				return runs, viols, e
			}
			ctx := context.Background()
			for ci, c := range cases {
				if L > 100000 && (ci+int(seed))%3 != 0 {
					continue
				}
				size := map[string]int{"below": L - 1, "exact": L, "above": L + 1, "far": 10 * L}[c.Relation]
				where := fmt.Sprintf("%s mode, max_proxy_blob_size %d, %s of a backend-only %s object of %d bytes (%s the limit)", mode, L, c.Path, c.Kind, size, c.Relation)
				bad := func(fm string, a ...any) {
					viols = append(viols, drv.Violation{Prop: "C18", What: where + ": " + fmt.Sprintf(fm, a...), Hist: ci})
				}
				// the object, in the backend only
				var hash string
				var data []byte
				kind := cache.CAS
				if c.Kind == "ac" {
					kind = cache.AC
					var e error
					data, e = arOfSize(rng, size, nil)
					if e != nil {
						// sizes that no padding reaches exactly: the nearest on the same side of the limit
						for d := 1; d < 4 && data == nil; d++ {
							alt := size + d
							if c.Relation == "below" || c.Relation == "exact" {
								alt = size - d
							}
							data, _ = arOfSize(rng, alt, nil)
						}
						if data == nil || c.Relation == "exact" {
							continue
						}
					}
					hash = fmtw.Sha([]byte(fmt.Sprintf("lim-%d-%d-%d", ci, L, rng.Int63())))
				} else {
					data = drv.GenData(rng, size, rng.Intn(3))
					hash = fmtw.Sha(data)
				}
				key := cache.LookupKey(kind, hash)
				px.SetObj(key, onBackend(data, kind, mode), int64(len(data)))
				callsBefore := px.GetCalls(key) + px.ContainsCallsFor(key)
				answer := "negative"
				switch c.Path {
				case "Get", "GetUnknown":
					sz := int64(len(data))
					if !c.Known {
						sz = -1
					}
					rc, _, e := f.Cache.Get(ctx, kind, hash, sz, 0)
					if e == nil && rc != nil {
						b, _ := io.ReadAll(rc)
						rc.Close()
						if bytes.Equal(b, data) {
							answer = "positive"
						} else {
							answer = "wrong bytes"
						}
					}
					if !c.Known { // also through HTTP
						code, body, _, _ := f.HTTPDo(http.MethodGet, "/cas/"+hash, nil, nil)
						if (code == 200) != (answer == "positive") && answer != "wrong bytes" {
							bad("disk.Get and HTTP GET disagree (%s vs status %d)", answer, code)
						}
						if code == 200 && !bytes.Equal(body, data) {
							answer = "wrong bytes"
						}
					}
				case "ByteStreamRead":
					b, e := bsRead(f, fmt.Sprintf("blobs/%s/%d", hash, len(data)), 0, 0)
					if e == nil && bytes.Equal(b, data) {
						answer = "positive"
					} else if e == nil {
						answer = "wrong bytes"
					}
				case "BatchReadBlobs":
					cctx, cancel := fe.Ctx()
					r, e := f.CAS.BatchReadBlobs(cctx, &pb.BatchReadBlobsRequest{Digests: []*pb.Digest{{Hash: hash, SizeBytes: int64(len(data))}}})
					cancel()
					if e == nil && len(r.Responses) == 1 && r.Responses[0].Status.GetCode() == 0 {
						if bytes.Equal(r.Responses[0].Data, data) {
							answer = "positive"
						} else {
							answer = "wrong bytes"
						}
					}
				case "Contains", "ContainsUnknown":
					sz := int64(len(data))
					if !c.Known {
						sz = -1
					}
					ok, _ := f.Cache.Contains(ctx, kind, hash, sz)
					if ok {
						answer = "positive"
					}
					if !c.Known {
						code, _, _, _ := f.HTTPDo(http.MethodHead, "/cas/"+hash, nil, nil)
						if (code == 200) != ok {
							bad("disk.Contains and HTTP HEAD disagree (%v vs status %d)", ok, code)
						}
					}
				case "FindMissingBlobs":
					cctx, cancel := fe.Ctx()
					r, e := f.CAS.FindMissingBlobs(cctx, &pb.FindMissingBlobsRequest{BlobDigests: []*pb.Digest{{Hash: hash, SizeBytes: int64(len(data))}}})
					cancel()
					if e == nil && len(r.MissingBlobDigests) == 0 {
						answer = "positive"
					}
				case "DependencyCheck":
					arb, e := arOfSize(rng, 120, &pb.Digest{Hash: hash, SizeBytes: int64(len(data))})
					if e != nil {
						return runs, viols, e
					}
					ah := fmtw.Sha([]byte(fmt.Sprintf("dep-%d-%d-%d", ci, L, rng.Int63())))
					if e := f.Cache.Put(ctx, cache.AC, ah, int64(len(arb)), bytes.NewReader(arb)); e != nil {
						return runs, viols, e
					}
					cctx, cancel := fe.Ctx()
					_, e = f.AC.GetActionResult(cctx, &pb.GetActionResultRequest{ActionDigest: &pb.Digest{Hash: ah, SizeBytes: 1}})
					cancel()
					if e == nil {
						answer = "positive"
					} else if status.Code(e) != codes.NotFound {
						answer = "error " + e.Error()
					}
				case "GetActionResult":
					cctx, cancel := fe.Ctx()
					ar, e := f.AC.GetActionResult(cctx, &pb.GetActionResultRequest{ActionDigest: &pb.Digest{Hash: hash, SizeBytes: 1}})
					cancel()
					if e == nil {
						want := &pb.ActionResult{}
						_ = proto.Unmarshal(data, want)
						if proto.Equal(ar, want) {
							answer = "positive"
						} else {
							answer = "wrong bytes"
						}
					}
				case "HttpGetAc":
					code, body, _, _ := f.HTTPDo(http.MethodGet, "/ac/"+hash, nil, nil)
					if code == 200 {
						a, b := &pb.ActionResult{}, &pb.ActionResult{}
						if proto.Unmarshal(body, a) == nil && proto.Unmarshal(data, b) == nil && proto.Equal(a, b) {
							answer = "positive"
						} else {
							answer = "wrong bytes"
						}
					}
				case "FetchBlob":
					raw, _ := hex.DecodeString(hash)
					cctx, cancel := fe.Ctx()
					r, e := f.Fetch.FetchBlob(cctx, &asset.FetchBlobRequest{Qualifiers: []*asset.Qualifier{{Name: "checksum.sri", Value: "sha256-" + base64.StdEncoding.EncodeToString(raw)}}})
					cancel()
					if e == nil && r.GetStatus().GetCode() == 0 && r.GetBlobDigest().GetHash() == hash {
						answer = "positive"
					}
				}
				runs = append(runs, LimRun{Case: c, Mode: mode, Limit: L, Size: len(data), Answer: answer})
				if (answer == "positive") != c.Positive {
					bad("answered %s, the specification says %v", answer, map[bool]string{true: "served / present", false: "not served, not present"}[c.Positive])
				}
				if strings.HasPrefix(answer, "wrong") {
					bad("delivered bytes that are not the object")
				}
				asked := px.GetCalls(key) + px.ContainsCallsFor(key) - callsBefore
				if !c.AsksBackend && asked > 0 {
					bad("the backend was consulted %d time(s) although the stated size already exceeds the limit", asked)
				}
				rec.WaitIdle(f.Cache, 2*time.Second)
				ents, _ := rec.ListDir(f.Dir)
				files := 0
				for _, en := range ents {
					if strings.Contains(en.Path, hash) {
						files++
					}
				}
				if !c.Positive && files > 0 {
					bad("%d file(s) of the over-limit object were cached locally", files)
				}
				if c.CachedAfter && answer == "positive" && files != 1 && c.Path != "DependencyCheck" {
					bad("a served object within the limit was not cached locally (%d files)", files)
				}
			}
			f.Close()
		}
	}
	// the advertised limit is the configured one
	for _, lim := range []int64{1, 4096, 1 << 20, 5 << 30} {
		f, e := fe.New(fe.Opts{MaxBlobSize: lim})
		if e != nil {
			return runs, viols, e
		}
		cctx, cancel := fe.Ctx()
		caps, e := f.Caps.GetCapabilities(cctx, &pb.GetCapabilitiesRequest{})
		cancel()
		if e != nil || caps.GetCacheCapabilities().GetMaxCasBlobSizeBytes() != lim {
			viols = append(viols, drv.Violation{Prop: "C18", What: fmt.Sprintf("max_blob_size %d: GetCapabilities advertises max_cas_blob_size_bytes %d (%v)", lim, caps.GetCacheCapabilities().GetMaxCasBlobSizeBytes(), e)})
		}
		// and it is the limit that is enforced: limit accepted, limit+1 refused
		if lim <= 1<<20 {
			for _, d := range []int64{0, 1} {
				data := drv.GenData(rng, int(lim+d), 0)
				e := f.Cache.Put(context.Background(), cache.CAS, fmtw.Sha(data), lim+d, bytes.NewReader(data))
				if (e == nil) != (d == 0) {
					viols = append(viols, drv.Violation{Prop: "C18", What: fmt.Sprintf("advertised max_cas_blob_size_bytes %d, an upload of %d bytes is answered %v", lim, lim+d, e)})
				}
			}
		}
		runs = append(runs, LimRun{Case: LimCase{Path: "GetCapabilities"}, Limit: int(lim), Answer: "advertised"})
		f.Close()
	}
	return runs, viols, nil
}
