package eng

import (
	"bytes"
	"context"
	"crypto/ecdsa"
	"crypto/elliptic"
	crand "crypto/rand"
	"crypto/sha1"
	"crypto/tls"
	"crypto/x509"
	"crypto/x509/pkix"
	"encoding/base64"
	"encoding/pem"
	"fmt"
	"io"
	"math/big"
	"net"
	"net/http"
	"os"
	"os/exec"
	"path/filepath"
	"sort"
	"strings"
	"time"

	"google.golang.org/grpc"
	"google.golang.org/grpc/codes"
	"google.golang.org/grpc/credentials"
	"google.golang.org/grpc/credentials/insecure"
	"google.golang.org/grpc/metadata"
	"google.golang.org/grpc/status"
	"google.golang.org/protobuf/types/known/emptypb"

	"github.com/buchgr/bazel-remote/v2/cache/disk"
	"github.com/buchgr/bazel-remote/v2/server"

	"verif/harness/internal/drv"
)

// AuthRow is one row of Auth.tla's decision table.
type AuthRow struct {
	Auth      string `json:"auth"`
	Allow     bool   `json:"allow"`
	Metrics   bool   `json:"metrics"`
	Idle      bool   `json:"idle"`
	TLS       bool   `json:"tls"` // a server certificate without a client CA (transport security only)
	Iface     string `json:"iface"`
	Method    string `json:"method"`
	Path      string `json:"path"`
	Cred      string `json:"cred"`
	Expect    string `json:"expect"`
	Streaming bool   `json:"streaming"`
}

// AuthRun is one executed row.
type AuthRun struct {
	Row      AuthRow `json:"row"`
	Observed string  `json:"observed"`
	Detail   string  `json:"detail"`
}

type pki struct {
	dir                          string
	caPEM, serverCert, serverKey string
	clientCert, rogueCert        tls.Certificate
	pool                         *x509.CertPool
}

func mkCert(dir, name string, tmpl, parent *x509.Certificate, parentKey *ecdsa.PrivateKey) (*x509.Certificate, *ecdsa.PrivateKey, string, string, error) {
	key, err := ecdsa.GenerateKey(elliptic.P256(), crand.Reader)
	if err != nil {
		return nil, nil, "", "", err
	}
	if parent == nil {
		parent, parentKey = tmpl, key
	}
	der, err := x509.CreateCertificate(crand.Reader, tmpl, parent, &key.PublicKey, parentKey)
	if err != nil {
		return nil, nil, "", "", err
	}
	cert, _ := x509.ParseCertificate(der)
	cp := filepath.Join(dir, name+".crt")
	kp := filepath.Join(dir, name+".key")
	_ = os.WriteFile(cp, pem.EncodeToMemory(&pem.Block{Type: "CERTIFICATE", Bytes: der}), 0600)
	kb, _ := x509.MarshalECPrivateKey(key)
	_ = os.WriteFile(kp, pem.EncodeToMemory(&pem.Block{Type: "EC PRIVATE KEY", Bytes: kb}), 0600)
	return cert, key, cp, kp, nil
}

func newPKI(dir string) (*pki, error) {
	p := &pki{dir: dir}
	now := time.Now()
	ca := &x509.Certificate{SerialNumber: big.NewInt(1), Subject: pkix.Name{CommonName: "verif CA"}, NotBefore: now.Add(-time.Hour), NotAfter: now.Add(24 * time.Hour),
		IsCA: true, KeyUsage: x509.KeyUsageCertSign | x509.KeyUsageDigitalSignature, BasicConstraintsValid: true}
	caCert, caKey, caPath, _, err := mkCert(dir, "ca", ca, nil, nil)
	if err != nil {
		return nil, err
	}
	p.caPEM = caPath
	srv := &x509.Certificate{SerialNumber: big.NewInt(2), Subject: pkix.Name{CommonName: "127.0.0.1"}, NotBefore: now.Add(-time.Hour), NotAfter: now.Add(24 * time.Hour),
		KeyUsage: x509.KeyUsageDigitalSignature, ExtKeyUsage: []x509.ExtKeyUsage{x509.ExtKeyUsageServerAuth}, IPAddresses: []net.IP{net.ParseIP("127.0.0.1")}, DNSNames: []string{"localhost"}}
	_, _, p.serverCert, p.serverKey, err = mkCert(dir, "server", srv, caCert, caKey)
	if err != nil {
		return nil, err
	}
	cl := &x509.Certificate{SerialNumber: big.NewInt(3), Subject: pkix.Name{CommonName: "client"}, NotBefore: now.Add(-time.Hour), NotAfter: now.Add(24 * time.Hour),
		KeyUsage: x509.KeyUsageDigitalSignature, ExtKeyUsage: []x509.ExtKeyUsage{x509.ExtKeyUsageClientAuth}}
	_, _, cc, ck, err := mkCert(dir, "client", cl, caCert, caKey)
	if err != nil {
		return nil, err
	}
	p.clientCert, err = tls.LoadX509KeyPair(cc, ck)
	if err != nil {
		return nil, err
	}
	// a client certificate from a CA the server does not know
	rca := &x509.Certificate{SerialNumber: big.NewInt(10), Subject: pkix.Name{CommonName: "rogue CA"}, NotBefore: now.Add(-time.Hour), NotAfter: now.Add(24 * time.Hour),
		IsCA: true, KeyUsage: x509.KeyUsageCertSign | x509.KeyUsageDigitalSignature, BasicConstraintsValid: true}
	rcaCert, rcaKey, _, _, err := mkCert(dir, "rogue-ca", rca, nil, nil)
	if err != nil {
		return nil, err
	}
	_, _, rc, rk, err := mkCert(dir, "rogue-client", cl, rcaCert, rcaKey)
	if err != nil {
		return nil, err
	}
	p.rogueCert, err = tls.LoadX509KeyPair(rc, rk)
	if err != nil {
		return nil, err
	}
	p.pool = x509.NewCertPool()
	p.pool.AddCert(caCert)
	return p, nil
}

// freePorts returns two distinct free loopback ports.
func freePorts() (int, int) {
	l1, err := net.Listen("tcp", "127.0.0.1:0")
	if err != nil {
		return 0, 0
	}
	defer l1.Close()
	l2, err := net.Listen("tcp", "127.0.0.1:0")
	if err != nil {
		return 0, 0
	}
	defer l2.Close()
	return l1.Addr().(*net.TCPAddr).Port, l2.Addr().(*net.TCPAddr).Port
}

func freePort() int {
	l, err := net.Listen("tcp", "127.0.0.1:0")
	if err != nil {
		return 0
	}
	defer l.Close()
	return l.Addr().(*net.TCPAddr).Port
}

// RegisteredGrpcMethods asks the real registration code which methods exist.
func RegisteredGrpcMethods() (map[string]bool, error) {
	dir, err := os.MkdirTemp("", "vh-reg")
	if err != nil {
		return nil, err
	}
	defer os.RemoveAll(dir)
	c, err := disk.New(dir, 1<<20, disk.WithAccessLogger(drv.Silent()))
	if err != nil {
		return nil, err
	}
	lis, err := net.Listen("tcp", "127.0.0.1:0")
	if err != nil {
		return nil, err
	}
	srv := grpc.NewServer()
	go func() { _ = server.ServeGRPC(lis, srv, true, false, true, 1<<40, c, drv.Silent(), drv.Silent()) }()
	time.Sleep(300 * time.Millisecond)
	out := map[string]bool{}
	for svc, info := range srv.GetServiceInfo() {
		for _, m := range info.Methods {
			out["/"+svc+"/"+m.Name] = m.IsClientStream || m.IsServerStream
		}
	}
	srv.Stop()
	return out, nil
}

type authServer struct {
	cmd      *exec.Cmd
	httpAddr string
	grpcAddr string
	dir      string
	logf     *os.File
	https    bool
}

func startServer(bin string, p *pki, work string, auth string, allow, metrics, idle, tlsOnly bool) (*authServer, error) {
	dir, err := os.MkdirTemp(work, "srv")
	if err != nil {
		return nil, err
	}
	hp, gp := freePorts()
	s := &authServer{dir: dir, httpAddr: fmt.Sprintf("127.0.0.1:%d", hp), grpcAddr: fmt.Sprintf("127.0.0.1:%d", gp)}
	args := []string{"--dir", filepath.Join(dir, "cache"), "--max_size", "1", "--http_address", s.httpAddr, "--grpc_address", s.grpcAddr,
		"--experimental_remote_asset_api"}
	switch auth {
	case "basic":
		h := sha1.Sum([]byte("secret"))
		ht := filepath.Join(dir, "htpasswd")
		_ = os.WriteFile(ht, []byte("alice:{SHA}"+base64.StdEncoding.EncodeToString(h[:])+"\n"), 0600)
		args = append(args, "--htpasswd_file", ht)
	case "mtls":
		args = append(args, "--tls_cert_file", p.serverCert, "--tls_key_file", p.serverKey, "--tls_ca_file", p.caPEM)
		s.https = true
	}
	if tlsOnly && auth != "mtls" {
		args = append(args, "--tls_cert_file", p.serverCert, "--tls_key_file", p.serverKey)
		s.https = true
	}
	if allow {
		args = append(args, "--allow_unauthenticated_reads")
	}
	if idle {
		args = append(args, "--idle_timeout", "1h")
	}
	if metrics {
		args = append(args, "--enable_endpoint_metrics")
	}
	s.logf, _ = os.Create(filepath.Join(dir, "server.log"))
	s.cmd = exec.Command(bin, args...)
	s.cmd.Stdout, s.cmd.Stderr = s.logf, s.logf
	if err := s.cmd.Start(); err != nil {
		return nil, err
	}
	deadline := time.Now().Add(30 * time.Second)
	for _, a := range []string{s.httpAddr, s.grpcAddr} {
		for {
			c, err := net.DialTimeout("tcp", a, 200*time.Millisecond)
			if err == nil {
				c.Close()
				break
			}
			if time.Now().After(deadline) {
				s.stop()
				b, _ := os.ReadFile(filepath.Join(dir, "server.log"))
				return nil, fmt.Errorf("server did not start (%s %v %v): %s", auth, allow, metrics, string(b))
			}
			time.Sleep(50 * time.Millisecond)
		}
	}
	return s, nil
}

func (s *authServer) stop() {
	if s.cmd != nil && s.cmd.Process != nil {
		_ = s.cmd.Process.Kill()
		_, _ = s.cmd.Process.Wait()
	}
	if s.logf != nil {
		s.logf.Close()
	}
}

func tlsFor(p *pki, cred string) *tls.Config {
	cfg := &tls.Config{RootCAs: p.pool, ServerName: "127.0.0.1"}
	switch cred {
	case "validCert":
		cfg.Certificates = []tls.Certificate{p.clientCert}
	case "unknownCA":
		// present the certificate even though its issuer is not among the CAs the
		// server asks for (a Go client would otherwise silently send none)
		rogue := p.rogueCert
		cfg.GetClientCertificate = func(*tls.CertificateRequestInfo) (*tls.Certificate, error) { return &rogue, nil }
	}
	return cfg
}

func basicHeader(cred string) string {
	switch cred {
	case "malformed":
		return "Basic !!!not-base64!!!"
	case "unknownUser":
		return "Basic " + base64.StdEncoding.EncodeToString([]byte("mallory:secret"))
	case "wrongPassword":
		return "Basic " + base64.StdEncoding.EncodeToString([]byte("alice:wrong"))
	case "emptyPassword":
		return "Basic " + base64.StdEncoding.EncodeToString([]byte("alice:"))
	case "valid":
		return "Basic " + base64.StdEncoding.EncodeToString([]byte("alice:secret"))
	}
	return ""
}

func doHTTP(s *authServer, p *pki, row AuthRow, hash string, body []byte) (string, string) {
	scheme := "http"
	tr := &http.Transport{DisableKeepAlives: true}
	if s.https {
		scheme = "https"
		tr.TLSClientConfig = tlsFor(p, row.Cred)
	}
	var path string
	switch row.Path {
	case "cas":
		path = "/cas/" + hash
	case "ac":
		path = "/ac/" + hash
	default:
		path = "/" + row.Path
	}
	var rd io.Reader
	if row.Method == "PUT" || row.Method == "POST" {
		rd = bytes.NewReader(body)
	}
	req, _ := http.NewRequest(row.Method, scheme+"://"+s.httpAddr+path, rd)
	if h := basicHeader(row.Cred); h != "" && row.Auth == "basic" {
		req.Header.Set("Authorization", h)
	}
	cl := &http.Client{Transport: tr, Timeout: 20 * time.Second}
	resp, err := cl.Do(req)
	if err != nil {
		return "refused", "transport: " + err.Error()
	}
	defer resp.Body.Close()
	_, _ = io.Copy(io.Discard, resp.Body)
	switch {
	case resp.StatusCode == 401:
		return "refused", "401"
	case resp.StatusCode >= 200 && resp.StatusCode < 300:
		return "through", fmt.Sprint(resp.StatusCode)
	default:
		return "other", fmt.Sprint(resp.StatusCode)
	}
}

func doGRPC(s *authServer, p *pki, row AuthRow, method string, streaming bool) (string, string) {
	var opt grpc.DialOption
	if s.https {
		opt = grpc.WithTransportCredentials(credentials.NewTLS(tlsFor(p, row.Cred)))
	} else {
		opt = grpc.WithTransportCredentials(insecure.NewCredentials())
	}
	conn, err := grpc.NewClient(s.grpcAddr, opt)
	if err != nil {
		return "refused", "dial: " + err.Error()
	}
	defer conn.Close()
	ctx, cancel := context.WithTimeout(context.Background(), 15*time.Second)
	defer cancel()
	if h := basicHeader(row.Cred); h != "" && row.Auth == "basic" {
		ctx = metadata.AppendToOutgoingContext(ctx, "authorization", h)
	}
	if streaming {
		st, e := conn.NewStream(ctx, &grpc.StreamDesc{ClientStreams: true, ServerStreams: true}, method)
		if e == nil {
			_ = st.SendMsg(&emptypb.Empty{})
			_ = st.CloseSend()
			e = st.RecvMsg(&emptypb.Empty{})
		}
		err = e
	} else {
		err = conn.Invoke(ctx, method, &emptypb.Empty{}, &emptypb.Empty{})
	}
	if err == nil || err == io.EOF {
		return "through", "OK"
	}
	cd := status.Code(err)
	if cd == codes.Unauthenticated {
		return "refused", cd.String()
	}
	if cd == codes.Unavailable && strings.Contains(err.Error(), "tls") || strings.Contains(err.Error(), "certificate") || strings.Contains(err.Error(), "handshake") {
		return "refused", "handshake: " + err.Error()
	}
	if cd == codes.Unavailable && row.Cred == "unknownCA" {
		// the server tore the connection down when it saw the certificate
		return "refused", "connection rejected: " + err.Error()
	}
	if cd == codes.Unavailable || cd == codes.DeadlineExceeded {
		return "error", cd.String() + ": " + err.Error()
	}
	return "through", cd.String()
}

// RunAuth replays the decision table against the real binary.
func RunAuth(bin string, rows []AuthRow, seed int64) (runs []AuthRun, viols []drv.Violation, err error) {
	work, err := os.MkdirTemp("", "vh-auth")
	if err != nil {
		return nil, nil, err
	}
	defer os.RemoveAll(work)
	p, err := newPKI(work)
	if err != nil {
		return nil, nil, err
	}
	registered, err := RegisteredGrpcMethods()
	if err != nil {
		return nil, nil, err
	}
	type cfgKey struct {
		auth                 string
		allow, metrics, idle, tls bool
	}
	byCfg := map[cfgKey][]AuthRow{}
	known := map[string]bool{}
	for _, r := range rows {
		k := cfgKey{r.Auth, r.Allow, r.Metrics, r.Idle, r.TLS}
		byCfg[k] = append(byCfg[k], r)
		if r.Iface == "grpc" {
			known[r.Method] = true
		}
	}
	// registered methods the specification does not list are replayed with the "unknown" rows
	var unknown []string
	for m := range registered {
		if !known[m] {
			unknown = append(unknown, m)
		}
	}
	sort.Strings(unknown)
	var keys []cfgKey
	for k := range byCfg {
		keys = append(keys, k)
	}
	sort.Slice(keys, func(i, j int) bool { return fmt.Sprint(keys[i]) < fmt.Sprint(keys[j]) })
	n := 0
	for _, k := range keys {
		s, e := startServer(bin, p, work, k.auth, k.allow, k.metrics, k.idle, k.tls)
		if e != nil {
			return runs, viols, e
		}
		// the rows of a configuration, and then once more the rows that must be refused: by then valid
		// credentials of the same user have been accepted on every endpoint (a server that remembers
		// successful logins must still look at the password)
		rows := append([]AuthRow{}, byCfg[k]...)
		for _, row := range byCfg[k] {
			if row.Expect == "refused" {
				rows = append(rows, row)
			}
		}
		for _, row := range rows {
			n++
			methods := []string{row.Method}
			if row.Iface == "grpc" && row.Method == "unknown" {
				methods = unknown
			}
			for _, m := range methods {
				var obs, det string
				blob := drv.MkBlob([]byte(fmt.Sprintf("auth-%d-%d", seed, n)))
				if row.Iface == "http" {
					body := blob.Data
					if row.Path == "ac" {
						body = []byte{} // the empty ActionResult is valid
					}
					obs, det = doHTTP(s, p, row, blob.Hash, body)
				} else {
					streaming := row.Streaming
					if st, ok := registered[m]; ok {
						streaming = st
					} else if row.Method != "unknown" {
						// a method of the specification that the server does not register
						runs = append(runs, AuthRun{Row: row, Observed: "unregistered", Detail: m})
						continue
					}
					obs, det = doGRPC(s, p, row, m, streaming)
				}
				run := AuthRun{Row: row, Observed: obs, Detail: det}
				if m != row.Method {
					run.Detail = m + ": " + det
				}
				runs = append(runs, run)
				bad := func(f string, a ...any) {
					viols = append(viols, drv.Violation{Prop: "C13", What: fmt.Sprintf("auth=%s allow_unauthenticated_reads=%v endpoint_metrics=%v idle_timeout=%v%s %s %s %s credentials=%s: ", row.Auth, row.Allow, row.Metrics, row.Idle, map[bool]string{true: " tls=server-certificate", false: ""}[row.TLS], row.Iface, m, row.Path, row.Cred) + fmt.Sprintf(f, a...), Hist: n})
				}
				switch row.Expect {
				case "refused":
					if obs != "refused" {
						bad("answered %s (%s), the specification says it must be refused (401 / Unauthenticated)", obs, det)
					}
				case "through":
					if obs == "refused" {
						bad("refused (%s), the specification says it is allowed", det)
					}
					if obs == "error" {
						return runs, viols, fmt.Errorf("transport error on an allowed request %v: %s", row, det)
					}
				case "inert":
					if obs == "through" {
						bad("answered %s although the request is not served by this endpoint", det)
					}
				}
				// a refused write must not have changed the cache
				if row.Expect == "refused" && row.Iface == "http" && row.Method == "PUT" && row.Path == "cas" {
					chk := row
					chk.Method, chk.Cred = "GET", map[string]string{"basic": "valid", "mtls": "validCert", "none": "none"}[row.Auth]
					o2, d2 := doHTTP(s, p, chk, blob.Hash, nil)
					if o2 == "through" {
						bad("the refused PUT stored the blob (GET with valid credentials answers %s)", d2)
					}
				}
			}
		}
		s.stop()
	}
	return runs, viols, nil
}
