package eng

import (
	"bytes"
	"context"
	"encoding/base64"
	"encoding/hex"
	"fmt"
	"io"
	"math"
	"math/rand"
	"net/http"
	"os"
	"path/filepath"
	"runtime"
	"strings"
	"time"

	"github.com/buchgr/bazel-remote/v2/cache"
	asset "github.com/buchgr/bazel-remote/v2/genproto/build/bazel/remote/asset/v1"
	pb "github.com/buchgr/bazel-remote/v2/genproto/build/bazel/remote/execution/v2"
	"github.com/klauspost/compress/zstd"
	"google.golang.org/genproto/googleapis/bytestream"
	"google.golang.org/grpc/codes"
	"google.golang.org/grpc/status"
	"google.golang.org/protobuf/proto"

	"verif/harness/internal/drv"
	"verif/harness/internal/fe"
	"verif/harness/internal/fmtw"
)

// RobustRow is a point of Robust.tla's lattice.
type RobustRow struct {
	Shape     string   `json:"shape"`
	Unset     []string `json:"unset"`
	Size      string   `json:"size"` // scalar rows: which end of the int64 range the digest's size is at
	Malformed bool     `json:"malformed"`
}

// RobustCase is one executable case (lattice point or catalogue entry).
type RobustCase struct {
	Name      string
	Malformed bool
	Run       func(f *fe.Fixture, rng *rand.Rand) (answer string, err error)
}

func has(xs []string, x string) bool {
	for _, y := range xs {
		if y == x {
			return true
		}
	}
	return false
}

func code(err error) string {
	if err == nil {
		return "OK"
	}
	return status.Code(err).String()
}

// putRaw stores bytes in a key space directly (the disk level does not validate AC).
func putRaw(f *fe.Fixture, kind cache.EntryKind, hash string, b []byte) error {
	return f.Cache.Put(context.Background(), kind, hash, int64(len(b)), bytes.NewReader(b))
}

func storeCAS(f *fe.Fixture, b []byte) *pb.Digest {
	d := dg(b)
	_ = putRaw(f, cache.CAS, d.Hash, b)
	return d
}

// scalarCase builds the request of a scalar row of Robust.tla: a digest with a well-formed hash whose
// size_bytes sits at an end of the int64 range.
func scalarCase(r RobustRow) RobustCase {
	size := map[string]int64{"minus1": -1, "minInt64": math.MinInt64, "maxInt64": math.MaxInt64, "maxInt64minus7": math.MaxInt64 - 7, "fiveGiB": 5 << 30}[r.Size]
	name := fmt.Sprintf("%s size_bytes=%s", r.Shape, r.Size)
	run := func(f *fe.Fixture, rng *rand.Rand) (string, error) {
		ctx, c := context.WithTimeout(context.Background(), 20*time.Second)
		defer c()
		data := drv.GenData(rng, 40, 1)
		d := &pb.Digest{Hash: fmtw.Sha(data), SizeBytes: size}
		zdata := zstdEncode(data)
		first := func(e error, st interface{ GetCode() int32 }) string {
			if e != nil {
				return code(e)
			}
			return codes.Code(st.GetCode()).String()
		}
		switch r.Shape {
		case "FindMissingBlobs":
			_, e := f.CAS.FindMissingBlobs(ctx, &pb.FindMissingBlobsRequest{BlobDigests: []*pb.Digest{dg([]byte("q")), d}})
			return code(e), nil
		case "BatchUpdateBlobs/identity", "BatchUpdateBlobs/zstd":
			rq := &pb.BatchUpdateBlobsRequest_Request{Digest: d, Data: data}
			if strings.HasSuffix(r.Shape, "zstd") {
				rq.Data, rq.Compressor = zdata, pb.Compressor_ZSTD
			}
			resp, e := f.CAS.BatchUpdateBlobs(ctx, &pb.BatchUpdateBlobsRequest{Requests: []*pb.BatchUpdateBlobsRequest_Request{rq}})
			if e == nil && len(resp.Responses) == 1 {
				return first(nil, resp.Responses[0].Status), nil
			}
			return code(e), nil
		case "BatchReadBlobs/identity", "BatchReadBlobs/zstd":
			req := &pb.BatchReadBlobsRequest{Digests: []*pb.Digest{d}}
			if strings.HasSuffix(r.Shape, "zstd") {
				req.AcceptableCompressors = []pb.Compressor_Value{pb.Compressor_ZSTD}
			}
			resp, e := f.CAS.BatchReadBlobs(ctx, req)
			if e == nil && len(resp.Responses) == 1 {
				return first(nil, resp.Responses[0].Status), nil
			}
			return code(e), nil
		case "GetTree":
			st, e := f.CAS.GetTree(ctx, &pb.GetTreeRequest{RootDigest: d})
			if e == nil {
				_, e = st.Recv()
			}
			if e == io.EOF {
				e = nil
			}
			return code(e), nil
		case "GetActionResult":
			_, e := f.AC.GetActionResult(ctx, &pb.GetActionResultRequest{ActionDigest: d})
			return code(e), nil
		case "UpdateActionResult/file", "UpdateActionResult/stdout":
			ar := &pb.ActionResult{}
			if strings.HasSuffix(r.Shape, "file") {
				ar.OutputFiles = []*pb.OutputFile{{Path: "f", Digest: d}}
			} else {
				ar.StdoutDigest = d
			}
			_, e := f.AC.UpdateActionResult(ctx, &pb.UpdateActionResultRequest{ActionDigest: dg(drv.GenData(rng, 8, 0)), ActionResult: ar})
			return code(e), nil
		case "SpliceBlob/blob", "SpliceBlob/chunk":
			a, b := drv.GenData(rng, 10, 0), drv.GenData(rng, 10, 0)
			req := &pb.SpliceBlobRequest{BlobDigest: dg(append(append([]byte{}, a...), b...)), ChunkDigests: []*pb.Digest{storeCAS(f, a), storeCAS(f, b)}}
			if strings.HasSuffix(r.Shape, "blob") {
				req.BlobDigest = &pb.Digest{Hash: req.BlobDigest.Hash, SizeBytes: size}
			} else {
				req.ChunkDigests[1] = &pb.Digest{Hash: req.ChunkDigests[1].Hash, SizeBytes: size}
			}
			_, e := f.CAS.SpliceBlob(ctx, req)
			return code(e), nil
		case "ByteStream.Read/blobs", "ByteStream.Read/zstd":
			res := "blobs"
			if strings.HasSuffix(r.Shape, "zstd") {
				res = "compressed-blobs/zstd"
			}
			st, e := f.BS.Read(ctx, &bytestream.ReadRequest{ResourceName: fmt.Sprintf("%s/%s/%d", res, d.Hash, size)})
			for e == nil {
				_, e = st.Recv()
			}
			if e == io.EOF {
				e = nil
			}
			return code(e), nil
		case "ByteStream.Write/blobs", "ByteStream.Write/zstd":
			res, payload := "blobs", data
			if strings.HasSuffix(r.Shape, "zstd") {
				res, payload = "compressed-blobs/zstd", zdata
			}
			w, e := f.BS.Write(ctx)
			if e != nil {
				return code(e), nil
			}
			_ = w.Send(&bytestream.WriteRequest{ResourceName: fmt.Sprintf("uploads/%08x-0000-0000-0000-000000000000/%s/%s/%d", rng.Uint32(), res, d.Hash, size), Data: payload, FinishWrite: true})
			_, e = w.CloseAndRecv()
			return code(e), nil
		case "QueryWriteStatus":
			_, e := f.BS.QueryWriteStatus(ctx, &bytestream.QueryWriteStatusRequest{ResourceName: fmt.Sprintf("uploads/u/blobs/%s/%d", d.Hash, size)})
			return code(e), nil
		case "FetchBlob/checksum":
			// the asset API has no size; the extreme goes where a number is parsed: the HTTP source's Content-Length is not under
			// the client's control here, so this row sends the qualifier with the digest and an unreachable source
			raw, _ := hex.DecodeString(d.Hash)
			resp, e := f.Fetch.FetchBlob(ctx, &asset.FetchBlobRequest{Uris: []string{"http://127.0.0.1:1/nothing"}, Qualifiers: []*asset.Qualifier{{Name: "checksum.sri", Value: "sha256-" + base64.StdEncoding.EncodeToString(raw)}}})
			if e == nil {
				return codes.Code(resp.GetStatus().GetCode()).String(), nil
			}
			return code(e), nil
		case "HttpPut/X-Digest-SizeBytes":
			c1, _, _, e := f.HTTPDo(http.MethodPut, "/cas/"+d.Hash, data, map[string]string{"X-Digest-SizeBytes": fmt.Sprint(size)})
			if e != nil {
				return "transport:" + e.Error(), nil
			}
			c2, _, _, e := f.HTTPDo(http.MethodPut, "/cas/"+d.Hash, zdata, map[string]string{"X-Digest-SizeBytes": fmt.Sprint(size), "Content-Encoding": "zstd"})
			if e != nil {
				return "transport:" + e.Error(), nil
			}
			return fmt.Sprintf("HTTP/%d/%d", c1, c2), nil
		case "HttpGet/cas":
			c1, _, _, e := f.HTTPDo(http.MethodGet, "/cas/"+d.Hash, nil, map[string]string{"X-Digest-SizeBytes": fmt.Sprint(size), "Accept-Encoding": "zstd"})
			if e != nil {
				return "transport:" + e.Error(), nil
			}
			return fmt.Sprintf("HTTP/%d", c1), nil
		}
		return "", fmt.Errorf("no scalar case for shape %s", r.Shape)
	}
	return RobustCase{Name: name, Malformed: r.Malformed, Run: run}
}

// LatticeCases turns the TLC table into executable cases.
func LatticeCases(rows []RobustRow) []RobustCase {
	var out []RobustCase
	for _, r := range rows {
		r := r
		if r.Size != "" {
			out = append(out, scalarCase(r))
			continue
		}
		name := fmt.Sprintf("%s unset=%v", r.Shape, r.Unset)
		var run func(f *fe.Fixture, rng *rand.Rand) (string, error)
		switch r.Shape {
		case "FindMissingBlobs":
			run = func(f *fe.Fixture, rng *rand.Rand) (string, error) {
				ctx, c := fe.Ctx()
				defer c()
				d := dg([]byte("x"))
				req := &pb.FindMissingBlobsRequest{BlobDigests: []*pb.Digest{d, d}}
				if has(r.Unset, "digest") {
					req.BlobDigests = []*pb.Digest{d, {}} // an empty message: hash "", size 0
				}
				_, e := f.CAS.FindMissingBlobs(ctx, req)
				return code(e), nil
			}
		case "BatchUpdateBlobs":
			run = func(f *fe.Fixture, rng *rand.Rand) (string, error) {
				ctx, c := fe.Ctx()
				defer c()
				b := drv.GenData(rng, 20, 0)
				rq := &pb.BatchUpdateBlobsRequest_Request{Digest: dg(b), Data: b}
				if has(r.Unset, "digest") {
					rq.Digest = nil
				}
				if has(r.Unset, "data") {
					rq.Data = nil
				}
				resp, e := f.CAS.BatchUpdateBlobs(ctx, &pb.BatchUpdateBlobsRequest{Requests: []*pb.BatchUpdateBlobsRequest_Request{rq}})
				if e == nil && len(resp.Responses) == 1 {
					return codes.Code(resp.Responses[0].Status.GetCode()).String(), nil
				}
				return code(e), nil
			}
		case "BatchReadBlobs":
			run = func(f *fe.Fixture, rng *rand.Rand) (string, error) {
				ctx, c := fe.Ctx()
				defer c()
				req := &pb.BatchReadBlobsRequest{Digests: []*pb.Digest{dg([]byte("y"))}}
				if has(r.Unset, "digest") {
					req.Digests = append(req.Digests, &pb.Digest{})
				}
				_, e := f.CAS.BatchReadBlobs(ctx, req)
				return code(e), nil
			}
		case "GetTree":
			run = func(f *fe.Fixture, rng *rand.Rand) (string, error) {
				ctx, c := fe.Ctx()
				defer c()
				req := &pb.GetTreeRequest{RootDigest: dg([]byte("z"))}
				if has(r.Unset, "root_digest") {
					req.RootDigest = nil
				}
				st, e := f.CAS.GetTree(ctx, req)
				if e == nil {
					_, e = st.Recv()
				}
				return code(e), nil
			}
		case "GetActionResult":
			run = func(f *fe.Fixture, rng *rand.Rand) (string, error) {
				ctx, c := fe.Ctx()
				defer c()
				req := &pb.GetActionResultRequest{ActionDigest: dg([]byte("a"))}
				if has(r.Unset, "action_digest") {
					req.ActionDigest = nil
				}
				_, e := f.AC.GetActionResult(ctx, req)
				return code(e), nil
			}
		case "UpdateActionResult":
			run = func(f *fe.Fixture, rng *rand.Rand) (string, error) {
				ctx, c := fe.Ctx()
				defer c()
				ar := &pb.ActionResult{OutputFiles: []*pb.OutputFile{{Path: "f", Digest: storeCAS(f, drv.GenData(rng, 10, 0))}},
					OutputDirectories: []*pb.OutputDirectory{{Path: "d", TreeDigest: dg([]byte("t"))}}, ExecutionMetadata: &pb.ExecutedActionMetadata{Worker: "w"}}
				if has(r.Unset, "file.digest") {
					ar.OutputFiles[0].Digest = nil
				}
				if has(r.Unset, "dir.tree_digest") {
					ar.OutputDirectories[0].TreeDigest = nil
				}
				if has(r.Unset, "execution_metadata") {
					ar.ExecutionMetadata = nil
				}
				req := &pb.UpdateActionResultRequest{ActionDigest: dg(drv.GenData(rng, 8, 0)), ActionResult: ar}
				if has(r.Unset, "action_digest") {
					req.ActionDigest = nil
				}
				if has(r.Unset, "action_result") {
					req.ActionResult = nil
				}
				_, e := f.AC.UpdateActionResult(ctx, req)
				return code(e), nil
			}
		case "SpliceBlob":
			run = func(f *fe.Fixture, rng *rand.Rand) (string, error) {
				ctx, c := fe.Ctx()
				defer c()
				a, b := drv.GenData(rng, 10, 0), drv.GenData(rng, 10, 0)
				req := &pb.SpliceBlobRequest{BlobDigest: dg(append(append([]byte{}, a...), b...)), ChunkDigests: []*pb.Digest{storeCAS(f, a), storeCAS(f, b)}}
				if has(r.Unset, "blob_digest") {
					req.BlobDigest = nil
				}
				if has(r.Unset, "chunk_digest") {
					req.ChunkDigests[1] = &pb.Digest{}
				}
				_, e := f.CAS.SpliceBlob(ctx, req)
				return code(e), nil
			}
		case "FetchBlob":
			run = func(f *fe.Fixture, rng *rand.Rand) (string, error) {
				ctx, c := fe.Ctx()
				defer c()
				req := &asset.FetchBlobRequest{Uris: []string{"http://127.0.0.1:1/nothing"}, Qualifiers: []*asset.Qualifier{{Name: "checksum.sri", Value: "sha256-AAAA"}}}
				if has(r.Unset, "uris") {
					req.Uris = nil
				}
				if has(r.Unset, "qualifier.value") {
					req.Qualifiers = []*asset.Qualifier{{Name: "checksum.sri"}, {}}
				}
				resp, e := f.Fetch.FetchBlob(ctx, req)
				if e == nil {
					return codes.Code(resp.GetStatus().GetCode()).String(), nil
				}
				return code(e), nil
			}
		case "StoredDirectory":
			run = func(f *fe.Fixture, rng *rand.Rand) (string, error) {
				ctx, c := fe.Ctx()
				defer c()
				child := &pb.Directory{Files: []*pb.FileNode{{Name: "cf", Digest: dg([]byte("cf"))}}}
				cb, _ := proto.Marshal(child)
				dir := &pb.Directory{Directories: []*pb.DirectoryNode{{Name: "sub", Digest: storeCAS(f, cb)}},
					Files: []*pb.FileNode{{Name: "f", Digest: dg([]byte("f"))}, {Name: fmt.Sprintf("u%d", rng.Int63())}}}
				if has(r.Unset, "dirnode.digest") {
					dir.Directories = append(dir.Directories, &pb.DirectoryNode{Name: "nodigest"})
				}
				if has(r.Unset, "filenode.digest") {
					dir.Files[0].Digest = nil
				}
				db, _ := proto.Marshal(dir)
				st, e := f.CAS.GetTree(ctx, &pb.GetTreeRequest{RootDigest: storeCAS(f, db)})
				if e == nil {
					_, e = st.Recv()
				}
				return code(e), nil
			}
		case "StoredTree", "StoredActionResult":
			run = func(f *fe.Fixture, rng *rand.Rand) (string, error) {
				ctx, c := fe.Ctx()
				defer c()
				tree := &pb.Tree{Root: &pb.Directory{Files: []*pb.FileNode{{Name: "r", Digest: storeCAS(f, drv.GenData(rng, 9, 0))}}},
					Children: []*pb.Directory{{Files: []*pb.FileNode{{Name: "c", Digest: storeCAS(f, drv.GenData(rng, 9, 0))}}}}}
				if has(r.Unset, "root") {
					tree.Root = nil
				}
				if has(r.Unset, "child.filenode.digest") {
					tree.Children[0].Files[0].Digest = nil
				}
				if has(r.Unset, "root.filenode.digest") && tree.Root != nil {
					tree.Root.Files[0].Digest = nil
				}
				tb, _ := proto.Marshal(tree)
				ar := &pb.ActionResult{OutputFiles: []*pb.OutputFile{{Path: "f", Digest: storeCAS(f, drv.GenData(rng, 10, 0))}},
					OutputDirectories: []*pb.OutputDirectory{{Path: "d", TreeDigest: storeCAS(f, tb)}},
					StdoutDigest:      storeCAS(f, drv.GenData(rng, 5, 0)), StderrDigest: storeCAS(f, drv.GenData(rng, 5, 0)),
					ExecutionMetadata: &pb.ExecutedActionMetadata{Worker: "w"}}
				if has(r.Unset, "file.digest") {
					ar.OutputFiles[0].Digest = nil
				}
				if has(r.Unset, "dir.tree_digest") {
					ar.OutputDirectories[0].TreeDigest = nil
				}
				if has(r.Unset, "stdout_digest") {
					ar.StdoutDigest = nil
				}
				if has(r.Unset, "stderr_digest") {
					ar.StderrDigest = nil
				}
				if has(r.Unset, "execution_metadata") {
					ar.ExecutionMetadata = nil
				}
				ab, _ := proto.Marshal(ar)
				key := drv.MkBlob(drv.GenData(rng, 12, 0)).Hash
				if e := putRaw(f, cache.AC, key, ab); e != nil {
					return "", e
				}
				_, e := f.AC.GetActionResult(ctx, &pb.GetActionResultRequest{ActionDigest: &pb.Digest{Hash: key, SizeBytes: 3}, InlineStdout: true, InlineOutputFiles: []string{"f"}})
				code1 := code(e)
				c1, _, _, he := f.HTTPDo(http.MethodGet, "/ac/"+key, nil, nil)
				if he != nil {
					return "", he
				}
				return fmt.Sprintf("%s/%d", code1, c1), nil
			}
		}
		if run != nil {
			out = append(out, RobustCase{Name: name, Malformed: r.Malformed, Run: run})
		}
	}
	return out
}

// illFormedFile returns the bytes of a v2 CAS file whose header is wrong in one way.
func illFormedFile(kind string, data []byte) []byte {
	good, _ := fmtw.EncodeCAS(data, 4096, zstd.SpeedDefault)
	h, _ := fmtw.ParseHeader(good)
	body := good[h.Offsets[0]:]
	switch kind {
	case "chunkSizeZero":
		return append(fmtw.HeaderBytes(h.Size, 1, 0, h.Offsets), body...)
	case "shortTable":
		// a table with fewer chunks than the size implies: drop the middle offsets
		off := []int64{h.Offsets[0] - int64(8*(len(h.Offsets)-2)), int64(len(good)) - int64(8*(len(h.Offsets)-2))}
		return append(fmtw.HeaderBytes(h.Size, 1, h.ChunkSize, off), body...)
	case "hugeSize":
		return append(fmtw.HeaderBytes(1<<40, 1, h.ChunkSize, h.Offsets), body...)
	case "hugeChunkSize":
		return append(fmtw.HeaderBytes(h.Size, 1, 1<<31, h.Offsets), body...)
	case "unknownCompression":
		return append(fmtw.HeaderBytes(h.Size, 7, h.ChunkSize, h.Offsets), body...)
	case "garbageFrames":
		g := append([]byte{}, good...)
		for i := int(h.Offsets[0]); i < len(g); i++ {
			g[i] ^= 0x5a
		}
		return g
	}
	return good
}

// CatalogueCases are directed malformed inputs beyond the lattice.
func CatalogueCases() []RobustCase {
	var out []RobustCase
	add := func(name string, malformed bool, run func(f *fe.Fixture, rng *rand.Rand) (string, error)) {
		out = append(out, RobustCase{Name: name, Malformed: malformed, Run: run})
	}
	// stored CAS files with ill-formed headers, read at several offsets through every path
	for _, kind := range []string{"chunkSizeZero", "shortTable", "hugeSize", "hugeChunkSize", "unknownCompression", "garbageFrames"} {
		kind := kind
		add("ill-formed stored header: "+kind, false, func(f *fe.Fixture, rng *rand.Rand) (string, error) {
			data := drv.GenData(rng, 3*4096+17, 2)
			b := illFormedFile(kind, data)
			hash := fmtw.Sha(data)
			// drop the file in place of a well-formed one: upload first, then overwrite the file's bytes
			if e := putRaw(f, cache.CAS, hash, data); e != nil {
				return "", e
			}
			matches, _ := filepath.Glob(filepath.Join(f.Dir, "cas.v2", hash[:2], hash+"-*"))
			if len(matches) != 1 {
				return "", fmt.Errorf("expected one file for %s, found %v", hash[:8], matches)
			}
			if e := os.WriteFile(matches[0], b, 0644); e != nil {
				return "", e
			}
			var answers []string
			for _, off := range []int64{0, 1, 4096, 4097, int64(len(data) - 1)} {
				for _, res := range []string{"blobs", "compressed-blobs/zstd"} {
					ctx, c := context.WithTimeout(context.Background(), 10*time.Second)
					st, e := f.BS.Read(ctx, &bytestream.ReadRequest{ResourceName: fmt.Sprintf("%s/%s/%d", res, hash, len(data)), ReadOffset: off})
					for e == nil {
						_, e = st.Recv()
					}
					c()
					if e == io.EOF {
						e = nil
					}
					answers = append(answers, code(e))
				}
			}
			c1, _, _, he := f.HTTPDo(http.MethodGet, "/cas/"+hash, nil, map[string]string{"Accept-Encoding": "zstd"})
			if he == nil {
				answers = append(answers, fmt.Sprint(c1))
			}
			return strings.Join(answers, ","), nil
		})
	}
	add("AC entry holding garbage bytes", false, func(f *fe.Fixture, rng *rand.Rand) (string, error) {
		key := drv.MkBlob(drv.GenData(rng, 12, 0)).Hash
		if e := putRaw(f, cache.AC, key, []byte{0xff, 0xfe, 0x01, 0x80, 0x80, 0x80}); e != nil {
			return "", e
		}
		ctx, c := fe.Ctx()
		defer c()
		_, e := f.AC.GetActionResult(ctx, &pb.GetActionResultRequest{ActionDigest: &pb.Digest{Hash: key, SizeBytes: 3}})
		c1, _, _, _ := f.HTTPDo(http.MethodGet, "/ac/"+key, nil, nil)
		return fmt.Sprintf("%s/%d", code(e), c1), nil
	})
	add("Tree blob holding garbage bytes", false, func(f *fe.Fixture, rng *rand.Rand) (string, error) {
		g := append([]byte{0x0a, 0xff, 0xff, 0xff, 0xff, 0x0f}, drv.GenData(rng, 10, 0)...)
		ar := &pb.ActionResult{OutputDirectories: []*pb.OutputDirectory{{Path: "d", TreeDigest: storeCAS(f, g)}}}
		ab, _ := proto.Marshal(ar)
		key := drv.MkBlob(drv.GenData(rng, 12, 0)).Hash
		_ = putRaw(f, cache.AC, key, ab)
		ctx, c := fe.Ctx()
		defer c()
		_, e := f.AC.GetActionResult(ctx, &pb.GetActionResultRequest{ActionDigest: &pb.Digest{Hash: key, SizeBytes: 3}})
		return code(e), nil
	})
	add("ByteStream.Read odd offsets and limits", true, func(f *fe.Fixture, rng *rand.Rand) (string, error) {
		data := drv.GenData(rng, 5000, 0)
		d := storeCAS(f, data)
		var answers []string
		for _, x := range [][2]int64{{-1, 0}, {5001, 0}, {5000, 0}, {0, -5}, {10, 3}, {1 << 62, 1}} {
			ctx, c := context.WithTimeout(context.Background(), 10*time.Second)
			st, e := f.BS.Read(ctx, &bytestream.ReadRequest{ResourceName: fmt.Sprintf("a/b/blobs/%s/%d", d.Hash, d.SizeBytes), ReadOffset: x[0], ReadLimit: x[1]})
			for e == nil {
				_, e = st.Recv()
			}
			c()
			if e == io.EOF {
				e = nil
			}
			answers = append(answers, code(e))
		}
		return strings.Join(answers, ","), nil
	})
	add("resource names of odd shapes", true, func(f *fe.Fixture, rng *rand.Rand) (string, error) {
		var answers []string
		for _, n := range []string{"", "/", "blobs", "blobs//", "blobs/zz/1", "blobs/" + emptyHash + "/-1", "compressed-blobs/zstd", "compressed-blobs/zstd/" + emptyHash + "/99999999999999999999", strings.Repeat("a/", 5000) + "blobs/x/1", "uploads/u/blobs/" + emptyHash + "/0/extra/" + strings.Repeat("m", 100000)} {
			ctx, c := context.WithTimeout(context.Background(), 10*time.Second)
			st, e := f.BS.Read(ctx, &bytestream.ReadRequest{ResourceName: n})
			for e == nil {
				_, e = st.Recv()
			}
			_, e2 := f.BS.QueryWriteStatus(ctx, &bytestream.QueryWriteStatusRequest{ResourceName: n})
			c()
			if e == io.EOF {
				e = nil
			}
			answers = append(answers, code(e)+"/"+code(e2))
		}
		return strings.Join(answers, ","), nil
	})
	add("HTTP requests of odd shapes", true, func(f *fe.Fixture, rng *rand.Rand) (string, error) {
		var answers []string
		h := emptyHash
		try := func(m, p string, body []byte, hdr map[string]string) {
			c1, _, _, e := f.HTTPDo(m, p, body, hdr)
			if e != nil {
				answers = append(answers, "transport")
				return
			}
			answers = append(answers, fmt.Sprint(c1))
		}
		try("GET", "/cas/", nil, nil)
		try("GET", "/cas/"+h+"x", nil, nil)
		try("GET", "/"+strings.Repeat("i/", 2000)+"cas/"+h, nil, nil)
		try("PUT", "/cas/"+h[:63]+"f", []byte("abc"), map[string]string{"X-Digest-SizeBytes": "-5"})
		try("PUT", "/cas/"+h[:63]+"e", []byte("abc"), map[string]string{"X-Digest-SizeBytes": "notanumber"})
		try("PUT", "/cas/"+h[:63]+"d", []byte("abc"), map[string]string{"X-Digest-SizeBytes": "99999999999999999999999"})
		try("PUT", "/cas/"+h[:63]+"c", []byte("not zstd at all"), map[string]string{"Content-Encoding": "zstd", "X-Digest-SizeBytes": "15"})
		try("PUT", "/ac/"+h[:63]+"b", []byte("not zstd at all"), map[string]string{"Content-Encoding": "zstd", "X-Digest-SizeBytes": "15"})
		try("PUT", "/ac/"+h[:63]+"a", []byte(`{"outputFiles": "nope"}`), map[string]string{"Content-Type": "application/json"})
		try("PATCH", "/cas/"+h, nil, nil)
		try("GET", "/status", nil, nil)
		return strings.Join(answers, ","), nil
	})
	// uploads that the disk layer refuses before it reads a byte (hard limit reached): whoever feeds the
	// payload must not be left behind
	add("SpliceBlob and ByteStream.Write refused up front by max_size_hard_limit", false, func(f *fe.Fixture, rng *rand.Rand) (string, error) {
		f2, err := fe.New(fe.Opts{Mode: f.Opts.Mode, MaxSize: 4 << 20, HardLimit: 4 << 20})
		if err != nil {
			return "", err
		}
		defer f2.Close()
		var chunks []*pb.Digest
		var all []byte
		for i := 0; i < 3; i++ {
			c := drv.GenData(rng, 1<<20-100000, 0)
			chunks = append(chunks, storeCAS(f2, c))
			all = append(all, c...)
		}
		var answers []string
		for i := 0; i < 3; i++ {
			ctx, cancel := fe.Ctx()
			_, e := f2.CAS.SpliceBlob(ctx, &pb.SpliceBlobRequest{BlobDigest: dg(all), ChunkDigests: chunks})
			cancel()
			answers = append(answers, "splice:"+code(e))
		}
		// the same blob through ByteStream.Write
		ctx, cancel := fe.Ctx()
		w, e := f2.BS.Write(ctx)
		if e == nil {
			d := dg(all)
			e = w.Send(&bytestream.WriteRequest{ResourceName: fmt.Sprintf("uploads/%08x-1111-2222-3333-444444444444/blobs/%s/%d", rng.Uint32(), d.Hash, d.SizeBytes), Data: all[:1<<20]})
			if e == nil {
				_ = w.Send(&bytestream.WriteRequest{WriteOffset: 1 << 20, Data: all[1<<20:], FinishWrite: true})
			}
			_, e = w.CloseAndRecv()
		}
		cancel()
		answers = append(answers, "write:"+code(e))
		time.Sleep(50 * time.Millisecond)
		return strings.Join(answers, ","), nil
	})
	add("FindMissingBlobs abandoned while backend lookups are queued", false, func(f *fe.Fixture, rng *rand.Rand) (string, error) {
		if f.Opts.Proxy == nil {
			return "skipped", nil
		}
		var ds []*pb.Digest
		for i := 0; i < 1500; i++ {
			b := drv.GenData(rng, 16, 0)
			ds = append(ds, &pb.Digest{Hash: drv.MkBlob(b).Hash, SizeBytes: 16})
		}
		ctx, c := context.WithTimeout(context.Background(), 30*time.Millisecond)
		_, e := f.CAS.FindMissingBlobs(ctx, &pb.FindMissingBlobsRequest{BlobDigests: ds})
		c()
		time.Sleep(400 * time.Millisecond) // let the 1500 queued lookups drain (3 rounds of 512 x 100 ms)
		return code(e), nil
	})
	return out
}

// handlerGoroutines counts goroutines that are inside a request handler or a
// request-scoped helper of the cache (the permanent pools are excluded).
func handlerGoroutines() (int, string) {
	buf := make([]byte, 8<<20)
	n := runtime.Stack(buf, true)
	cnt := 0
	var sample string
	for _, g := range strings.Split(string(buf[:n]), "\n\n") {
		if strings.Contains(g, "containsWorker") || strings.Contains(g, "performQueuedEvictionsContinuously") {
			continue
		}
		if strings.Contains(g, "bazel-remote/v2/server.(*grpcServer)") || strings.Contains(g, "bazel-remote/v2/server.(*httpCache)") ||
			strings.Contains(g, "bazel-remote/v2/cache/disk.(*diskCache)") || strings.Contains(g, "bazel-remote/v2/cache/disk/casblob.") {
			cnt++
			if sample == "" {
				lines := strings.Split(g, "\n")
				if len(lines) > 9 {
					lines = lines[:9]
				}
				sample = strings.Join(lines, " | ")
			}
		}
	}
	return cnt, sample
}

// openCacheFiles counts this process's descriptors that point into dir.
func openCacheFiles(dir string) int {
	ents, err := os.ReadDir("/proc/self/fd")
	if err != nil {
		return 0
	}
	n := 0
	for _, e := range ents {
		t, err := os.Readlink("/proc/self/fd/" + e.Name())
		if err == nil && strings.HasPrefix(t, dir+"/") {
			n++
		}
	}
	return n
}

// AfterRequest is the resource oracle: nothing of the request may be left.
func AfterRequest(f *fe.Fixture) []string {
	var out []string
	left, sample := 0, ""
	for i := 0; i < 1500; i++ {
		left, sample = handlerGoroutines()
		if left == 0 {
			break
		}
		time.Sleep(time.Millisecond)
	}
	if left > 0 {
		out = append(out, fmt.Sprintf("%d goroutine(s) of the request still alive 1.5 s after it ended: %s", left, sample))
	}
	if !waitFor(func() bool { return openCacheFiles(f.Dir) == 0 }, 3*time.Second) {
		out = append(out, fmt.Sprintf("%d descriptor(s) into the cache directory still open", openCacheFiles(f.Dir)))
	}
	if _, resv, _, _ := f.Cache.Stats(); resv != 0 {
		out = append(out, fmt.Sprintf("reserved=%d after the request ended", resv))
	}
	return out
}

var _ = codes.OK
