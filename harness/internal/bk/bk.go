// Package bk is the backend laboratory: servers that real proxy clients
// (httpproxy, s3proxy, grpcproxy) talk to, which record every object name
// they are asked for and misbehave on request.
package bk

import (
	"context"
	"fmt"
	"io"
	"net"
	"net/http"
	"net/http/httptest"
	"os"
	"regexp"
	"strconv"
	"strings"
	"sync"
	"time"

	asset "github.com/buchgr/bazel-remote/v2/genproto/build/bazel/remote/asset/v1"
	pb "github.com/buchgr/bazel-remote/v2/genproto/build/bazel/remote/execution/v2"
	"google.golang.org/genproto/googleapis/bytestream"
	"google.golang.org/grpc"
	"google.golang.org/grpc/codes"
	"google.golang.org/grpc/status"
)

// Req is one recorded request.
type Req struct {
	Method string `json:"method"`
	Name   string `json:"name"`
}

// HFault makes the HTTP store misbehave for one request.
type HFault struct {
	Status  int           // != 0: answer with this status and a short text body
	Hangup  bool          // close the connection without answering
	CutAt   int           // >= 0 with Abort/Clean: only the first CutAt body bytes are sent
	Abort   bool          // the full length is announced, the connection is closed after CutAt bytes
	Clean   bool          // the body ends cleanly after CutAt bytes (chunked transfer, no Content-Length)
	LieLen  int64         // > 0: HEAD answers with this Content-Length
	NoLen   bool          // GET without Content-Length (chunked), complete body
	Delay   time.Duration // wait before answering
	Forever bool          // keep the fault for every matching request (default: one shot)
}

// HTTPStore is a dumb object store: PUT stores, GET/HEAD serve.  Also speaks
// enough of the S3 REST dialect for minio's Core client (path-style).
type HTTPStore struct {
	mu      sync.Mutex
	Objects map[string][]byte
	Log     []Req
	faults  map[string]*HFault // "METHOD path"
	Srv     *httptest.Server
	PutGate chan struct{} // if non-nil, every PUT waits for a token (upload queue experiments)
	Active  int           // requests being served
}

func NewHTTPStore() *HTTPStore {
	s := &HTTPStore{Objects: map[string][]byte{}, faults: map[string]*HFault{}}
	s.Srv = httptest.NewServer(http.HandlerFunc(s.serve))
	return s
}

func (s *HTTPStore) Close() { s.Srv.CloseClientConnections(); s.Srv.Close() }

// SetFault arms a fault for the next request with this method and path.
func (s *HTTPStore) SetFault(method, path string, f HFault) {
	s.mu.Lock()
	s.faults[method+" "+path] = &f
	s.mu.Unlock()
}

func (s *HTTPStore) ClearFaults() {
	s.mu.Lock()
	s.faults = map[string]*HFault{}
	s.mu.Unlock()
}

func (s *HTTPStore) Put(path string, b []byte) {
	s.mu.Lock()
	s.Objects[path] = b
	s.mu.Unlock()
}

func (s *HTTPStore) Delete(path string) {
	s.mu.Lock()
	delete(s.Objects, path)
	s.mu.Unlock()
}

func (s *HTTPStore) Get(path string) ([]byte, bool) {
	s.mu.Lock()
	defer s.mu.Unlock()
	b, ok := s.Objects[path]
	return b, ok
}

// Requests returns and clears the log.
func (s *HTTPStore) Requests() []Req {
	s.mu.Lock()
	defer s.mu.Unlock()
	l := s.Log
	s.Log = nil
	return l
}

func (s *HTTPStore) Paths() []string {
	s.mu.Lock()
	defer s.mu.Unlock()
	var out []string
	for k := range s.Objects {
		out = append(out, k)
	}
	return out
}

func (s *HTTPStore) ActiveNow() int {
	s.mu.Lock()
	defer s.mu.Unlock()
	return s.Active
}

func (s *HTTPStore) serve(w http.ResponseWriter, r *http.Request) {
	p := r.URL.Path
	s.mu.Lock()
	s.Active++
	s.Log = append(s.Log, Req{r.Method, p})
	f := s.faults[r.Method+" "+p]
	if f != nil && !f.Forever {
		delete(s.faults, r.Method+" "+p)
	}
	obj, have := s.Objects[p]
	gate := s.PutGate
	s.mu.Unlock()
	defer func() { s.mu.Lock(); s.Active--; s.mu.Unlock() }()
	if f == nil {
		f = &HFault{CutAt: -1}
	}
	if f.Delay > 0 {
		select {
		case <-time.After(f.Delay):
		case <-r.Context().Done():
			return
		}
	}
	if f.Hangup {
		if hj, ok := w.(http.Hijacker); ok {
			c, _, _ := hj.Hijack()
			_ = c.Close()
		}
		return
	}
	if f.Status != 0 {
		w.WriteHeader(f.Status)
		_, _ = w.Write([]byte("injected fault"))
		return
	}
	switch r.Method {
	case http.MethodPut:
		if r.Header.Get("X-Amz-Copy-Source") != "" { // S3 CopyObject (timestamp refresh)
			w.Header().Set("Content-Type", "application/xml")
			_, _ = w.Write([]byte(`<?xml version="1.0" encoding="UTF-8"?><CopyObjectResult><ETag>"0"</ETag><LastModified>2020-01-01T00:00:00.000Z</LastModified></CopyObjectResult>`))
			return
		}
		if gate != nil {
			select {
			case <-gate:
			case <-r.Context().Done():
				return
			}
		}
		b, err := io.ReadAll(r.Body)
		if err != nil {
			w.WriteHeader(400)
			return
		}
		if strings.HasPrefix(r.Header.Get("X-Amz-Content-Sha256"), "STREAMING-") {
			b = decodeAwsChunked(b)
		}
		s.mu.Lock()
		s.Objects[p] = b
		s.mu.Unlock()
		w.Header().Set("ETag", `"0"`)
		w.WriteHeader(200)
	case http.MethodHead:
		if !have {
			w.WriteHeader(404)
			return
		}
		n := int64(len(obj))
		if f.LieLen > 0 {
			n = f.LieLen
		}
		w.Header().Set("Content-Length", strconv.FormatInt(n, 10))
		w.Header().Set("ETag", `"0"`)
		w.Header().Set("Last-Modified", "Wed, 01 Jan 2020 00:00:00 GMT")
		w.WriteHeader(200)
	case http.MethodGet:
		if !have {
			if strings.Count(p, "/") >= 2 && r.Header.Get("Authorization") != "" {
				// S3 dialect: an XML error body
				w.Header().Set("Content-Type", "application/xml")
				w.WriteHeader(404)
				_, _ = w.Write([]byte(`<?xml version="1.0" encoding="UTF-8"?><Error><Code>NoSuchKey</Code><Message>The specified key does not exist.</Message></Error>`))
				return
			}
			w.WriteHeader(404)
			return
		}
		w.Header().Set("ETag", `"0"`)
		w.Header().Set("Last-Modified", "Wed, 01 Jan 2020 00:00:00 GMT")
		switch {
		case f.Abort && f.CutAt >= 0 && f.CutAt < len(obj):
			w.Header().Set("Content-Length", strconv.Itoa(len(obj)))
			w.WriteHeader(200)
			_, _ = w.Write(obj[:f.CutAt])
			if fl, ok := w.(http.Flusher); ok {
				fl.Flush()
			}
			if hj, ok := w.(http.Hijacker); ok {
				c, _, _ := hj.Hijack()
				_ = c.Close()
			}
		case f.Clean && f.CutAt >= 0 && f.CutAt < len(obj):
			w.WriteHeader(200)
			if fl, ok := w.(http.Flusher); ok {
				fl.Flush() // forces chunked transfer
			}
			_, _ = w.Write(obj[:f.CutAt])
		case f.NoLen:
			w.WriteHeader(200)
			if fl, ok := w.(http.Flusher); ok {
				fl.Flush()
			}
			_, _ = w.Write(obj)
		default:
			w.Header().Set("Content-Length", strconv.Itoa(len(obj)))
			w.WriteHeader(200)
			_, _ = w.Write(obj)
		}
	default:
		w.WriteHeader(405)
	}
}

// decodeAwsChunked undoes the aws-chunked transfer encoding of S3 streaming uploads.
func decodeAwsChunked(b []byte) []byte {
	var out []byte
	for len(b) > 0 {
		i := strings.Index(string(b[:min(len(b), 200)]), "\r\n")
		if i < 0 {
			break
		}
		line := string(b[:i])
		if j := strings.Index(line, ";"); j >= 0 {
			line = line[:j]
		}
		n, err := strconv.ParseInt(strings.TrimSpace(line), 16, 64)
		if err != nil || n == 0 {
			break
		}
		b = b[i+2:]
		if int64(len(b)) < n {
			break
		}
		out = append(out, b[:n]...)
		b = b[n:]
		if len(b) >= 2 {
			b = b[2:]
		}
	}
	return out
}

// ---------------------------------------------------------------- gRPC side

// GFault makes the recording gRPC peer misbehave on one call.
type GFault struct {
	Method   string     // substring of the full method name, e.g. "ByteStream/Read"
	Code     codes.Code // error to return
	AfterOut int        // for server streams: fail after this many response bytes were sent (-1: before the handler runs)
	CleanEnd bool       // end the stream cleanly (OK) after AfterOut bytes instead of failing
	Forever  bool
	Mutate   func(resp any) // unary calls: let the handler run, then alter its response (Code is ignored)
}

// GRPCTap records resource names and injects faults into a real gRPC server
// through interceptors.
type GRPCTap struct {
	mu     sync.Mutex
	Log    []Req
	faults []*GFault
	Active int
}

func (t *GRPCTap) SetFault(f GFault) {
	t.mu.Lock()
	t.faults = append(t.faults, &f)
	t.mu.Unlock()
}

func (t *GRPCTap) ClearFaults() {
	t.mu.Lock()
	t.faults = nil
	t.mu.Unlock()
}

func (t *GRPCTap) Requests() []Req {
	t.mu.Lock()
	defer t.mu.Unlock()
	l := t.Log
	t.Log = nil
	return l
}

func (t *GRPCTap) ActiveNow() int {
	t.mu.Lock()
	defer t.mu.Unlock()
	return t.Active
}

func (t *GRPCTap) take(method string) *GFault {
	t.mu.Lock()
	defer t.mu.Unlock()
	for i, f := range t.faults {
		if strings.Contains(method, f.Method) {
			if !f.Forever {
				t.faults = append(t.faults[:i], t.faults[i+1:]...)
			}
			return f
		}
	}
	return nil
}

func (t *GRPCTap) rec(method, name string) {
	t.mu.Lock()
	t.Log = append(t.Log, Req{method, name})
	t.mu.Unlock()
}

func short(full string) string {
	// "/google.bytestream.ByteStream/Read" -> "ByteStream.Read"
	i := strings.LastIndex(full, ".")
	s := full[i+1:]
	s = strings.Replace(s, "/", ".", 1)
	s = strings.TrimPrefix(s, "ActionCache.")
	s = strings.TrimPrefix(s, "ContentAddressableStorage.")
	return s
}

func (t *GRPCTap) Unary(ctx context.Context, req any, info *grpc.UnaryServerInfo, h grpc.UnaryHandler) (any, error) {
	t.mu.Lock()
	t.Active++
	t.mu.Unlock()
	defer func() { t.mu.Lock(); t.Active--; t.mu.Unlock() }()
	m := short(info.FullMethod)
	switch r := req.(type) {
	case *pb.GetActionResultRequest:
		t.rec(m, r.GetActionDigest().GetHash())
	case *pb.UpdateActionResultRequest:
		t.rec(m, r.GetActionDigest().GetHash())
	case *pb.FindMissingBlobsRequest:
		for _, d := range r.BlobDigests {
			t.rec(m, fmt.Sprintf("%s/%d", d.Hash, d.SizeBytes))
		}
	case *asset.FetchBlobRequest:
		for _, q := range r.Qualifiers {
			t.rec(m, q.Name+"="+q.Value)
		}
	default:
		if !strings.Contains(m, "GetCapabilities") {
			t.rec(m, "")
		}
	}
	if f := t.take(info.FullMethod); f != nil {
		if f.Mutate != nil {
			resp, err := h(ctx, req)
			if err == nil {
				f.Mutate(resp)
			}
			return resp, err
		}
		return nil, status.Error(f.Code, "injected fault")
	}
	return h(ctx, req)
}

type tapStream struct {
	grpc.ServerStream
	t      *GRPCTap
	method string
	first  bool
	fault  *GFault
	sent   int
}

type endCleanly struct{}

func (endCleanly) Error() string { return "end stream cleanly" }

func (s *tapStream) RecvMsg(m any) error {
	err := s.ServerStream.RecvMsg(m)
	if err == nil {
		switch r := m.(type) {
		case *bytestream.ReadRequest:
			s.t.rec(s.method, r.ResourceName)
		case *bytestream.WriteRequest:
			if s.first {
				s.first = false
				s.t.rec(s.method, r.ResourceName)
			}
		}
	}
	return err
}

func (s *tapStream) SendMsg(m any) error {
	if r, ok := m.(*bytestream.ReadResponse); ok && s.fault != nil && s.fault.AfterOut >= 0 {
		room := s.fault.AfterOut - s.sent
		if len(r.Data) > room {
			if room > 0 {
				_ = s.ServerStream.SendMsg(&bytestream.ReadResponse{Data: r.Data[:room]})
				s.sent += room
			}
			if s.fault.CleanEnd {
				return endCleanly{}
			}
			return status.Error(s.fault.Code, "injected fault")
		}
		s.sent += len(r.Data)
	}
	return s.ServerStream.SendMsg(m)
}

func (t *GRPCTap) Stream(srv any, ss grpc.ServerStream, info *grpc.StreamServerInfo, h grpc.StreamHandler) error {
	t.mu.Lock()
	t.Active++
	t.mu.Unlock()
	if os.Getenv("VERIF_DEBUG_TAP") != "" {
		t0 := time.Now()
		fmt.Fprintf(os.Stderr, "TAP %s start %s\n", t0.Format("15:04:05.000"), info.FullMethod)
		defer func() {
			fmt.Fprintf(os.Stderr, "TAP %s end   %s (started %s)\n", time.Now().Format("15:04:05.000"), info.FullMethod, t0.Format("15:04:05.000"))
		}()
	}
	defer func() { t.mu.Lock(); t.Active--; t.mu.Unlock() }()
	f := t.take(info.FullMethod)
	if f != nil && f.AfterOut < 0 {
		// still record the name the client sent
		ts := &tapStream{ServerStream: ss, t: t, method: short(info.FullMethod), first: true}
		if strings.HasSuffix(info.FullMethod, "/Read") {
			_ = ts.RecvMsg(&bytestream.ReadRequest{})
		}
		return status.Error(f.Code, "injected fault")
	}
	ts := &tapStream{ServerStream: ss, t: t, method: short(info.FullMethod), first: true, fault: f}
	err := h(srv, ts)
	if f != nil && f.CleanEnd {
		return nil
	}
	if f != nil && f.AfterOut >= 0 && err != nil {
		return status.Error(f.Code, "injected fault")
	}
	return err
}

var uuidRe = regexp.MustCompile(`[0-9a-fA-F]{8}-[0-9a-fA-F]{4}-[0-9a-fA-F]{4}-[0-9a-fA-F]{4}-[0-9a-fA-F]{12}`)

// NormUUID replaces the upload id of a write resource name by "UUID".
func NormUUID(s string) string { return uuidRe.ReplaceAllString(s, "UUID") }

// FreeAddr returns an unused loopback address.
func FreeAddr() string {
	l, err := net.Listen("tcp", "127.0.0.1:0")
	if err != nil {
		return "127.0.0.1:0"
	}
	defer l.Close()
	return l.Addr().String()
}
