// Package fe builds the real front ends (gRPC over bufconn, HTTP over
// httptest) around a real disk cache, wired as main.go wires them.
package fe

import (
	"bytes"
	"context"
	"fmt"
	"io"
	"log"
	"math"
	"net"
	"net/http"
	"net/http/httptest"
	"os"
	"time"

	"github.com/buchgr/bazel-remote/v2/cache"
	"github.com/buchgr/bazel-remote/v2/cache/disk"
	asset "github.com/buchgr/bazel-remote/v2/genproto/build/bazel/remote/asset/v1"
	pb "github.com/buchgr/bazel-remote/v2/genproto/build/bazel/remote/execution/v2"
	"github.com/buchgr/bazel-remote/v2/server"

	"google.golang.org/genproto/googleapis/bytestream"
	"google.golang.org/grpc"
	"google.golang.org/grpc/credentials/insecure"
	"google.golang.org/grpc/test/bufconn"
)

// Opts selects the configuration of a fixture.
type Opts struct {
	Mode         string // "zstd" (default) | "uncompressed"
	Impl         string // "go" (default) | "cgo"
	MaxSize      int64  // default 256 MiB
	MaxBlobSize  int64  // 0 = unlimited (math.MaxInt64, as the default configuration)
	HardLimit    int64
	NoValidateAC bool // HTTP: --disable_http_ac_validation
	NoDepsCheck  bool // gRPC: --disable_grpc_ac_deps_check
	Mangle       bool
	Proxy        cache.Proxy
	ProxyMaxBlob int64
	Dir          string // reuse an existing directory (restart); default: fresh temp dir
	NoAsset      bool
	GRPCOpts     []grpc.ServerOption // interceptors of a recording / faulty peer
	AccessLog    io.Writer           // where the cache's access log goes (default: discarded); a slow writer widens the windows around log calls
}

// Fixture is a running set of front ends over one disk cache.
type Fixture struct {
	Opts   Opts
	Dir    string
	Cache  disk.Cache
	ownDir bool

	grpcSrv *grpc.Server
	lis     *bufconn.Listener
	Conn    *grpc.ClientConn
	CAS     pb.ContentAddressableStorageClient
	AC      pb.ActionCacheClient
	Caps    pb.CapabilitiesClient
	BS      bytestream.ByteStreamClient
	Fetch   asset.FetchClient

	HTTP *httptest.Server
}

func silent() *log.Logger { return log.New(io.Discard, "", 0) }

func accessLogger(w io.Writer) *log.Logger {
	if w == nil {
		return silent()
	}
	return log.New(w, "", 0)
}

// New starts a fixture.
func New(o Opts) (*Fixture, error) {
	if o.Mode == "" {
		o.Mode = "zstd"
	}
	if o.Impl == "" {
		o.Impl = "go"
	}
	if o.MaxSize == 0 {
		o.MaxSize = 256 << 20
	}
	maxBlob := o.MaxBlobSize
	if maxBlob == 0 {
		maxBlob = math.MaxInt64
	}
	f := &Fixture{Opts: o}
	if o.Dir == "" {
		d, err := os.MkdirTemp("", "vh-fe")
		if err != nil {
			return nil, err
		}
		f.Dir, f.ownDir = d, true
	} else {
		f.Dir = o.Dir
	}
	opts := []disk.Option{
		disk.WithStorageMode(o.Mode),
		disk.WithZstdImplementation(o.Impl),
		disk.WithMaxBlobSize(maxBlob),
		disk.WithAccessLogger(accessLogger(o.AccessLog)),
	}
	if o.HardLimit > 0 {
		opts = append(opts, disk.WithMaxSizeHardLimit(o.HardLimit))
	}
	if o.ProxyMaxBlob > 0 {
		opts = append(opts, disk.WithProxyMaxBlobSize(o.ProxyMaxBlob))
	}
	if o.Proxy != nil {
		opts = append(opts, disk.WithProxyBackend(o.Proxy))
	}
	c, err := disk.New(f.Dir, o.MaxSize, opts...)
	if err != nil {
		f.Close()
		return nil, fmt.Errorf("disk.New: %w", err)
	}
	f.Cache = c

	f.lis = bufconn.Listen(4 << 20)
	f.grpcSrv = grpc.NewServer(append([]grpc.ServerOption{grpc.MaxRecvMsgSize(64 << 20), grpc.MaxSendMsgSize(64 << 20)}, o.GRPCOpts...)...)
	go func() {
		_ = server.ServeGRPC(f.lis, f.grpcSrv, !o.NoDepsCheck, o.Mangle, !o.NoAsset, maxBlob, c, silent(), silent())
	}()
	conn, err := grpc.NewClient("passthrough://bufnet",
		grpc.WithTransportCredentials(insecure.NewCredentials()),
		grpc.WithContextDialer(func(context.Context, string) (net.Conn, error) { return f.lis.Dial() }),
		grpc.WithDefaultCallOptions(grpc.MaxCallRecvMsgSize(64<<20), grpc.MaxCallSendMsgSize(64<<20)))
	if err != nil {
		f.Close()
		return nil, err
	}
	f.Conn = conn
	f.CAS = pb.NewContentAddressableStorageClient(conn)
	f.AC = pb.NewActionCacheClient(conn)
	f.Caps = pb.NewCapabilitiesClient(conn)
	f.BS = bytestream.NewByteStreamClient(conn)
	f.Fetch = asset.NewFetchClient(conn)

	h := server.NewHTTPCache(c, silent(), silent(), !o.NoValidateAC, o.Mangle, false, false, "", "", maxBlob)
	mux := http.NewServeMux()
	mux.HandleFunc("/status", h.StatusPageHandler)
	mux.HandleFunc("/", h.CacheHandler)
	f.HTTP = httptest.NewServer(mux)
	return f, nil
}

// Close stops the front ends and removes the directory if the fixture made it.
func (f *Fixture) Close() {
	if f.HTTP != nil {
		f.HTTP.Close()
	}
	if f.Conn != nil {
		_ = f.Conn.Close()
	}
	if f.grpcSrv != nil {
		f.grpcSrv.Stop()
	}
	if f.ownDir && f.Dir != "" {
		_ = os.RemoveAll(f.Dir)
	}
}

// Ctx returns a context with a generous deadline for one call.
func Ctx() (context.Context, context.CancelFunc) {
	return context.WithTimeout(context.Background(), 60*time.Second)
}

// HTTPDo issues one HTTP request against the fixture.
func (f *Fixture) HTTPDo(method, path string, body []byte, hdr map[string]string) (int, []byte, http.Header, error) {
	var rd io.Reader
	if body != nil {
		rd = bytes.NewReader(body)
	}
	req, err := http.NewRequest(method, f.HTTP.URL+path, rd)
	if err != nil {
		return 0, nil, nil, err
	}
	for k, v := range hdr {
		if k == "Content-Length-Override" {
			continue
		}
		req.Header.Set(k, v)
	}
	// never let the transport decompress behind our back
	tr := &http.Transport{DisableCompression: true}
	defer tr.CloseIdleConnections()
	cl := &http.Client{Transport: tr, Timeout: 60 * time.Second}
	resp, err := cl.Do(req)
	if err != nil {
		return 0, nil, nil, err
	}
	defer resp.Body.Close()
	b, rerr := io.ReadAll(resp.Body)
	if rerr != nil {
		return resp.StatusCode, b, resp.Header, rerr
	}
	return resp.StatusCode, b, resp.Header, nil
}
