// Package fmtw is an independent implementation of bazel-remote's published
// v2 storage format, written from the format description (README / Format.tla),
// not from the casblob package: file naming per key space, the CAS blob header
// (a zstd skippable frame carrying logical size, compression type, chunk size
// and chunk offset table) followed by independently compressed chunks, and raw
// ".v1" files. It is used to produce directories "as an earlier release would
// have written them" and to read back what the code under test writes.
package fmtw

import (
	"bytes"
	"crypto/sha256"
	"encoding/binary"
	"encoding/hex"
	"errors"
	"fmt"
	"os"
	"path/filepath"
	"regexp"
	"strconv"

	"github.com/klauspost/compress/zstd"
)

const (
	Magic          = 0x184D2A50 // zstd skippable frame
	FixedHeaderLen = 4 + 4 + 8 + 1 + 4 + 8
	TypeIdentity   = 0
	TypeZstd       = 1
)

// Header is the decoded CAS blob header.
type Header struct {
	FrameSize uint32
	Size      int64
	Type      uint8
	ChunkSize uint32
	Offsets   []int64 // one per chunk plus the end of the file
}

// HeaderBytes lays the header out byte by byte.
func HeaderBytes(size int64, typ uint8, chunkSize uint32, offsets []int64) []byte {
	b := make([]byte, 0, FixedHeaderLen+8*len(offsets))
	b = binary.LittleEndian.AppendUint32(b, Magic)
	b = binary.LittleEndian.AppendUint32(b, uint32(8+1+4+8+8*len(offsets)))
	b = binary.LittleEndian.AppendUint64(b, uint64(size))
	b = append(b, typ)
	b = binary.LittleEndian.AppendUint32(b, chunkSize)
	b = binary.LittleEndian.AppendUint64(b, uint64(len(offsets)))
	for _, o := range offsets {
		b = binary.LittleEndian.AppendUint64(b, uint64(o))
	}
	return b
}

// EncodeCAS produces the bytes of a compressed CAS file with the given chunk
// size and encoder level.
func EncodeCAS(data []byte, chunkSize int, level zstd.EncoderLevel) ([]byte, error) {
	if len(data) == 0 {
		return nil, errors.New("empty blobs are never stored")
	}
	enc, err := zstd.NewWriter(nil, zstd.WithEncoderLevel(level), zstd.WithEncoderConcurrency(1))
	if err != nil {
		return nil, err
	}
	defer enc.Close()
	n := (len(data) + chunkSize - 1) / chunkSize
	var frames [][]byte
	for i := 0; i < n; i++ {
		end := (i + 1) * chunkSize
		if end > len(data) {
			end = len(data)
		}
		frames = append(frames, enc.EncodeAll(data[i*chunkSize:end], nil))
	}
	offsets := make([]int64, n+1)
	at := int64(FixedHeaderLen + 8*(n+1))
	for i, f := range frames {
		offsets[i] = at
		at += int64(len(f))
	}
	offsets[n] = at
	out := HeaderBytes(int64(len(data)), TypeZstd, uint32(chunkSize), offsets)
	for _, f := range frames {
		out = append(out, f...)
	}
	return out, nil
}

// ParseHeader decodes and sanity-checks the header of file bytes.
func ParseHeader(b []byte) (*Header, error) {
	if len(b) < FixedHeaderLen+16 {
		return nil, fmt.Errorf("file of %d bytes is shorter than the smallest header", len(b))
	}
	if binary.LittleEndian.Uint32(b[0:]) != Magic {
		return nil, fmt.Errorf("magic number %#x", binary.LittleEndian.Uint32(b[0:]))
	}
	h := &Header{FrameSize: binary.LittleEndian.Uint32(b[4:]), Size: int64(binary.LittleEndian.Uint64(b[8:])), Type: b[16],
		ChunkSize: binary.LittleEndian.Uint32(b[17:])}
	n := int64(binary.LittleEndian.Uint64(b[21:]))
	if n < 2 || FixedHeaderLen+8*n > int64(len(b)) {
		return nil, fmt.Errorf("offset table with %d entries does not fit", n)
	}
	if int64(h.FrameSize) != 8+1+4+8+8*n {
		return nil, fmt.Errorf("frame size %d for %d offsets", h.FrameSize, n)
	}
	for i := int64(0); i < n; i++ {
		h.Offsets = append(h.Offsets, int64(binary.LittleEndian.Uint64(b[FixedHeaderLen+8*i:])))
	}
	if h.Offsets[0] != FixedHeaderLen+8*n {
		return nil, fmt.Errorf("first chunk at %d, header ends at %d", h.Offsets[0], FixedHeaderLen+8*n)
	}
	for i := 1; i < len(h.Offsets); i++ {
		if h.Offsets[i] <= h.Offsets[i-1] {
			return nil, fmt.Errorf("offsets not increasing at %d", i)
		}
	}
	if h.Offsets[n-1] != int64(len(b)) {
		return nil, fmt.Errorf("last offset %d, file has %d bytes", h.Offsets[n-1], len(b))
	}
	return h, nil
}

// DecodeCAS reads a compressed CAS file with an independent decoder: every
// chunk must be a self-contained zstd frame of exactly the chunk size (the last
// one may be shorter).
func DecodeCAS(b []byte) ([]byte, *Header, error) {
	h, err := ParseHeader(b)
	if err != nil {
		return nil, nil, err
	}
	dec, err := zstd.NewReader(nil, zstd.WithDecoderConcurrency(1))
	if err != nil {
		return nil, h, err
	}
	defer dec.Close()
	var out []byte
	nchunks := len(h.Offsets) - 1
	if want := (h.Size + int64(h.ChunkSize) - 1) / int64(h.ChunkSize); h.Type == TypeZstd && want != int64(nchunks) {
		return nil, h, fmt.Errorf("%d chunks for size %d with chunk size %d", nchunks, h.Size, h.ChunkSize)
	}
	for i := 0; i < nchunks; i++ {
		frame := b[h.Offsets[i]:h.Offsets[i+1]]
		if h.Type == TypeIdentity {
			out = append(out, frame...)
			continue
		}
		plain, err := dec.DecodeAll(frame, nil)
		if err != nil {
			return nil, h, fmt.Errorf("chunk %d is not a self-contained zstd frame: %w", i, err)
		}
		if i < nchunks-1 && len(plain) != int(h.ChunkSize) {
			return nil, h, fmt.Errorf("chunk %d decodes to %d bytes, chunk size is %d", i, len(plain), h.ChunkSize)
		}
		out = append(out, plain...)
	}
	if int64(len(out)) != h.Size {
		return nil, h, fmt.Errorf("decoded %d bytes, header says %d", len(out), h.Size)
	}
	return out, h, nil
}

// DecodeZstdStream decodes a byte stream that may start with the skippable
// header frame and consist of several frames (what GET with Accept-Encoding:
// zstd and ByteStream compressed-blobs reads deliver).
func DecodeZstdStream(b []byte) ([]byte, error) {
	dec, err := zstd.NewReader(bytes.NewReader(b), zstd.WithDecoderConcurrency(1))
	if err != nil {
		return nil, err
	}
	defer dec.Close()
	var out bytes.Buffer
	if _, err := out.ReadFrom(dec); err != nil {
		return out.Bytes(), err
	}
	return out.Bytes(), nil
}

func Sha(b []byte) string { h := sha256.Sum256(b); return hex.EncodeToString(h[:]) }

// Kind of an entry in the directory.
type Kind string

const (
	CAS       Kind = "cas"       // compressed, v2 header
	CASLegacy Kind = "casLegacy" // raw ".v1" file
	AC        Kind = "ac"
	RAW       Kind = "raw"
)

// RelName returns the published v2 file name (relative to the cache dir).
func RelName(k Kind, hash string, logicalSize int64, suffix string) string {
	switch k {
	case CAS:
		return fmt.Sprintf("cas.v2/%s/%s-%d-%s", hash[:2], hash, logicalSize, suffix)
	case CASLegacy:
		return fmt.Sprintf("cas.v2/%s/%s-%s.v1", hash[:2], hash, suffix)
	case AC:
		return fmt.Sprintf("ac.v2/%s/%s-%s", hash[:2], hash, suffix)
	default:
		return fmt.Sprintf("raw.v2/%s/%s-%s", hash[:2], hash, suffix)
	}
}

// OldName returns the name under the earlier layouts: "v1" = two-level
// <kind>/<hh>/<hash>, "v0" = flat <kind>/<hash>.
func OldName(k Kind, hash string, layout string) string {
	dir := map[Kind]string{CAS: "cas", CASLegacy: "cas", AC: "ac", RAW: "raw"}[k]
	if layout == "v1" {
		return fmt.Sprintf("%s/%s/%s", dir, hash[:2], hash)
	}
	return fmt.Sprintf("%s/%s", dir, hash)
}

var nameRe = regexp.MustCompile(`^(cas|ac|raw)\.v2/([0-9a-f]{2})/([0-9a-f]{64})(?:-([1-9][0-9]*))?-([0-9a-zA-Z]+)(\.v1)?$`)

// ParsedName is a v2 file name taken apart.
type ParsedName struct {
	Kind   Kind
	Hash   string
	Size   int64 // -1 if the name carries none
	Suffix string
}

// ParseName parses a relative v2 file name by the published grammar.
func ParseName(rel string) (*ParsedName, error) {
	m := nameRe.FindStringSubmatch(filepath.ToSlash(rel))
	if m == nil {
		return nil, fmt.Errorf("%q is not a v2 file name", rel)
	}
	if m[2] != m[3][:2] {
		return nil, fmt.Errorf("%q is filed under the wrong fan-out directory", rel)
	}
	p := &ParsedName{Hash: m[3], Size: -1, Suffix: m[5]}
	switch {
	case m[1] == "cas" && m[6] == ".v1":
		p.Kind = CASLegacy
	case m[1] == "cas":
		p.Kind = CAS
	case m[1] == "ac":
		p.Kind = AC
	default:
		p.Kind = RAW
	}
	if m[4] != "" {
		p.Size, _ = strconv.ParseInt(m[4], 10, 64)
	}
	if p.Kind == CAS && p.Size < 0 {
		return nil, fmt.Errorf("%q: compressed CAS name without logical size", rel)
	}
	if p.Kind != CAS && p.Size >= 0 && m[6] == "" && m[1] != "cas" {
		return nil, fmt.Errorf("%q: size field on a non-CAS name", rel)
	}
	return p, nil
}

// WriteFile writes bytes under dir/rel, creating directories.
func WriteFile(dir, rel string, b []byte) error {
	p := filepath.Join(dir, filepath.FromSlash(rel))
	if err := os.MkdirAll(filepath.Dir(p), 0755); err != nil {
		return err
	}
	return os.WriteFile(p, b, 0644)
}
