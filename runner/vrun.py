"""Core of the runner: builds the harness from /repo's working tree, runs TLC,
runs drivers, triages results against known_findings.jsonl, writes evidence."""
import json, os, re, shutil, subprocess, sys, tempfile, time, hashlib

VERIF = os.path.dirname(os.path.dirname(os.path.abspath(__file__)))
REPO = os.environ.get("VERIF_REPO", "/repo")
SPEC = os.path.join(VERIF, "spec")
HARNESS = os.path.join(VERIF, "harness")
OUT = os.path.join(VERIF, "out")
EVID = os.path.join(VERIF, "evidence")
KNOWN = os.path.join(VERIF, "known_findings.jsonl")
GO = os.environ.get("VERIF_GO", "go1.26.8")

GOENV = dict(os.environ, GOFLAGS="-mod=mod", GOPROXY="off", GOSUMDB="off", GOTOOLCHAIN="local",
             CGO_ENABLED="1")


class Machinery(Exception):
    """Something in the tooling failed: exit 2, never a verdict."""


def log(*a):
    print(*a, flush=True)


def seed():
    try:
        return int(os.environ.get("VERIF_SEED", "1"))
    except ValueError:
        return 1


_scratch = None


def scratch():
    global _scratch
    if _scratch is None:
        base = None
        # a RAM-backed directory makes the many small cache directories of the drivers cheap
        if os.path.isdir("/dev/shm") and os.access("/dev/shm", os.W_OK) and os.environ.get("VERIF_NO_SHM") is None:
            try:
                st = os.statvfs("/dev/shm")
                if st.f_bavail * st.f_frsize > 4 << 30:
                    base = "/dev/shm"
            except OSError:
                base = None
        _scratch = tempfile.mkdtemp(prefix="verif-run-", dir=base)
    return _scratch


_bindir = None


def bindir():
    """Where this run's binaries go: a directory of its own under out/ (on disk, certainly executable)."""
    global _bindir
    if _bindir is None:
        os.makedirs(OUT, exist_ok=True)
        for old in os.listdir(OUT):     # left by a run that was killed
            po = os.path.join(OUT, old)
            if old.startswith("bin-") and time.time() - os.path.getmtime(po) > 6 * 3600:
                shutil.rmtree(po, ignore_errors=True)
        _bindir = tempfile.mkdtemp(prefix="bin-", dir=OUT)
    return _bindir


def cleanup():
    global _scratch, _bindir
    if _scratch and os.path.isdir(_scratch):
        shutil.rmtree(_scratch, ignore_errors=True)
    _scratch = None
    if _bindir and os.path.isdir(_bindir):
        shutil.rmtree(_bindir, ignore_errors=True)
    _bindir = None


# --------------------------------------------------------------------------- build

_built = {}


def harness_dir():
    """The harness module.  It names the tree under test in a replace directive (=> /repo); for another tree
    (VERIF_REPO, used only by tools/ when a changed copy of the repository is checked without touching /repo)
    a scratch copy of the module with that directive rewritten is used."""
    if REPO == "/repo":
        return HARNESS
    d = os.path.join(scratch(), "harness")
    if not os.path.isdir(d):
        shutil.copytree(HARNESS, d)
        gm = open(os.path.join(d, "go.mod")).read()
        gm2 = re.sub(r"=> /repo\b", "=> " + REPO, gm)
        if gm2 == gm:
            raise Machinery("harness go.mod has no replace directive for /repo")
        open(os.path.join(d, "go.mod"), "w").write(gm2)
    return d


def build_vh(race=False):
    """Build the harness binary against /repo's current working tree.  The binary goes to this run's scratch
    directory, so that checks running side by side never execute a file another one is rewriting."""
    key = "race" if race else "plain"
    if key in _built:
        return _built[key]
    out = os.path.join(bindir(), "vh-race" if race else "vh")
    cmd = [GO, "build", "-tags", "verif"] + (["-race"] if race else []) + ["-o", out, "./cmd/vh"]
    t0 = time.time()
    p = subprocess.run(cmd, cwd=harness_dir(), env=GOENV, stdout=subprocess.PIPE, stderr=subprocess.STDOUT, text=True)
    if p.returncode != 0:
        raise Machinery("harness build failed (does /repo compile with -tags verif?):\n" + p.stdout[-4000:])
    log(f"[build] vh{' -race' if race else ''} built in {time.time()-t0:.1f}s")
    _built[key] = out
    return out


def build_server():
    """Build the real bazel-remote binary (package main) from /repo."""
    if "server" in _built:
        return _built["server"]
    out = os.path.join(bindir(), "bazel-remote")
    p = subprocess.run([GO, "build", "-tags", "verif", "-o", out, "."], cwd=REPO, env=GOENV,
                       stdout=subprocess.PIPE, stderr=subprocess.STDOUT, text=True)
    if p.returncode != 0:
        raise Machinery("bazel-remote build failed:\n" + p.stdout[-4000:])
    _built["server"] = out
    return out


def run_vh(args, race=False, timeout=3600, env=None):
    """Run a harness command; returns its parsed result JSON."""
    vh = build_vh(race)
    res = os.path.join(scratch(), f"res-{len(os.listdir(scratch()))}.json")
    cmd = [vh] + args + ["-result", res]
    e = dict(GOENV)
    e["TMPDIR"] = scratch()
    if env:
        e.update(env)
    t0 = time.time()
    try:
        p = subprocess.run(cmd, env=e, stdout=subprocess.PIPE, stderr=subprocess.STDOUT, text=True, timeout=timeout)
    except subprocess.TimeoutExpired:
        raise Machinery(f"harness command timed out after {timeout}s: {' '.join(args)}")
    if not os.path.exists(res):
        raise Machinery(f"harness command produced no result (exit {p.returncode}): {' '.join(args)}\n{p.stdout[-3000:]}")
    r = json.load(open(res))
    r["_wall_s"] = time.time() - t0
    r["_stdout"] = p.stdout[-6000:]
    r["_exit"] = p.returncode
    if r.get("error"):
        raise Machinery(f"harness command failed: {' '.join(args)}: {r['error']}\n{p.stdout[-3000:]}")
    if p.returncode not in (0,):
        raise Machinery(f"harness command exit {p.returncode}: {' '.join(args)}\n{p.stdout[-3000:]}")
    return r


# --------------------------------------------------------------------------- TLC

class TlcResult:
    def __init__(self):
        self.generated = 0
        self.distinct = 0
        self.depth = 0
        self.ok = False
        self.reject = None        # (tag, line) from a Chk(...) of a trace spec
        self.invariant = None     # name of a violated invariant
        self.last_l = None
        self.error = None         # any other TLC error text
        self.output = ""
        self.wall_s = 0.0
        self.coverage = {}        # action -> (distinct, total)
        self.prints = []          # lines printed by the spec (cases)
        self.trace_text = ""


def run_tlc(module, cfg, env=None, workers=1, timeout=1800, extra=None, coverage=False, simulate=None,
            keep_prints=False, heap=None):
    """Run TLC in a scratch copy of spec/. Never raises on a property violation;
    raises Machinery on tool failure."""
    d = tempfile.mkdtemp(prefix="tlc-", dir=scratch())
    for f in os.listdir(SPEC):
        if f.endswith(".tla") or f.endswith(".cfg"):
            shutil.copy(os.path.join(SPEC, f), d)
    cmd = ["tlc", "-workers", str(workers), "-metadir", os.path.join(d, "md"), "-config", cfg]
    if coverage:
        cmd += ["-coverage", "1"]
    if simulate:
        cmd += ["-simulate", simulate]
    if extra:
        cmd += extra
    cmd += [module]
    e = dict(os.environ)
    if env:
        e.update({k: str(v) for k, v in env.items()})
    if heap:
        e["JAVA_OPTS"] = heap
    # TLC creates a directory tlc-<n> in java.io.tmpdir per run: keep it in this run's scratch directory
    e["JAVA_TOOL_OPTIONS"] = (e.get("JAVA_TOOL_OPTIONS", "") + " -Djava.io.tmpdir=" + d).strip()
    t0 = time.time()
    r = TlcResult()
    try:
        p = subprocess.Popen(["timeout", str(timeout)] + cmd, cwd=d, env=e, stdout=subprocess.PIPE,
                             stderr=subprocess.STDOUT, text=True, errors="replace")
        buf = []
        size = 0
        err_at = None
        for line in p.stdout:
            if line.startswith(("Parsing file", "Semantic processing", "Linting of")):
                continue
            if keep_prints and line.startswith('<<"CASE"'):
                r.prints.append(line)
                continue
            buf.append(line)
            size += len(line)
            if err_at is None and line.startswith("Error:"):
                err_at = size
            # a rejected trace prints the whole behaviour; we only need its head and tail
            if err_at is not None and size - err_at > 3_000_000:
                p.kill()
                break
        p.wait()
        rc = p.returncode
    finally:
        r.wall_s = time.time() - t0
    out = "".join(buf)
    r.output = out
    shutil.rmtree(os.path.join(d, "md"), ignore_errors=True)
    shutil.rmtree(os.path.join(d, "states"), ignore_errors=True)
    m = re.search(r"(\d+) states generated, (\d+) distinct states found", out)
    if m:
        r.generated, r.distinct = int(m.group(1)), int(m.group(2))
    m = re.search(r"depth of the complete state graph search is (\d+)", out)
    if m:
        r.depth = int(m.group(1))
    m = re.search(r'"REJECT",\s*"([^"]+)",\s*"line",\s*(\d+)', out)
    if m:
        r.reject = (m.group(1), int(m.group(2)))
    m = re.search(r"Invariant (\w+) is violated", out)
    if m:
        r.invariant = m.group(1)
    m = re.search(r"Action property (\w+) is violated|Temporal properties were violated", out)
    if m:
        r.invariant = r.invariant or (m.group(1) or "temporal")
    ls = re.findall(r"/\\ l = (\d+)", out)
    if ls:
        r.last_l = int(ls[-1])
    for m in re.finditer(r"^<(\w+) line \d+, col \d+ to line \d+, col \d+ of module \w+>: (\d+):(\d+)", out, re.M):
        r.coverage[m.group(1)] = (int(m.group(2)), int(m.group(3)))
    if rc == 124:
        r.error = f"timeout after {timeout}s"
    elif "Model checking completed. No error has been found." in out or (simulate and rc == 0 and "Error:" not in out):
        r.ok = True
    elif r.reject or r.invariant:
        pass
    else:
        em = re.search(r"Error: (.*(?:\n.*){0,12})", out)
        r.error = em.group(1) if em else f"TLC exit {rc}: {out[-1500:]}"
    if r.reject or r.invariant:
        r.trace_text = out[-20000:]
    return r


def run_apalache(module, args, timeout=600):
    """Run apalache-mc check in a scratch copy of spec/.  Returns (outcome, wall_s, tail) where outcome is
    "ok", "error" (a counterexample: the obligation does not hold) or "unavailable" (time-out, tool failure:
    the obligation is then simply not discharged and is reported as such, never as a verdict)."""
    d = tempfile.mkdtemp(prefix="apa-", dir=scratch())
    for f in os.listdir(SPEC):
        if f.endswith(".tla"):
            shutil.copy(os.path.join(SPEC, f), d)
    e = dict(os.environ)
    e["HOME"] = d          # apalache writes ~/.tlaplus
    t0 = time.time()
    try:
        p = subprocess.run(["timeout", str(timeout), "apalache-mc", "check", "--out-dir=" + os.path.join(d, "out"),
                            "--run-dir=" + os.path.join(d, "run")] + args + [module], cwd=d, env=e,
                           stdout=subprocess.PIPE, stderr=subprocess.STDOUT, text=True, errors="replace")
        out = p.stdout
    except OSError as ex:
        return "unavailable", time.time() - t0, str(ex)
    finally:
        pass
    wall = time.time() - t0
    shutil.rmtree(d, ignore_errors=True)
    if "EXITCODE: OK" in out and "The outcome is: NoError" in out:
        return "ok", wall, out[-600:]
    if "The outcome is: Error" in out:
        return "error", wall, out[-3000:]
    return "unavailable", wall, out[-1500:]


def sany(module):
    p = subprocess.run(["tla-sany", module], cwd=SPEC, stdout=subprocess.PIPE, stderr=subprocess.STDOUT, text=True)
    bad = p.returncode != 0 or "*** Errors" in p.stdout or "Fatal errors" in p.stdout or "Could not find" in p.stdout
    return not bad, p.stdout


# --------------------------------------------------------------------------- model half helper

def model_check(name, module, cfg, workers=8, timeout=1800, must_cover=None, env=None):
    """Run an exhaustive TLC configuration of the specification.  A violated
    invariant here is a *model* error (the model is calibrated against the
    pinned code): Machinery, not a verdict."""
    r = run_tlc(module, cfg, workers=workers, timeout=timeout, coverage=bool(must_cover), env=env)
    if not r.ok:
        what = r.invariant or r.error or r.reject
        raise Machinery(f"model check {name} ({module}/{cfg}) did not pass: {what}\n{r.output[-3000:]}")
    if must_cover:
        for a in must_cover:
            if a not in r.coverage or r.coverage[a][1] == 0:
                raise Machinery(f"model check {name}: action {a} never taken (vacuous): {sorted(r.coverage)}")
    log(f"[model] {name}: {r.generated} states generated, {r.distinct} distinct, depth {r.depth}, {r.wall_s:.1f}s")
    return r


# --------------------------------------------------------------------------- trace validation

def _validate_one(path, timeout):
    n = sum(1 for _ in open(path))
    # -Xss: traces of the repository's own tests hold hundreds of goroutines; TLC's recursive evaluation needs the stack
    r = run_tlc("LruTrace.tla", "LruTrace.cfg", env={"VERIF_TRACE_FILE": path, "JAVA_TOOL_OPTIONS": (os.environ.get("JAVA_TOOL_OPTIONS", "") + " -Xss512m").strip()},
                workers=1, timeout=timeout)
    res = {"lines": n, "states": r.generated, "wall_s": round(r.wall_s, 2), "accepted": False}
    if r.ok:
        if r.depth != n + 1:
            raise Machinery(f"trace validation ended at depth {r.depth} of {n + 1} without a rejection:\n{r.output[-2000:]}")
        res["accepted"] = True
        return res
    if r.reject:
        res["reject"] = {"tag": r.reject[0], "line": r.reject[1]}
        return res
    if r.invariant:
        res["reject"] = {"tag": INV_TAG.get(r.invariant, "C03:" + r.invariant), "line": (r.last_l or 1) - 1}
        return res
    raise Machinery(f"TLC failed on trace {path}: {r.error}\n{r.output[-3000:]}")


def validate_trace(path, timeout=1800, parallel=8):
    """TLC trace validation of an ndjson trace file against LruTrace.tla.  The
    file holds several independent traces (each starts with a Reset line); they
    are distributed over up to `parallel` TLC processes."""
    t0 = time.time()
    lines = open(path).readlines()
    if not lines:
        raise Machinery("empty trace")
    # split at Reset lines
    starts = [i for i, l in enumerate(lines) if '"ev":"Reset"' in l]
    if not starts or starts[0] != 0:
        starts = [0] + starts
    traces = [(starts[i], starts[i + 1] if i + 1 < len(starts) else len(lines)) for i in range(len(starts))]
    k = max(1, min(parallel, len(traces), len(lines) // 2000 + 1))
    if k == 1:
        r = _validate_one(path, timeout)
        return r
    # greedy balancing by line count
    bins = [[] for _ in range(k)]
    load = [0] * k
    for t in sorted(traces, key=lambda t: t[0] - t[1]):
        j = load.index(min(load))
        bins[j].append(t)
        load[j] += t[1] - t[0]
    files = []
    for j, b in enumerate(bins):
        b.sort()
        fp = f"{path}.part{j}"
        offs = []  # (first line in part (1-based), first line in original (1-based), length)
        with open(fp, "w") as f:
            at = 1
            for (a, e) in b:
                f.writelines(lines[a:e])
                offs.append((at, a + 1, e - a))
                at += e - a
        files.append((fp, offs))
    import concurrent.futures
    results = []
    with concurrent.futures.ThreadPoolExecutor(max_workers=k) as ex:
        futs = [ex.submit(_validate_one, fp, timeout) for fp, _ in files]
        for (fp, offs), fu in zip(files, futs):
            results.append((fp, offs, fu.result()))
    out = {"lines": len(lines), "states": sum(r["states"] for _, _, r in results), "wall_s": round(time.time() - t0, 2),
           "accepted": all(r["accepted"] for _, _, r in results), "parts": k}
    for fp, offs, r in results:
        if not r["accepted"]:
            ln = r["reject"]["line"]
            orig = ln
            for at, oa, n in offs:
                if at <= ln < at + n:
                    orig = oa + (ln - at)
            out["reject"] = {"tag": r["reject"]["tag"], "line": orig}
            break
    for fp, _ in files:
        try:
            os.remove(fp)
        except OSError:
            pass
    return out


INV_TAG = {
    "InvAccounting": "C03:AccountingExact", "InvLogical": "C03:LogicalExact", "InvWithinMax": "C03:WithinMax",
    "InvReserved": "C03:ReservedIsInflight", "InvMapList": "C07:MapListConsistent", "InvCount": "C03:CountExact",
    "InvFiles": "C04:indexedEntryLacksFile",
}


def trace_context(path, line, before=12, after=2):
    out = []
    with open(path) as f:
        for i, l in enumerate(f, 1):
            if line - before <= i <= line + after:
                try:
                    e = json.loads(l)
                    slim = {k: v for k, v in e.items() if v not in ("", [], False, 0, None) or k in ("ev", "ok")}
                    out.append({"line": i, **slim})
                except Exception:
                    out.append({"line": i, "raw": l[:200]})
            if i > line + after:
                break
    return out


# --------------------------------------------------------------------------- findings

def load_known():
    out = []
    if os.path.exists(KNOWN):
        for l in open(KNOWN):
            l = l.strip()
            if not l or l.startswith("#"):
                continue
            if l.startswith("fixed:"):
                continue  # documentation only; suppresses nothing
            try:
                out.append(json.loads(l))
            except Exception:
                raise Machinery(f"malformed line in known_findings.jsonl: {l[:100]}")
    return out


LAST_KNOWN = 0


class Verdict:
    """Collects violations for one run, triages against known findings."""

    def __init__(self, prop):
        self.prop = prop
        self.violations = []   # dict(prop, sig, what, replay)
        self.known_hits = {}
        self.new_count = 0     # occurrences that no known finding explains (set by finish)
        self.known_count = 0   # occurrences explained by a listed known finding

    def add(self, prop, sig, what, replay):
        # signatures are compared modulo concrete numbers, hashes and sizes
        sig = re.sub(r"[0-9a-f]{8,}|\d+", "#", sig)
        self.violations.append({"prop": prop, "sig": sig, "what": what, "replay": replay})

    def finish(self):
        known = [k for k in load_known() if k.get("status", "open") == "open"]
        new = []
        for v in self.violations:
            hit = None
            for k in known:
                if k["property"] == v["prop"] and re.search(k["signature"], v["sig"]):
                    hit = k
                    break
            if hit:
                self.known_hits.setdefault((hit["property"], hit["signature"]), hit)
            else:
                new.append(v)
        self.new_count, self.known_count = len(new), len(self.violations) - len(new)
        global LAST_KNOWN
        LAST_KNOWN = self.known_count
        for (p, s), k in self.known_hits.items():
            log(f"KNOWN-FINDING: property={p} {k['what']}")
        seen = set()
        shown = 0
        for v in new:
            key = (v["prop"], v["sig"])
            if key in seen:
                continue
            seen.add(key)
            path = write_replay(v)
            if shown < 8:
                log(f"VIOLATION property={v['prop']} replay={path}")
                log(f"  what: {v['what']}")
            shown += 1
        if shown > 8:
            log(f"  (+{shown - 8} more distinct violations; replays are in {os.path.join(OUT, 'replays')})")
        return 1 if new else 0


def write_replay(v):
    os.makedirs(os.path.join(OUT, "replays"), exist_ok=True)
    h = hashlib.sha1(json.dumps([v["prop"], v["sig"]]).encode()).hexdigest()[:10]
    path = os.path.join(OUT, "replays", f"{v['prop']}-{h}.json")
    doc = {"property": v["prop"], "signature": v["sig"], "what": v["what"]}
    doc.update(v["replay"] or {})
    json.dump(doc, open(path, "w"), indent=1)
    return path


# --------------------------------------------------------------------------- evidence

def write_evidence(prop, tier, level, coverage, wall_s, violations, assumptions=None):
    # (VERIF_EVIDENCE_DIR: used by tools/seedrun.sh so that runs against a deliberately broken tree do not
    # overwrite the evidence of the unchanged one)
    EVID = os.environ.get("VERIF_EVIDENCE_DIR") or globals()["EVID"]
    os.makedirs(EVID, exist_ok=True)
    coverage = dict(coverage)
    coverage["known_finding_occurrences"] = LAST_KNOWN   # violations explained by entries of known_findings.jsonl (not counted below)
    doc = {
        "property_id": prop, "tier": tier, "seed": seed(), "level": level, "coverage": coverage,
        "assumptions": assumptions or [], "wall_s": round(wall_s, 2), "violations": violations,
    }
    tmp = os.path.join(EVID, f".{prop}.json.tmp")
    json.dump(doc, open(tmp, "w"), indent=1)
    os.replace(tmp, os.path.join(EVID, f"{prop}.json"))


# --------------------------------------------------------------------------- main

def main(argv):
    import props
    if not argv:
        print(__doc__)
        return 2
    try:
        if argv[0] == "setup":
            return props.setup()
        if argv[0] == "selftest":
            return props.selftest()
        if argv[0] == "replay":
            if len(argv) < 3:
                print("usage: check replay <id> <path>")
                return 2
            return props.replay(argv[1], argv[2])
        prop = argv[0]
        tier = argv[1] if len(argv) > 1 else os.environ.get("VERIF_TIER", "quick")
        if tier not in ("quick", "thorough"):
            tier = "quick"
        if prop not in props.CHECKS:
            print(f"unknown property {prop}; known: {sorted(props.CHECKS)}")
            return 2
        t0 = time.time()
        rc = props.CHECKS[prop](prop, tier)
        log(f"[done] {prop} {tier}: exit {rc} in {time.time()-t0:.1f}s")
        return rc
    except Machinery as e:
        log(f"MACHINERY-ERROR: {e}")
        return 2
    finally:
        cleanup()
