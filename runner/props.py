"""Per-property checks.  Every check has a model half (TLC on the
specification) and a conformance half (the specification bound to the code
built from /repo's working tree); it reports nothing until both have run."""
import json, os, time, shutil, glob, tempfile
from vrun import (Machinery, Verdict, build_vh, build_server, log, model_check, run_vh, run_tlc, run_apalache, sany, scratch,
                  seed, trace_context, validate_trace, write_evidence, SPEC, OUT, VERIF, REPO, GOENV, GO)

CHECKS = {}


def check(*ids):
    def deco(f):
        for i in ids:
            CHECKS[i] = f
        return f
    return deco


def setup():
    """MANIFEST.setup_cmd: parse every specification, build the harness."""
    bad = 0
    for f in sorted(os.listdir(SPEC)):
        if f.endswith(".tla"):
            ok, out = sany(f)
            if not ok:
                log(f"[setup] SANY failed on {f}:\n{out[-1500:]}")
                bad += 1
    build_vh()
    log(f"[setup] specifications parsed ({'errors: %d' % bad if bad else 'ok'}), harness built")
    return 2 if bad else 0


def selftest():
    """Demonstrate the binding (DESIGN 4.6): a recorded execution is accepted as it is and rejected once a
    single recorded field is altered or a single hook's event is dropped; a header byte altered in a
    recorded file is rejected by Format.tla; an expectation altered in a case table makes the engine
    report the (correct) code.  Exit 0 iff every corruption is noticed."""
    ok = True
    tr = os.path.join(scratch(), "self.ndjson")
    r = run_vh(["seq", "-seed", "5", "-hists", "6", "-ops", "30", "-trace", tr])
    if not (r.get("trace") or {}).get("lines"):
        raise Machinery("selftest: no trace recorded")
    tv = validate_trace(tr)
    log(f"[self] untouched trace: {'accepted' if tv.get('accepted') else 'REJECTED ' + str(tv.get('reject'))}")
    ok &= bool(tv.get("accepted"))
    lines = open(tr).read().splitlines()

    def variant(name, edit):
        nonlocal ok
        out = list(lines)
        if not edit(out):
            raise Machinery(f"selftest: no line to corrupt for {name}")
        path = os.path.join(scratch(), f"self-{name}.ndjson")
        open(path, "w").write("\n".join(out) + "\n")
        t = validate_trace(path)
        rej = t.get("reject")
        log(f"[self] {name}: {'rejected at ' + str(rej) if rej else 'ACCEPTED (binding broken)'}")
        ok &= bool(rej)

    def bump_size(out):
        for i, l in enumerate(out):
            d = json.loads(l)
            if d.get("ev") == "Reserve" and d.get("size", 0) > 0 and d.get("code", 0) == 0:
                d["size"] += 4096
                out[i] = json.dumps(d)
                return True
        return False

    def drop_event(evname):
        def f(out):
            for i, l in enumerate(out):
                if json.loads(l).get("ev") == evname and i > 5:
                    del out[i]
                    return True
            return False
        return f

    def flip_key(out):
        for i, l in enumerate(out):
            d = json.loads(l)
            if d.get("ev") == "Add" and d.get("key"):
                d["key"] = d["key"][:-1] + ("0" if d["key"][-1] != "0" else "1")
                out[i] = json.dumps(d)
                return True
        return False

    variant("reserved size +4096 in one Reserve event", bump_size)
    variant("one Unreserve event dropped (hook removed)", drop_event("Unreserve"))
    variant("one FileRemove event dropped (hook removed)", drop_event("FileRemove"))
    variant("key of one Add event altered", flip_key)
    # Format: one byte of a recorded header
    names = os.path.join(scratch(), "self-names.json")
    rr = run_tlc("Format.tla", "Format.cfg", env={"VERIF_CASES_OUT": names}, workers=2, timeout=300)
    prep = tempfile.mkdtemp(prefix="self-prep-", dir=scratch())
    run_vh(["format", "-phase", "prep", "-prep", prep, "-tier", "quick", "-seed", "3"])
    headers = os.path.join(scratch(), "self-headers.json")
    run_tlc("Format.tla", "Format_render.cfg", env={"VERIF_PARAMS_IN": os.path.join(prep, "params.ndjson"), "VERIF_HEADERS_OUT": headers}, timeout=300)
    record = os.path.join(scratch(), "self-written.ndjson")
    run_vh(["format", "-phase", "run", "-prep", prep, "-headers", headers, "-names", names, "-record", record, "-tier", "quick", "-seed", "3"])
    recs = [json.loads(l) for l in open(record)]
    r3 = run_tlc("Format.tla", "Format_validate.cfg", env={"VERIF_TRACE_FILE": record}, timeout=300)
    log(f"[self] recorded headers untouched: {'accepted' if r3.ok else 'REJECTED'}")
    ok &= r3.ok
    recs[0]["head"][17] ^= 1   # chunk size field
    bad = os.path.join(scratch(), "self-written-bad.ndjson")
    open(bad, "w").write("\n".join(json.dumps(x) for x in recs) + "\n")
    r4 = run_tlc("Format.tla", "Format_validate.cfg", env={"VERIF_TRACE_FILE": bad}, timeout=300)
    log(f"[self] one bit of a recorded header altered: {'rejected ' + str(r4.reject) if r4.reject else 'ACCEPTED (binding broken)'}")
    ok &= bool(r4.reject)
    # case table: an altered expectation must make the engine disagree with the (correct) code
    out = os.path.join(scratch(), "self-limits.json")
    run_tlc("Limits.tla", "Limits.cfg", env={"VERIF_CASES_OUT": out}, timeout=300)
    tab = json.load(open(out))
    for row in tab:
        if row["path"] == "Contains" and row["relation"] == "above":
            row["positive"] = True
    json.dump(tab, open(out, "w"))
    r5 = run_vh(["limits", "-cases", out, "-seed", "1"])
    n = len(r5.get("violations", []))
    log(f"[self] one expectation of the Limits table altered: engine reports {n} disagreement(s){'' if n else ' (binding broken)'}")
    ok &= n > 0
    log(f"[self] {'binding demonstrated' if ok else 'BINDING SELF-TEST FAILED'}")
    return 0 if ok else 2


def replay(prop, path):
    """Re-execute a replay file written by a failing check."""
    doc = json.load(open(path))
    kind = doc.get("kind")
    v = Verdict(prop)
    if kind == "trace":
        # re-run the driver with the recorded arguments and validate again
        tr = os.path.join(scratch(), "replay.ndjson")
        r = run_vh(doc["driver_args"] + ["-trace", tr])
        collect_driver(v, r, doc)
        tv = validate_trace(tr)
        collect_trace(v, tv, tr, doc)
    elif kind == "driver":
        r = run_vh(doc["driver_args"])
        collect_driver(v, r, doc)
    else:
        log(f"unknown replay kind {kind!r}")
        return 2
    return v.finish()


# --------------------------------------------------------------------------- helpers

def collect_driver(v, r, replay_doc):
    """Violations observed by the harness's direct oracles."""
    for x in r.get("violations", []):
        sig = f"oracle:{x['what']}"
        v.add(x["prop"], sig, x["what"], dict(replay_doc, kind=replay_doc.get("kind", "driver"), hist=x.get("hist"), op=x.get("op")))


def collect_trace(v, tv, trace_path, replay_doc):
    """A rejected trace: the tag names the property and the check."""
    if tv.get("accepted"):
        return
    tag = tv["reject"]["tag"]
    line = tv["reject"]["line"]
    prop, _, what = tag.partition(":")
    ctx = trace_context(trace_path, line)
    v.add(prop, f"trace:{what}", f"recorded execution is not a behaviour of the specification: {what} at trace line {line}",
          dict(replay_doc, kind="trace", tag=tag, line=line, context=ctx))


def trace_half(v, plans, cov):
    """Run drivers that record traces; validate each trace with TLC."""
    total_lines = 0
    traces = 0
    for name, args in plans:
        tr = os.path.join(scratch(), f"{name}.ndjson")
        r = run_vh(args + ["-trace", tr])
        doc = {"driver_args": args, "driver": name}
        collect_driver(v, r, doc)
        st = r.get("trace") or {}
        if not st.get("lines"):
            raise Machinery(f"driver {name} recorded no events (are the hooks compiled in?)")
        tv = validate_trace(tr)
        collect_trace(v, tv, tr, doc)
        total_lines += st["lines"]
        traces += st["traces"]
        cov["drivers"].append({"driver": name, "histories": r["cases"], "nontrivial": r["nontrivial"], "rule": r["rule"],
                               "trace_lines": st["lines"], "traces": st["traces"], "events": st.get("by_event"),
                               "evictions": st.get("evictions"), "accepted": tv.get("accepted"),
                               "validate_s": tv.get("wall_s"), "drive_s": round(r["_wall_s"], 1)})
        for s in r.get("samples", [])[:1]:
            cov["samples"].append({"driver": name, "history": s})
        cov["evaluations"] += r["cases"]
        cov["distinct_nontrivial"] += r["nontrivial"]
        log(f"[conf] {name}: {r['cases']} histories ({r['nontrivial']} non-trivial), {st['lines']} trace lines in {st['traces']} traces, "
            f"validated={'accepted' if tv.get('accepted') else tv.get('reject')} in {tv.get('wall_s')}s")
    cov["traces_validated_against_impl"] += traces
    cov["trace_lines"] = cov.get("trace_lines", 0) + total_lines


def new_cov():
    return {"states": 0, "transitions": 0, "traces_validated_against_impl": 0, "samples": [], "models": [], "drivers": [],
            "evaluations": 0, "distinct_nontrivial": 0}


def add_model(cov, name, r, constants):
    cov["states"] += r.distinct
    cov["transitions"] += r.generated
    cov["models"].append({"config": name, "distinct_states": r.distinct, "states_generated": r.generated, "depth": r.depth,
                          "wall_s": round(r.wall_s, 1), "constants": constants, "exhaustive": True})


# --------------------------------------------------------------------------- C03 C04 C05 C07 C17 (index family)

INDEX_ASSUME = [
    "TLC 1.8 and the Go runtime are trusted",
    "hooks (build tag verif) are at the linearization points: index events are emitted while diskCache.mu is held, hand-over to the remover is logged before the entry is queued, file events right after the file-system step",
    "the trace specification accepts any value of the deletion-backlog counter between the bounds the log implies (remover events are not under the lock)",
    "bounded model: 2-3 goroutines, 1-2 keys, <= 2 requests each; larger schedules are covered by recorded stress executions only",
]


def index_models(tier, cov, which):
    s = seed()
    cfgs = [("q3", "2 goroutines x 2 requests, 1 key, 1 size, corrupt file initially indexed")]
    if tier == "thorough":
        cfgs += [("q1", "2 goroutines x 2 requests, 2 keys, 2 sizes")]
        if which in ("C03", "C07"):
            # the two 50 M-state configurations (13 and 16 min on 16 cores) check every invariant of the module at
            # once; they are run by the accounting and the concurrency property, not five times over
            cfgs += [("2x2c", "2 goroutines x 2 requests, 2 keys, 2 sizes, corrupt file initially indexed"),
                     ("q2", "3 goroutines x 1 request, 2 keys, 2 sizes, corrupt file initially indexed")]
        cfgs += [("q3live", "q3 with the liveness properties: every request ends, the remover catches up (fairness of Spec)"),
                 ("q3b", "2 goroutines x 2 requests, 1 key, 1 size, corrupt file initially indexed, proxy backend (fetch = reserve / ask + create / copy / commit / clean-up; uploads handed to the backend)")]
    for c, desc in cfgs:
        r = model_check(f"Cache/{c}", "MC_Cache.tla", f"MC_Cache_{c}.cfg", workers=16,
                        timeout=3000 if tier == "thorough" else 600)
        add_model(cov, f"MC_Cache_{c}", r, desc)
    if which in ("C03", "C17"):
        unbounded_index(tier, cov)


def unbounded_index(tier, cov):
    """The accounting core over unbounded integers: LruInd.tla's IndInv is inductive (Apalache), and Lru.tla -
    the module recorded executions are validated against - refines LruInd (TLC, LruIndRefine.tla)."""
    if tier == "quick":
        cfgs = [("LruIndRefine_q.cfg", "2 keys, max 3 blocks, 4 sizes, no hard limit, <= 3 elements ever, <= 2 queued")]
    else:
        cfgs = [("LruIndRefine.cfg", "2 keys, max 3 blocks, 5 sizes, no hard limit, <= 3 elements ever, <= 2 queued"),
                ("LruIndRefine_hard.cfg", "the same with a hard limit of 4 blocks")]
    for cfg, desc in cfgs:
        r = model_check(f"LruIndRefine/{cfg}", "LruIndRefine.tla", cfg, workers=16, timeout=1500)
        add_model(cov, cfg[:-4], r, desc + "; properties Refines, RefusalsJustified, IndInvHolds")
    obligations = [("base", ["--cinit=CInit", "--init=Init", "--inv=IndInv", "--length=0"]),
                   ("step", ["--cinit=CInit", "--init=IndInit", "--inv=IndInv", "--length=1"])]
    if tier == "thorough":
        obligations += [("NoHang", ["--cinit=CInit", "--init=IndInit", "--inv=NoHang", "--length=0"]),
                        ("SelfEvictionOnlyUnderReservations",
                         ["--cinit=CInit", "--init=IndInit", "--inv=SelfEvictionOnlyUnderReservations", "--length=0"])]
    cov.setdefault("unbounded", [])
    for name, args in obligations:
        outcome, wall, tail = run_apalache("LruInd.tla", args, timeout=900)
        if outcome == "error":
            raise Machinery(f"Apalache refutes obligation {name} of LruInd.tla (a model error, the model is calibrated "
                            f"against the pinned code):\n{tail}")
        cov["unbounded"].append({"module": "LruInd.tla", "obligation": name, "tool": "apalache-mc 0.58 " + " ".join(args),
                                 "outcome": "discharged" if outcome == "ok" else "not discharged (" + tail[-200:].strip() + ")",
                                 "wall_s": round(wall, 1), "scope": "3 keys, Max / Hard / sizes: all integers"})
        cov["obligations"] = cov.get("obligations", 0) + 1
        cov["discharged"] = cov.get("discharged", 0) + (1 if outcome == "ok" else 0)
        log(f"[model] LruInd {name}: {outcome} in {wall:.1f}s")


def replay_half(v, cov, tier):
    """Spec -> code: behaviours of CacheReplay.tla (Cache.tla with a history variable) generated by TLC's
    simulation mode are stepped through the real disk cache, one goroutine per model goroutine held at
    the verif gates; directory, index order, counters and program counters are compared after every step.
    Two configurations: without and with a proxy backend."""
    for cfg, label, n in [("CacheReplay.cfg", "sched", 200 if tier == "quick" else 1500),
                          ("CacheReplay_b.cfg", "sched+backend", 200 if tier == "quick" else 1500)]:
        r = run_tlc("CacheReplay.tla", cfg, workers=1, timeout=3000, simulate=f"num={n}",
                    extra=["-depth", "140", "-seed", str(seed())], keep_prints=True)
        if not r.ok and not r.prints:
            raise Machinery(f"simulation of CacheReplay.tla/{cfg} failed: {r.invariant or r.error}\n{r.output[-2000:]}")
        if r.invariant:
            raise Machinery(f"CacheReplay.tla/{cfg} violates {r.invariant} in simulation\n{r.output[-3000:]}")
        beh = os.path.join(scratch(), f"behaviours-{label}.ndjson")
        k = 0
        with open(beh, "w") as f:
            for l in r.prints:
                l = l.strip()
                if l.startswith('<<"CASE", ') and l.endswith('>>'):
                    f.write(json.loads(l[len('<<"CASE", '):-2]) + "\n")
                    k += 1
        if k == 0:
            raise Machinery(f"CacheReplay.tla/{cfg} printed no behaviour")
        res = run_vh(["sched", "-behaviours", beh, "-seed", str(seed())], timeout=7200)
        keep = beh
        if res.get("violations"):
            os.makedirs(os.path.join(OUT, "replays"), exist_ok=True)
            keep = os.path.join(OUT, "replays", f"behaviours-{v.prop}-{label}-seed{seed()}.ndjson")
            shutil.copy(beh, keep)
        collect_driver(v, res, {"driver_args": ["sched", "-behaviours", keep, "-seed", str(seed())], "kind": "driver"})
        cov["drivers"].append({"driver": f"{label} (replay of TLC behaviours through the gates)", "behaviours": res["cases"], "nontrivial": res["nontrivial"],
                               "rule": res["rule"], "extra": res.get("extra"), "drive_s": round(res["_wall_s"], 1), "simulate_s": round(r.wall_s, 1)})
        cov["evaluations"] += res["cases"]
        cov["distinct_nontrivial"] += res["nontrivial"]
        for smp in res.get("samples", [])[:1]:
            cov["samples"].append({"driver": label, "behaviour": smp})
        if res["cases"] == 0:
            raise Machinery("sched replayed nothing")
        log(f"[conf] {label}: {res['cases']} behaviours of CacheReplay.tla replayed ({res['nontrivial']} with overlapping requests, {res.get('extra')}), "
            f"{len(res.get('violations', []))} violations, {res['_wall_s']:.1f}s")


def repo_tests_half(v, cov, tier):
    """Trace validation of the repository's OWN tests (DESIGN 4.1 (c)): the packages that exercise the disk cache are
    compiled with the verif tag and run with the file sink on (VERIF_TRACE); every index instance a test creates
    yields one trace, validated against LruTrace.tla with every invariant evaluated after every step.  The tests'
    assertions are weak; their traces are not.  A failing test is not a verdict of this check (it is recorded);
    a rejected trace is."""
    d = tempfile.mkdtemp(prefix="repotests-", dir=scratch())
    pkgs = ["./cache/disk/"] if tier == "quick" else ["./cache/disk/", "./server/", "./cache/grpcproxy/", "./cache/httpproxy/", "./cache/s3proxy/", "."]
    env = dict(os.environ, GOFLAGS="-mod=mod", GOPROXY="off", VERIF_TRACE=os.path.join(d, "ev"), TMPDIR=d)
    for k in ("GOTOOLCHAIN", "GOSUMDB"):
        env.pop(k, None)
    import subprocess
    t0 = time.time()
    try:
        p = subprocess.run(["go", "test", "-tags", "verif", "-vet=off", "-count=1", "-timeout", "20m"] + pkgs, cwd=REPO, env=env,
                           stdout=subprocess.PIPE, stderr=subprocess.STDOUT, text=True, timeout=1500)
        rc, out = p.returncode, p.stdout
    except subprocess.TimeoutExpired:
        rc, out = 124, "timeout"
    drive_s = time.time() - t0
    if not glob.glob(os.path.join(d, "ev.*")):
        raise Machinery(f"the repository's tests built with the verif tag recorded nothing (exit {rc}):\n{out[-2000:]}")
    tr = os.path.join(scratch(), "repotests.ndjson")
    r = run_vh(["rawconv", "-in", os.path.join(d, "ev.*"), "-trace", tr, "-maxlines", "20000"])
    st = r.get("trace") or {}
    if not st.get("lines"):
        raise Machinery("the repository's tests recorded no usable trace")
    tv = validate_trace(tr, parallel=12)
    collect_trace(v, tv, tr, {"driver": "repotests", "driver_args": pkgs, "kind": "trace"})
    cov["drivers"].append({"driver": "repository's own tests, verif tag, file sink", "packages": pkgs, "go_test_exit": rc,
                           "index_instances": r["cases"], "nontrivial": r["nontrivial"], "rule": r["rule"],
                           "trace_lines": st["lines"], "traces": st["traces"], "events": st.get("by_event"),
                           "evictions": st.get("evictions"), "skipped": dict(r.get("extra") or {}, beyond_32_bit=st.get("skipped_traces")),
                           "accepted": tv.get("accepted"), "validate_s": tv.get("wall_s"), "drive_s": round(drive_s, 1)})
    cov["traces_validated_against_impl"] += st["traces"]
    cov["trace_lines"] = cov.get("trace_lines", 0) + st["lines"]
    shutil.rmtree(d, ignore_errors=True)
    log(f"[conf] repository's own tests ({' '.join(pkgs)}; go test exit {rc}, {drive_s:.0f}s): {st['traces']} index instances, {st['lines']} trace lines, "
        f"validated={'accepted' if tv.get('accepted') else tv.get('reject')} in {tv.get('wall_s')}s")


def index_family(prop, tier, plans, extra=None, repotests=False):
    t0 = time.time()
    cov = new_cov()
    v = Verdict(prop)
    index_models(tier, cov, prop)
    trace_half(v, plans, cov)
    replay_half(v, cov, tier)
    if repotests:
        repo_tests_half(v, cov, tier)
    for name, args in (extra or []):
        res = run_vh(args, timeout=7200)
        collect_driver(v, res, {"driver_args": args, "kind": "driver"})
        cov["evaluations"] += res["cases"]
        cov["distinct_nontrivial"] += res["nontrivial"]
        cov["drivers"].append({"driver": name, "runs": res["cases"], "rule": res["rule"], "samples": res.get("samples", [])[:2], "drive_s": round(res["_wall_s"], 1)})
        if res["cases"] == 0:
            raise Machinery(f"{name} executed nothing")
        log(f"[conf] {name}: {res['cases']} runs, {len(res.get('violations', []))} violations, {res['_wall_s']:.1f}s")
    rc = v.finish()
    cov["rule"] = "histories are generated from VERIF_SEED; a history counts as non-trivial by the rule its driver states; distinct by operation sequence / seed"
    cov["checker_cmd"] = "tlc MC_Cache.tla (exhaustive) + tlc LruTrace.tla on recorded traces + tlc -simulate CacheReplay.tla replayed by vh sched"
    write_evidence(prop, tier, "model_checking", cov, time.time() - t0, v.new_count, INDEX_ASSUME)
    return rc


@check("C03")
def c03(prop, tier):
    s = seed()
    q = tier == "quick"
    plans = [
        ("seq", ["seq", "-seed", str(s), "-hists", "24" if q else "200", "-ops", "40" if q else "60"]),
        ("stress", ["stress", "-seed", str(s), "-hists", "4" if q else "24", "-workers", "8"]),
        ("lru", ["lru", "-seed", str(s), "-hists", "40" if q else "600", "-ops", "80"]),
    ]
    return index_family(prop, tier, plans, repotests=not q)


@check("C04")
def c04(prop, tier):
    s = seed() + 1000
    q = tier == "quick"
    plans = [
        ("seq", ["seq", "-seed", str(s), "-hists", "24" if q else "200", "-ops", "40" if q else "60"]),
        ("stress", ["stress", "-seed", str(s), "-hists", "4" if q else "24", "-workers", "6"]),
        ("lru", ["lru", "-seed", str(s), "-hists", "40" if q else "600", "-ops", "80"]),
    ]
    return index_family(prop, tier, plans, repotests=True)


@check("C05")
def c05(prop, tier):
    s = seed() + 2000
    q = tier == "quick"
    plans = [
        ("seq", ["seq", "-seed", str(s), "-hists", "30" if q else "250", "-ops", "50" if q else "80"]),
        ("lru", ["lru", "-seed", str(s), "-hists", "40" if q else "600", "-ops", "80"]),
    ]
    # the fourth kind of use the property names: a dependency check that hits refreshes every referenced blob
    # (ActionCache.tla's shapes without a backend; the engine compares the recency order after each hit)
    out = os.path.join(scratch(), "acN-c05-cases.json")
    r = run_tlc("ActionCache.tla", "ActionCache_N.cfg", env={"VERIF_CASES_OUT": out}, workers=8, timeout=1800)
    if not r.ok or not os.path.exists(out):
        raise Machinery(f"ActionCache.tla/ActionCache_N.cfg did not pass or wrote no table: {r.invariant or r.error}")
    return index_family(prop, tier, plans, extra=[("acdeps (recency after a dependency check that hits)", ["acdeps", "-cases", out, "-tier", tier, "-seed", str(s)])])


@check("C07")
def c07(prop, tier):
    s = seed() + 3000
    q = tier == "quick"
    plans = [
        ("stress", ["stress", "-seed", str(s), "-hists", "8" if q else "40", "-workers", "8"]),
        ("stress16", ["stress", "-seed", str(s + 1), "-hists", "2" if q else "20", "-workers", "16", "-ops", "8"]),
        ("lru", ["lru", "-seed", str(s), "-hists", "40" if q else "600", "-ops", "80"]),
    ]
    # whole values through the front ends: concurrent clients, identity and zstd transport
    return index_family(prop, tier, plans, extra=[("festress", ["festress", "-seed", str(s), "-tier", tier])])


@check("C17")
def c17(prop, tier):
    s = seed() + 4000
    q = tier == "quick"
    plans = [
        ("seq", ["seq", "-seed", str(s), "-hists", "24" if q else "200", "-ops", "40" if q else "60"]),
    ]
    return index_family(prop, tier, plans)


# --------------------------------------------------------------------------- case-table checks (spec -> code)

def case_table(module, cfg, env_out="VERIF_CASES_OUT", extra_env=None, workers=1, timeout=600):
    """Run TLC on a decision-style specification: checks its invariants over the
    whole case space and writes the case table for the harness."""
    out = os.path.join(scratch(), module.replace(".tla", "") + "-cases.json")
    env = {env_out: out}
    if extra_env:
        env.update(extra_env)
    r = run_tlc(module, cfg, env=env, workers=workers, timeout=timeout)
    if not r.ok:
        raise Machinery(f"model check of {module} did not pass: {r.invariant or r.error}\n{r.output[-3000:]}")
    if not os.path.exists(out):
        raise Machinery(f"{module} wrote no case table")
    n = len(json.load(open(out)))
    log(f"[model] {module}: {r.distinct} distinct states, {n} cases, {r.wall_s:.1f}s")
    return r, out, n


def case_check(prop, tier, module, cfg, vh_args, desc, assumptions, t0=None, extra_models=None):
    t0 = t0 or time.time()
    cov = new_cov()
    v = Verdict(prop)
    r, table, n = case_table(module, cfg)
    add_model(cov, module.replace(".tla", ""), r, desc)
    for name, rr, d in (extra_models or []):
        add_model(cov, name, rr, d)
    args = [a.replace("{cases}", table).replace("{tier}", tier).replace("{seed}", str(seed())) for a in vh_args]
    res = run_vh(args, timeout=7200)
    collect_driver(v, res, {"driver_args": args, "kind": "driver"})
    cov["evaluations"] = res["cases"]
    cov["distinct_nontrivial"] = res["nontrivial"]
    cov["rule"] = res["rule"]
    cov["samples"] = res.get("samples", [])[:4] or [{"note": "no samples"}]
    cov["cases_in_table"] = n
    cov["extra"] = res.get("extra")
    cov["drivers"].append({"driver": args[0], "executions": res["cases"], "drive_s": round(res["_wall_s"], 1)})
    cov["checker_cmd"] = f"tlc {module} (all cases, Mechanism subset of Policy) + vh {args[0]} (every case on the real servers)"
    if res["cases"] == 0 or res["nontrivial"] < 2:
        raise Machinery(f"{prop}: vacuous run ({res['cases']} executions, {res['nontrivial']} non-trivial)")
    log(f"[conf] {args[0]}: {res['cases']} executions ({res['nontrivial']} non-trivial), {len(res.get('violations', []))} violations, {res['_wall_s']:.1f}s")
    rc = v.finish()
    write_evidence(prop, tier, "model_checking", cov, time.time() - t0, v.new_count, assumptions)
    return rc


CASE_ASSUME = [
    "TLC enumerates the complete abstract case space of the specification; the harness concretises each abstract class (sizes at the real 4 KiB / 1 MiB edges, random/zero/text contents)",
    "byte-level truth comes from SHA-256 in the harness, not from the model",
    "front ends are constructed from the exported constructors exactly as main.go wires them (gRPC over bufconn, HTTP over httptest)",
]


@check("C01")
def c01(prop, tier):
    return case_check(prop, tier, "Ingress.tla", "Ingress.cfg",
                      ["ingress", "-only", "C01", "-cases", "{cases}", "-tier", "{tier}", "-seed", "{seed}"],
                      "13 write paths x 12 defect kinds x present/absent x limit relation, pruned by Applicable", CASE_ASSUME)


@check("C18")
def c18(prop, tier):
    models = [
        ("Ingress/limits", "Ingress.tla", "Ingress.cfg", "13 write paths x max_blob_size in {size-1, size, size+1}: over-limit uploads refused with a client error and nothing stored, uploads of exactly the limit accepted", "ing"),
        ("Limits", "Limits.tla", "Limits.cfg", "11 paths that can reach the backend x object size in {limit-1, limit, limit+1, 10 x limit}: pre-check on the stated size plus post-check on the size the backend reports decide exactly 'served / present iff size <= max_proxy_blob_size'; an oversize object is not even fetched when the caller states the size", "lim"),
    ]
    drivers = [
        ("ingress-limits", ["ingress", "-limits", "-only", "C18", "-cases", "{ing}", "-tier", "{tier}", "-seed", "{seed}"]),
        ("limits", ["limits", "-cases", "{lim}", "-seed", "{seed}"]),
    ]
    return multi_check(prop, tier, models, drivers,
                       CASE_ASSUME + ["backend-read paths run over an in-memory backend that holds the object and nothing else does; limits 5000 and 1 MiB; action results are padded to the exact byte size",
                                      "GetCapabilities is compared with the configured max_blob_size for four values, and the advertised value is the one enforced (limit accepted, limit+1 refused)"],
                       "tlc Ingress.tla + Limits.tla + vh ingress -limits / limits")


@check("C10")
def c10(prop, tier):
    t0 = time.time()
    extra = []
    r2 = model_check("FindMissing/N", "FindMissing.tla", "FindMissing_N.cfg", workers=8)
    extra.append(("FindMissing_N", r2, "all request lists of length <= 4 over 6 digest classes, batch size 2, no backend"))
    return case_check(prop, tier, "FindMissing.tla", "FindMissing_B.cfg",
                      ["findmissing", "-cases", "{cases}", "-tier", "{tier}", "-seed", "{seed}"],
                      "all request lists of length <= 4 over 6 digest classes, batch size 2, 2 backend workers, hand-off queue of capacity 1 (a send on a full queue blocks), all interleavings; liveness: the request terminates",
                      CASE_ASSUME + ["the worker interleaving of the real code is not controlled in the replay; it is explored exhaustively only in the model"],
                      t0=t0, extra_models=extra)


# thorough tier: how many seeds (concretisations of the same table) each property's drivers run with
THOROUGH_SEEDS = {"C08": 8, "C18": 8, "C19": 3, "C20": 1, "C15": 1, "C02": 2, "C12": 2, "C09": 3, "C06": 2, "C11": 3, "C13": 1}


def multi_check(prop, tier, models, drivers, assumptions, checker_cmd):
    """models: list of (name, module, cfg, desc, table_key or None) - TLC runs; a table_key makes the run
    write a case table that drivers can refer to as {table_key}.  drivers: list of (name, args)."""
    t0 = time.time()
    cov = new_cov()
    v = Verdict(prop)
    tables = {}
    for name, module, cfg, desc, key in models:
        if key:
            out = os.path.join(scratch(), f"{key}-cases.json")
            r = run_tlc(module, cfg, env={"VERIF_CASES_OUT": out}, workers=8, timeout=1800)
            if r.ok and not os.path.exists(out):
                raise Machinery(f"{module}/{cfg} wrote no case table")
            tables[key] = out
        else:
            r = run_tlc(module, cfg, workers=8, timeout=1800)
        if not r.ok:
            raise Machinery(f"model check {name} ({module}/{cfg}) did not pass: {r.invariant or r.error}\n{r.output[-3000:]}")
        log(f"[model] {name}: {r.generated} states generated, {r.distinct} distinct, depth {r.depth}, {r.wall_s:.1f}s")
        add_model(cov, name, r, desc)
    rules = []
    reps = 1 if tier == "quick" else THOROUGH_SEEDS.get(prop, 2)
    plan = []
    for rep in range(reps):
        for name, args in drivers:
            if rep > 0 and not any("{seed}" in x for x in args):
                continue
            plan.append((name if rep == 0 else f"{name}#seed+{rep}", args, seed() + 1000 * rep))
    for name, args, sd in plan:
        a = [x.replace("{tier}", tier).replace("{seed}", str(sd)) for x in args]
        for k, p in tables.items():
            a = [x.replace("{" + k + "}", p) for x in a]
        res = run_vh(a, timeout=7200)
        collect_driver(v, res, {"driver_args": a, "kind": "driver"})
        cov["evaluations"] += res["cases"]
        cov["distinct_nontrivial"] += res["nontrivial"]
        rules.append(f"{name}: {res['rule']}")
        for s in res.get("samples", [])[:2]:
            cov["samples"].append({"driver": name, "case": s})
        cov["drivers"].append({"driver": name, "executions": res["cases"], "nontrivial": res["nontrivial"], "drive_s": round(res["_wall_s"], 1),
                               "extra": res.get("extra")})
        if res["cases"] == 0:
            raise Machinery(f"{prop}: driver {name} executed nothing")
        log(f"[conf] {name}: {res['cases']} executions ({res['nontrivial']} non-trivial), {len(res.get('violations', []))} violations, {res['_wall_s']:.1f}s")
    cov["rule"] = " | ".join(rules)
    cov["checker_cmd"] = checker_cmd
    if cov["distinct_nontrivial"] < 2:
        raise Machinery(f"{prop}: vacuous run")
    rc = v.finish()
    write_evidence(prop, tier, "model_checking", cov, time.time() - t0, v.new_count, assumptions)
    return rc


@check("C06")
def c06(prop, tier):
    models = [
        ("ActionCache/backend", "ActionCache.tla", "ActionCache_B.cfg", "all ActionResult shapes of <= 3 references over 7 categories x 6 blob states, backend configured: Mechanism = Policy", "acB"),
        ("ActionCache/nobackend", "ActionCache.tla", "ActionCache_N.cfg", "same, no backend", "acN"),
        ("FindMissing/failfast+backend", "FindMissing.tla", "FindMissing_BF.cfg", "fail-fast dependency check: all lists <= 4, batch 2, 2 workers, all interleavings", None),
        ("FindMissing/failfast", "FindMissing.tla", "FindMissing_NF.cfg", "fail-fast dependency check without backend", None),
    ]
    drivers = [
        ("acdeps+backend", ["acdeps", "-backend", "-cases", "{acB}", "-tier", "{tier}", "-seed", "{seed}"]),
        ("acdeps", ["acdeps", "-cases", "{acN}", "-tier", "{tier}", "-seed", "{seed}"]),
        ("acrace", ["acrace", "-iters", "150" if tier == "quick" else "1500", "-seed", "{seed}"]),
    ]
    return multi_check(prop, tier, models, drivers,
                       CASE_ASSUME + ["blob states are produced by uploads / by a fake backend, the 'absent' state by never uploading; eviction by earlier traffic is covered through C05's traces",
                                      "the fail-fast race schedule found by TLC is replayed through the verif gate findmissing.wait"],
                       "tlc ActionCache.tla + FindMissing.tla (fail-fast) + vh acdeps / acrace")


@check("C11")
def c11(prop, tier):
    models = [
        ("ActionCache/uploads", "ActionCache.tla", "ActionCache_N.cfg", "all histories of <= 2 uploads to one action key over 4 encodings x 23 message classes (7 valid, 16 invalid kinds): stored message always valid, latest accepted wins", "ac"),
    ]
    drivers = [("achist", ["achist", "-cases", "{ac}", "-tier", "{tier}", "-seed", "{seed}"])]
    return multi_check(prop, tier, models, drivers,
                       CASE_ASSUME + ["message classes are concretised with random paths, digests and optional valid fields; equality is proto.Equal after undoing the documented server-side changes (worker filled in when absent, inline contents replaced by their true digest)"],
                       "tlc ActionCache.tla (upload histories) + vh achist")


@check("C13")
def c13(prop, tier):
    srv = build_server()
    models = [
        ("Auth", "Auth.tla", "Auth.cfg", "3 authentication modes x allow_unauthenticated_reads x endpoint metrics x every HTTP method/endpoint and gRPC method x credential state: Mechanism (main.go wiring, interceptors) = Policy", "auth"),
    ]
    drivers = [("auth", ["auth", "-server", srv, "-cases", "{auth}", "-tier", "{tier}", "-seed", "{seed}"])]
    return multi_check(prop, tier, models, drivers,
                       ["the real binary (package main) is built from /repo and started once per configuration on loopback ports",
                        "registered gRPC methods are read from the real registration code; a method the specification does not list is treated as mutating",
                        "only the authentication decision is compared (401 / Unauthenticated / rejected handshake vs anything else); LDAP is not exercised (no server offline)"],
                       "tlc Auth.tla + vh auth (real binary)")


@check("C02")
def c02(prop, tier):
    models = [
        ("CasBlob", "CasBlob.tla", "CasBlob.cfg", "the chunked readers written step for step (seek to chunk, decode one chunk, drop, last-chunk test, stream the rest) for every blob size 1..8, chunk size 1..3 and offset < size: delivered = bytes [off, size)", "cb"),
    ]
    drivers = [("reads", ["reads", "-cases", "{cb}", "-tier", "{tier}", "-seed", "{seed}"])]
    return multi_check(prop, tier, models, drivers,
                       ["each abstract (size, chunk size, offset) is scaled to the real 1 MiB chunk size (blobs written by the real writer) and to 1366 B / 21846 B units (files written by an independent writer of the published format, loaded at start), with -1/0/+1 perturbations of size and offset",
                        "every blob x offset is read through disk.Get / GetZstd (size known and unknown), ByteStream.Read blobs/ and compressed-blobs/zstd/ with offset and read_limit, and at offset 0 through HTTP GET (identity and zstd), HEAD and BatchReadBlobs (identity and zstd); zstd answers are decoded by the harness before comparison",
                        "writer storage mode x reader storage mode (restart in between) x codec implementation; the cgo codec in the thorough tier only"],
                       "tlc CasBlob.tla + vh reads")


@check("C20")
def c20(prop, tier):
    """Format.tla three ways: model (round trip, injectivity, names table), render (header bytes for
    independent encodings), validate (headers of files written by this build)."""
    t0 = time.time()
    cov = new_cov()
    v = Verdict(prop)
    names = os.path.join(scratch(), "format-names.json")
    r = run_tlc("Format.tla", "Format.cfg", env={"VERIF_CASES_OUT": names}, workers=4, timeout=600)
    if not r.ok or not os.path.exists(names):
        raise Machinery(f"Format.tla model mode did not pass: {r.invariant or r.error}\n{r.output[-2000:]}")
    log(f"[model] Format (model): {r.distinct} headers, names table written, {r.wall_s:.1f}s")
    add_model(cov, "Format/model", r, "every header of blobs of 1..5 bytes in chunks of 1..3 bytes with frames of 1..3 bytes, both compression types: parse(render(h)) = h, frame size skips exactly the header, well-formedness fixes every chunk position; naming functions injective over 3 kinds x 3 hashes x 2 modes x 3 prefixes")
    tot_cases = tot_nt = tot_rec = 0
    for rep in range(1 if tier == "quick" else 6):
        sd = seed() + 1000 * rep
        prep = tempfile.mkdtemp(prefix="fmt-prep-", dir=scratch())
        res = run_vh(["format", "-phase", "prep", "-prep", prep, "-tier", tier, "-seed", str(sd)], timeout=1800)
        if res.get("error") or res["cases"] == 0:
            raise Machinery(f"format prep failed: {res.get('error')}")
        headers = os.path.join(scratch(), "format-headers.json")
        r2 = run_tlc("Format.tla", "Format_render.cfg", env={"VERIF_PARAMS_IN": os.path.join(prep, "params.ndjson"), "VERIF_HEADERS_OUT": headers}, workers=1, timeout=900)
        if not r2.ok or not os.path.exists(headers):
            raise Machinery(f"Format.tla render mode did not pass: {r2.invariant or r2.error}\n{r2.output[-2000:]}")
        log(f"[model] Format (render): header bytes for {r2.distinct} independent encodings, {r2.wall_s:.1f}s")
        add_model(cov, "Format/render", r2, "header bytes laid out by the specification for every independent encoding of this run (chunk sizes 4 KiB .. 5 MiB, 6 encoder settings, both compression types)")
        record = os.path.join(scratch(), "format-written.ndjson")
        args = ["format", "-phase", "run", "-prep", prep, "-headers", headers, "-names", names, "-record", record, "-tier", tier, "-seed", str(sd)]
        res = run_vh(args, timeout=7200)
        collect_driver(v, res, {"driver_args": args, "kind": "driver"})
        log(f"[conf] format: {res['cases']} experiments, {len(res.get('violations', []))} violations, {res['_wall_s']:.1f}s")
        nrec = sum(1 for _ in open(record)) if os.path.exists(record) else 0
        if nrec:
            r3 = run_tlc("Format.tla", "Format_validate.cfg", env={"VERIF_TRACE_FILE": record}, workers=1, timeout=900)
            if r3.reject:
                tag, line = r3.reject
                rec_line = open(record).read().splitlines()[line - 1]
                name = json.loads(rec_line).get("name")
                v.add(prop, f"trace:{tag}", f"a compressed CAS file written by this build ({name}) does not conform to the format: {tag}",
                      {"kind": "trace", "tag": tag, "line": line, "file": name})
            elif not r3.ok:
                raise Machinery(f"Format.tla validate mode failed: {r3.invariant or r3.error}\n{r3.output[-2000:]}")
            log(f"[trace] Format (validate): {nrec} recorded headers, {'rejected: ' + str(r3.reject) if r3.reject else 'accepted'}, {r3.wall_s:.1f}s")
            add_model(cov, "Format/validate", r3, "headers of the compressed CAS files this build wrote in this run: parsable, re-render to identical bytes, well formed against the file size, size/name/chunk size/type as published")
        elif not res.get("violations"):
            raise Machinery("format run recorded no written files")
        shutil.rmtree(prep, ignore_errors=True)
        tot_cases += res["cases"]
        tot_nt += res["nontrivial"]
        tot_rec += nrec
    cov["evaluations"] = tot_cases
    cov["distinct_nontrivial"] = tot_nt
    cov["rule"] = res["rule"]
    cov["samples"] = res.get("samples", [])[:5]
    cov["extra"] = res.get("extra")
    cov["recorded_headers"] = tot_rec
    cov["drivers"].append({"driver": "format", "executions": res["cases"], "drive_s": round(res["_wall_s"], 1)})
    cov["checker_cmd"] = "tlc Format.tla (model / render / validate) + vh format"
    if tot_cases < 10:
        raise Machinery("C20: vacuous run")
    rc = v.finish()
    write_evidence(prop, tier, "model_checking", cov, time.time() - t0, v.new_count,
                   ["the format is the one this tree and README describe (casblob.go header comment, FileLocation, objectKey functions); Format.tla is its single statement and every byte of a header used in the experiments comes from it",
                    "independent encodings are produced by the harness with klauspost/compress zstd under six encoder settings; the harness's reader shares no code with casblob.go",
                    "HTTP, S3 (minio client against a local S3-dialect server) and gRPC (a second real server with recording interceptors) backends are driven through the real proxy clients; the Azure endpoint cannot be redirected, its object names are read through a verif-tagged accessor",
                    "TLC integers are 32 bit: files up to 2 GiB; the upper halves of 8-byte fields are zero in all experiments"])
    return rc


@check("C12")
def c12(prop, tier):
    q = tier == "quick"
    models = [
        ("Proxy", "Proxy.tla", "Proxy.cfg", "the proxy read-through path step by step (lookup, reserve, backend call, size checks, file creation, copy, validation, commit, cleanup) for every script of <= 3 requests over 8 backend behaviours x kind x storage mode x size known/unknown x max_proxy_blob_size relation: result within the allowed set, hits complete, nothing reserved / no file / no reader left, nothing oversize cached, cached entries served locally; liveness: every request ends", "px"),
    ]
    drivers = [
        ("iface", ["proxy", "-backend", "iface", "-cases", "{px}", "-stride", "11" if q else "1", "-seed", "{seed}"]),
        ("http", ["proxy", "-backend", "http", "-cases", "{px}", "-stride", "23" if q else "3", "-seed", "{seed}"]),
        ("grpc", ["proxy", "-backend", "grpc", "-cases", "{px}", "-stride", "23" if q else "3", "-seed", "{seed}"]),
        ("s3", ["proxy", "-backend", "s3", "-cases", "{px}", "-stride", "31" if q else "3", "-seed", "{seed}"]),
        ("writes", ["proxy", "-part", "writes", "-seed", "{seed}"]),
    ]
    return multi_check(prop, tier, models, drivers,
                       ["faults are injected at two levels: at the cache.Proxy interface (an in-memory backend returning every (reader, size, error) combination) and at the transport below the real httpproxy / s3proxy (minio client) / grpcproxy clients: HTTP status, dropped connection, body cut at a byte with and without announced length, missing length, gRPC status before the stream and after k bytes, clean end after k bytes, altered FetchBlob answers; a fault a transport cannot express is skipped for that backend",
                        "the backend is trusted for content it completely and consistently delivers (no bit flips, no consistent substitution of another object), as the property says",
                        "not-found may surface as miss or error (the property's wording); with a gRPC backend the peer's NotFound status does surface as an error",
                        "fault positions are drawn per request from {0, 1, inside the header, half, last byte, random}; the azure client cannot be redirected to a local server and is not exercised",
                        "each request runs in its own cancellable context, as a server handler does"],
                       "tlc Proxy.tla + vh proxy (iface / http / grpc / s3 / writes)")


@check("C08")
def c08(prop, tier):
    models = [
        ("Crash", "Crash.tla", "Crash_known.cfg", "one key, an optional acknowledged earlier version, a writer going through create / write / write / finalise / close / index / ack / unlink, a kill between any two steps, the loader (duplicates: most recently used valid file), a read with the size known or unknown: no torn read, acknowledged versions served, served versions complete - over kind x storage mode x earlier version x size known; states of the recorded known finding (files without self-validating header) are excluded by a constraint that mirrors known_findings.jsonl", "cr"),
    ]
    drivers = [("crash", ["crash", "-cases", "{cr}", "-tier", "{tier}", "-seed", "{seed}"])]
    return multi_check(prop, tier, models, drivers,
                       ["a kill is a process kill: what completed write() calls put into the files stays (no power-loss model); the image is a copy of the directory, with access and modification times, taken while the writer is held at the place - inside the reader the harness supplies, inside the backend stream, or at a verif gate",
                        "the window between the last chunk and the finalised chunk table of a compressed blob is reached through the reader (all bytes delivered, end of stream not yet seen); the hash check and fsync are not separate kill places",
                        "every image is restarted in the same storage mode, every third one (thorough: every one) also in the other mode",
                        "the remover is stopped between unlinks through the verif gate 'evict'"],
                       "tlc Crash.tla + vh crash")


@check("C09")
def c09(prop, tier):
    models = [
        ("Restart", "Restart.tla", "Restart_dedup_q.cfg" if tier == "quick" else "Restart_dedup.cfg", "all populations of <= " + ("3" if tier == "quick" else "4") + " files over 3 keys x 4 sizes (0 - an empty value - to 3 blocks; duplicates included) x max_size 1..6 blocks: the loader (Lru.tla's Add, oldest first) leaves exactly the maximal most-recent suffix that fits; index order = access-time order; directory = index", "rs"),
    ]
    drivers = [("restart", ["restart", "-cases", "{rs}", "-tier", "{tier}", "-seed", "{seed}"])]
    return multi_check(prop, tier, models, drivers,
                       ["directories are produced by an independent writer of the published v2 format (and of the two older layouts), access times are set with os.Chtimes",
                        "abstract sizes are blocks of 4 KiB; kinds, layouts, file-name suffixes and the storage mode after the restart are drawn at random per case",
                        "lost+found / .DS_Store handling is exercised by the repository's own tests only"],
                       "tlc Restart.tla + vh restart")


def tlc_final_states(module, cfg, workers=1, timeout=1800):
    """Run a specification whose invariant prints its final states as <<"CASE", json>>; returns
    (TlcResult, path of an ndjson file with one final state per line)."""
    r = run_tlc(module, cfg, env={"VERIF_PRINT": "1"}, workers=workers, timeout=timeout, keep_prints=True)
    if not r.ok:
        raise Machinery(f"{module}/{cfg} did not pass: {r.invariant or r.error}\n{r.output[-2000:]}")
    out = os.path.join(scratch(), module.replace(".tla", "") + "-finals.ndjson")
    with open(out, "w") as f:
        for l in r.prints:
            l = l.strip()
            if l.startswith('<<"CASE", "') and l.endswith('">>'):
                f.write(l[len('<<"CASE", "'):-3].replace('\\"', '"') + "\n")
    n = sum(1 for _ in open(out))
    if n == 0:
        raise Machinery(f"{module}/{cfg} printed no final states")
    log(f"[model] {module}/{cfg}: {r.distinct} distinct states, {n} final states, {r.wall_s:.1f}s")
    return r, out


def bytestream_check(prop, tier):
    t0 = time.time()
    cov = new_cov()
    v = Verdict(prop)
    r1 = model_check("ByteStream", "ByteStream.tla", "ByteStream.cfg", workers=8)
    add_model(cov, "ByteStream", r1, "all client scripts of <= 3 messages (payload 0..2 bytes each, finish_write, name change) x first-message offset x name shape x identity/zstd (valid or invalid stream) x blob present/absent x half-close/abort; all interleavings of recv / put / handler; invariants of C16 and liveness: every party terminates")
    r2, finals = tlc_final_states("ByteStream.tla", "ByteStream_table.cfg")
    add_model(cov, "ByteStream/final-states", r2, "same model; reachable final states per script")
    args = ["bytestream", "-cases", finals, "-tier", tier, "-seed", str(seed())]
    res = run_vh(args, timeout=7200)
    collect_driver(v, res, {"driver_args": args, "kind": "driver"})
    cov["evaluations"], cov["distinct_nontrivial"], cov["rule"] = res["cases"], res["nontrivial"], res["rule"]
    cov["samples"] = res.get("samples", [])[:4]
    cov["drivers"].append({"driver": "bytestream", "executions": res["cases"], "drive_s": round(res["_wall_s"], 1)})
    cov["checker_cmd"] = "tlc ByteStream.tla (safety + liveness, all interleavings) + vh bytestream (every script over bufconn; goroutine / reservation oracle after each call)"
    log(f"[conf] bytestream: {res['cases']} executions ({res['nontrivial']} non-trivial), {len(res.get('violations', []))} violations, {res['_wall_s']:.1f}s")
    return t0, cov, v


@check("C16")
def c16(prop, tier):
    t0, cov, v = bytestream_check(prop, tier)
    rc = v.finish()
    write_evidence(prop, tier, "model_checking", cov, time.time() - t0, v.new_count,
                   CASE_ASSUME + ["a client abort is a stream reset that may overtake messages sent earlier (modelled as ClientGone at any message boundary); the client-side status of an aborted call is not compared",
                                  "abstract payload bytes are concretised as halves of the transport stream; blob sizes 9 B and 70 kB (quick), up to 2 MiB+5 (thorough)"])
    return rc


@check("C14")
def c14(prop, tier):
    t0, cov, v = bytestream_check(prop, tier)
    out = os.path.join(scratch(), "robust-cases.json")
    r = run_tlc("Robust.tla", "Robust.cfg", env={"VERIF_CASES_OUT": out}, workers=1, timeout=300)
    if not r.ok or not os.path.exists(out):
        raise Machinery(f"Robust.tla did not pass: {r.invariant or r.error}\n{r.output[-1500:]}")
    add_model(cov, "Robust", r, "lattice of unset optional sub-messages for 8 request shapes and 3 stored message shapes (96 points)")
    log(f"[model] Robust: {r.distinct} lattice points")
    args = ["robust", "-cases", out, "-tier", tier, "-seed", str(seed())]
    res = run_vh(args, timeout=3600)
    collect_driver(v, res, {"driver_args": args, "kind": "driver"})
    cov["evaluations"] += res["cases"]
    cov["distinct_nontrivial"] += res["nontrivial"]
    cov["rule"] += " | robust: " + res["rule"]
    cov["samples"] += res.get("samples", [])[:3]
    cov["drivers"].append({"driver": "robust", "executions": res["cases"], "drive_s": round(res["_wall_s"], 1)})
    cov["checker_cmd"] += " + tlc Robust.tla + vh robust (child process per run; goroutine / descriptor / reservation oracle after every request)"
    # every upload of the Ingress.tla table - accepted, refused, defective, aborted - must leave no descriptor and no reservation
    ri, table, n = case_table("Ingress.tla", "Ingress.cfg")
    add_model(cov, "Ingress (for the residue oracle)", ri, "13 write paths x 12 defect kinds x present/absent x limit relation")
    args = ["ingress", "-only", "C14", "-cases", table, "-tier", tier, "-seed", str(seed())]
    res2 = run_vh(args, timeout=7200)
    collect_driver(v, res2, {"driver_args": args, "kind": "driver"})
    cov["evaluations"] += res2["cases"]
    cov["distinct_nontrivial"] += res2["nontrivial"]
    cov["drivers"].append({"driver": "ingress (descriptor / reservation residue after every upload)", "executions": res2["cases"], "drive_s": round(res2["_wall_s"], 1)})
    log(f"[conf] ingress residue: {res2['cases']} uploads, {len(res2.get('violations', []))} violations, {res2['_wall_s']:.1f}s")
    log(f"[conf] robust: {res['cases']} executions ({res['nontrivial']} non-trivial), {len(res.get('violations', []))} violations, {res['_wall_s']:.1f}s")
    rc = v.finish()
    write_evidence(prop, tier, "model_checking", cov, time.time() - t0, v.new_count,
                   ["scope: pipeline lifecycle of ByteStream.Write (all interleavings in the model, every script replayed) and structure-level inputs (unset optional sub-messages, ill-formed stored headers and messages, odd names / offsets / headers); arbitrary byte-level fuzzing of the parsers is not part of this technique",
                    "a crash is observed from outside: the server code runs in a child process of the harness",
                    "after every request: no goroutine inside a handler or request-scoped cache helper, no descriptor into the cache directory, reserved = 0"])
    return rc


@check("C15")
def c15(prop, tier):
    t0 = time.time()
    cov = new_cov()
    v = Verdict(prop)
    files = []
    for cfg, desc in [("MV", "mangling on, HTTP validation on"), ("Mv", "mangling on, validation off"),
                      ("mV", "mangling off, validation on"), ("mv", "mangling off, validation off")]:
        r, finals = tlc_final_states("Keyspace.tla", f"Keyspace_{cfg}.cfg")
        dst = os.path.join(scratch(), f"ks_{cfg}.ndjson")
        shutil.copy(finals, dst)
        files.append(dst)
        add_model(cov, f"Keyspace_{cfg}", r, f"all histories of 3 writes (AC via HTTP/gRPC under 3 instances, CAS) with {desc}: isolation invariants; expected reads per history")
    # thorough: the same histories with several draws of instance names
    for rep in range(1 if tier == "quick" else 8):
        args = ["keyspace", "-cases", ",".join(files), "-tier", tier, "-seed", str(seed() + 1000 * rep)]
        res = run_vh(args, timeout=3600)
        collect_driver(v, res, {"driver_args": args, "kind": "driver"})
        cov["evaluations"] += res["cases"]
        cov["distinct_nontrivial"] += res["nontrivial"]
        cov["rule"] = res["rule"]
        if rep == 0:
            cov["samples"] = res.get("samples", [])[:4]
        cov["drivers"].append({"driver": "keyspace", "seed": seed() + 1000 * rep, "executions": res["cases"], "drive_s": round(res["_wall_s"], 1)})
        log(f"[conf] keyspace: {res['cases']} executions ({res['nontrivial']} non-trivial), {len(res.get('violations', []))} violations, {res['_wall_s']:.1f}s")
        if res["cases"] == 0:
            raise Machinery("C15: nothing executed")
    cov["checker_cmd"] = "tlc Keyspace.tla (4 configurations) + vh keyspace"
    rc = v.finish()
    write_evidence(prop, tier, "model_checking", cov, time.time() - t0, v.new_count,
                   CASE_ASSUME + ["instance names come from a catalogue (nested, segments named ac / cas / blobs / uploads, unicode, spaces); names that are not path-clean are excluded as documented",
                                  "the same 64-hex key is used in all namespaces of a history; the restart projection of the key spaces is covered by C09's populations"])
    return rc


@check("C19")
def c19(prop, tier):
    models = [("Config", "Config.tla", "Config.cfg", "required settings plus every single and every pair of 40 further settings (two sample values each): validateConfig's tests = the validity policy; 25 invalid classes", "cfg")]
    drivers = [("config", ["config", "-cases", "{cfg}", "-tier", "{tier}", "-seed", "{seed}"])]
    return multi_check(prop, tier, models, drivers,
                       ["the settings table (flag, environment variable, YAML path, type, sample values) is part of the specification, taken from README / --help, not read from the code under test",
                        "only explicitly given settings are compared across the three syntaxes (defaults of omitted settings, in particular listener addresses, intentionally differ)",
                        "the basic configuration is compared (config.get through a verif accessor, config.NewFromYaml); derived objects (TLS config, proxy clients, loggers) are not built",
                        "azblob settings are not in the table (their YAML section cannot be switched on without tenant id; only naming is covered by C20)"],
                       "tlc Config.tla + vh config")
