SPECIFICATION Spec
INVARIANT InvMechanismIsPolicy
CHECK_DEADLOCK FALSE
