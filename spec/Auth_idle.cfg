SPECIFICATION Spec
CONSTANT TlsExclusiveBug = FALSE
CONSTANT IdleBypassBug = TRUE
CONSTANT StatusRewrapBug = FALSE
INVARIANT InvMechanismIsPolicy
CHECK_DEADLOCK FALSE
