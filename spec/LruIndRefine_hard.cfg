SPECIFICATION Spec
CONSTANTS
  Block = 2
  KeySet = {"a", "b"}
  MaxBytes = 6
  HardBytes = 8
  DiskSizes = {0, 1, 4, 6, 7}
  ResvSizes = {0, 1, 2, 5, 6, 7}
  MaxElems = 3
  MaxQueue = 2
CONSTRAINT Bounded
VIEW View
INVARIANT IndInvHolds
PROPERTIES Refines RefusalsJustified
CHECK_DEADLOCK FALSE
