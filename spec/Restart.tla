------------------------------ MODULE Restart ------------------------------
(***************************************************************************)
(* Start-up on an existing directory (cache/disk/load.go): migrate old     *)
(* layouts, scan, sort by access time, add oldest first to the index       *)
(* (evicting from the back as needed), delete what the index refuses.      *)
(*                                                                         *)
(* C09: start-up succeeds on every population; afterwards every entry that *)
(* fits is present; when the directory exceeds max_size the surplus goes   *)
(* in order of oldest access time; the index order is the access-time      *)
(* order (so later evictions follow it); the accounting matches the        *)
(* directory.                                                              *)
(*                                                                         *)
(* A population is the sequence of files in access-time order (oldest      *)
(* first): [key, size in blocks].  The same key may occur twice (a file    *)
(* under an old layout plus one under the new, or an overwrite interrupted *)
(* before the old version was unlinked).                                   *)
(***************************************************************************)
EXTENDS Lru, Json, IOUtils, SequencesExt

CONSTANTS Keys, Sizes, MaxFiles, MaxMax,
          DedupFirst   \* TRUE: older duplicates of a key are dropped before the index is built

Files == [key : Keys, size : Sizes]
Pops == UNION {[1..n -> Files] : n \in 0..MaxFiles}

VARIABLES pop, max, i, lru, gone, phase
vars == <<pop, max, i, lru, gone, phase>>

\* indices that are the newest file of their key
Newest(p) == {x \in DOMAIN p : ~\E y \in DOMAIN p : y > x /\ p[y].key = p[x].key}

\* files that can fit at all, and among them the newest of each key
Fits(p, m) == {x \in DOMAIN p : Round(p[x].size) <= m}
Cand(p, m) == {x \in Fits(p, m) : ~\E y \in Fits(p, m) : y > x /\ p[y].key = p[x].key}

Init == /\ pop \in Pops /\ max \in 1..MaxMax
        /\ i = 1 /\ lru = NewLru(max, 0) /\ gone = {} /\ phase = "load"

Item(x) == [lsz |-> pop[x].size, dsz |-> pop[x].size, rnd |-> x, legacy |-> FALSE]

\* one iteration of the Add loop of loadExistingFiles
LoadAdd ==
  /\ phase = "load" /\ i <= Len(pop)
  /\ IF DedupFirst /\ i \in Fits(pop, max) /\ i \notin Cand(pop, max)
     THEN /\ gone' = gone \cup {i} /\ UNCHANGED lru       \* an older duplicate: unlinked, never indexed
     ELSE LET r == AddItem(lru, pop[i].key, Item(i)) IN
          /\ lru' = [r.L EXCEPT !.evq = <<>>]
          \* files leave the directory when the index refuses them (unlinked by the loader)
          \* or queues them (evicted / replaced; unlinked by the remover before start-up ends)
          /\ gone' = gone \cup (IF r.ok THEN {} ELSE {i}) \cup {r.L.evq[j].rnd : j \in DOMAIN r.L.evq}
  /\ i' = i + 1
  /\ UNCHANGED <<pop, max, phase>>

LoadDone == /\ phase = "load" /\ i > Len(pop) /\ phase' = "ready" /\ UNCHANGED <<pop, max, i, lru, gone>>

Next == LoadAdd \/ LoadDone
Spec == Init /\ [][Next]_vars

-----------------------------------------------------------------------------
\* Policy.  Candidates: for each key the newest file that can fit at all (a file
\* larger than max_size is removed and never replaces an older, smaller version).
\* Survivors: the longest suffix (most recently accessed end) of the candidates
\* whose total size is within max_size.

RECURSIVE SumIdx(_, _)
SumIdx(p, S) == IF S = {} THEN 0 ELSE LET x == CHOOSE x \in S : TRUE IN Round(p[x].size) + SumIdx(p, S \ {x})

Suffix(S, from) == {x \in S : x >= from}
Survivors(p, m) ==
  LET C == Cand(p, m)
      ok == {f \in C \cup {Len(p) + 1} : SumIdx(p, Suffix(C, f)) <= m}
      best == CHOOSE f \in ok : \A g \in ok : f <= g
  IN Suffix(C, best)

Indexed == {lru.elems[lru.ll[j]].rnd : j \in DOMAIN lru.ll}

\* C09: exactly the survivors are indexed after start-up
InvSurvivors == phase = "ready" => Indexed = Survivors(pop, max)
\* index order = access-time order, most recent first
InvOrder == phase = "ready" => \A a, b \in DOMAIN lru.ll : a < b => lru.elems[lru.ll[a]].rnd > lru.elems[lru.ll[b]].rnd
\* the directory holds exactly the indexed files, the accounting is exact
InvDirectory == phase = "ready" => (DOMAIN pop) \ gone = Indexed
InvAccounting == AccountingExact(lru) /\ LogicalExact(lru) /\ WithinMax(lru) /\ MapListConsistent(lru)

-----------------------------------------------------------------------------
\* case table: every population with max_size and the expected survivors
Row(p, m) == [files |-> p, max |-> m, survivors |-> SetToSeq(Survivors(p, m)), newest |-> SetToSeq(Newest(p))]
ASSUME "VERIF_CASES_OUT" \in DOMAIN IOEnv =>
         JsonSerialize(IOEnv.VERIF_CASES_OUT, SetToSeq({Row(p, m) : p \in UNION {[1..n -> Files] : n \in 0..3}, m \in 1..MaxMax}))
=============================================================================
