SPECIFICATION Spec
CONSTANTS
  MaxN = 8
  MaxK = 3
  LastTest = "remaining"
INVARIANT InvExactRange
CHECK_DEADLOCK FALSE
