SPECIFICATION Spec
CONSTANTS
  MaxN = 8
  MaxK = 3
  LastTest = "index"
INVARIANT InvExactRange
CHECK_DEADLOCK FALSE
