SPECIFICATION Spec
CONSTANTS
  Mangle = FALSE
  Validate = FALSE
  MaxOps = 3
INVARIANTS InvIsolation PrintFinal
CHECK_DEADLOCK FALSE
