-------------------------------- MODULE Lru --------------------------------
(***************************************************************************)
(* The size-bounded LRU index of bazel-remote (cache/disk/lru.go) as pure  *)
(* operators over a record L.  One operator per method of SizedLRU; every  *)
(* branch of the Go code has a counterpart here, including the branches    *)
(* that are only reachable once the accounting is already wrong (they are  *)
(* what makes a broken implementation's trace diverge visibly).            *)
(*                                                                         *)
(*   L.ll     sequence of element ids, front (index 1) = most recently used*)
(*   L.elems  element id |-> entry [key, lsz, dsz, rnd, legacy]; elements  *)
(*            keep their identity after removal (a stale *list.Element is  *)
(*            still dereferenceable) and Add overwrites a value in place   *)
(*   L.cmap   key |-> element id, domain = the keys present (SizedLRU.cache)*)
(*   L.cur    currentSize  (entries rounded to blocks + reservations)      *)
(*   L.resv   reservedSize                                                 *)
(*   L.unc    uncompressedSize (logical sizes rounded to blocks)           *)
(*   L.evq    entries queued for unlinking, oldest first                   *)
(*   L.vict   element ids removed by the current operation, in order       *)
(*   L.max, L.hl   maxSize, maxSizeHardLimit (<= 0: unset)                 *)
(*   L.hang   the eviction loop of Add would spin forever (list empty)     *)
(***************************************************************************)
EXTENDS Integers, Sequences, FiniteSets, TLC

CONSTANT Block   \* BlockSize: 4096 in the code and in traces, small in models

Round(n) == ((n + Block - 1) \div Block) * Block

NewLru(max, hl) ==
  [ll |-> <<>>, elems |-> <<>>, cmap |-> <<>>, cur |-> 0, resv |-> 0, unc |-> 0,
   evq |-> <<>>, vict |-> <<>>, max |-> max, hl |-> hl, hang |-> FALSE]

Range(s) == {s[i] : i \in DOMAIN s}

MkEntry(k, item) == [key |-> k, lsz |-> item.lsz, dsz |-> item.dsz,
                     rnd |-> item.rnd, legacy |-> item.legacy]

\* list.MoveToFront: no-op for an element that is not in the list
MoveFront(ll, e) == IF e \in Range(ll)
                    THEN <<e>> \o SelectSeq(ll, LAMBDA x : x # e)
                    ELSE ll

Back(L) == L.ll[Len(L.ll)]

\* removeElement(e), lru.go: list.Remove is a no-op when e is no longer in the
\* list; map deletion *by key*, size subtraction and queueing are unconditional
\* and read the element's current value.
RemoveElem(L, e) ==
  LET ent == L.elems[e] IN
  [L EXCEPT !.ll   = SelectSeq(@, LAMBDA x : x # e),
            !.cmap = [k \in (DOMAIN @) \ {ent.key} |-> @[k]],
            !.cur  = @ - Round(ent.dsz),
            !.unc  = @ - Round(ent.lsz),
            !.evq  = Append(@, ent),
            !.vict = Append(@, e)]

\* the loop at the end of Add: `for c.currentSize+sizeDelta > c.maxSize`
RECURSIVE EvictAdd(_, _)
EvictAdd(L, need) ==
  IF L.cur + need > L.max
  THEN IF Len(L.ll) = 0 THEN [L EXCEPT !.hang = TRUE]
       ELSE EvictAdd(RemoveElem(L, Back(L)), need)
  ELSE L

\* Add(key, value)
AddItem(L0, k, item) ==
  LET L  == [L0 EXCEPT !.vict = <<>>]
      rd == Round(item.dsz)
  IN
  IF rd > L.max THEN [L |-> L, ok |-> FALSE, new |-> FALSE]
  ELSE IF k \in DOMAIN L.cmap THEN
    LET e   == L.cmap[k]
        old == L.elems[e]
        d   == rd - Round(old.dsz)
        du  == Round(item.lsz) - Round(old.lsz)
    IN IF L.resv + d > L.max THEN [L |-> L, ok |-> FALSE, new |-> FALSE]
       ELSE LET L1 == [L EXCEPT !.ll = MoveFront(@, e),
                                !.evq = Append(@, old),
                                !.elems[e] = MkEntry(k, item)]
                L2 == EvictAdd(L1, d)
            IN [L |-> [L2 EXCEPT !.cur = @ + d, !.unc = @ + du], ok |-> TRUE, new |-> FALSE]
  ELSE
    IF L.resv + rd > L.max THEN [L |-> L, ok |-> FALSE, new |-> FALSE]
    ELSE LET e  == Len(L.elems) + 1
             L1 == [L EXCEPT !.elems = Append(@, MkEntry(k, item)),
                             !.ll = <<e>> \o @,
                             !.cmap = (k :> e) @@ @]
             L2 == EvictAdd(L1, rd)
         IN [L |-> [L2 EXCEPT !.cur = @ + rd, !.unc = @ + Round(item.lsz)], ok |-> TRUE, new |-> TRUE]

\* Get(key): a hit moves the element to the front
GetItem(L0, k) ==
  LET L == [L0 EXCEPT !.vict = <<>>] IN
  IF k \in DOMAIN L.cmap
  THEN [L |-> [L EXCEPT !.ll = MoveFront(@, L.cmap[k])], hit |-> TRUE, e |-> L.cmap[k]]
  ELSE [L |-> L, hit |-> FALSE, e |-> 0]

\* sumLargerThan(a, b, c), including its overflow branch
SumLarger(a, b, c) == (a + b > c) \/ (a + b <= 0)

RECURSIVE EvictResv(_, _)
EvictResv(L, size) ==
  IF SumLarger(size, L.cur, L.max)
  THEN IF Len(L.ll) = 0 THEN [L |-> L, ok |-> FALSE]
       ELSE EvictResv(RemoveElem(L, Back(L)), size)
  ELSE [L |-> L, ok |-> TRUE]

\* Does Reserve get as far as computing the total disk size?
ReserveReachesTotal(L, size) ==
  size > 0 /\ size <= L.max /\ ~SumLarger(size, L.resv, L.max)

\* Reserve(size); evqRead is the value of queuedEvictionsSize it reads.
\* code: 0 ok, 400, 507, 500 as in the cache.Error codes.
Reserve(L0, size, evqRead) ==
  LET L == [L0 EXCEPT !.vict = <<>>] IN
  IF size = 0 THEN [L |-> L, code |-> 0]
  ELSE IF size < 0 THEN [L |-> L, code |-> 400]
  ELSE IF size > L.max THEN [L |-> L, code |-> 400]
  ELSE IF SumLarger(size, L.resv, L.max) THEN [L |-> L, code |-> 507]
  ELSE IF L.hl > 0 /\ L.cur + evqRead + size > L.hl THEN [L |-> L, code |-> 507]
  ELSE LET r == EvictResv(L, size) IN
       IF ~r.ok THEN [L |-> r.L, code |-> 500]
       ELSE [L |-> [r.L EXCEPT !.cur = @ + size, !.resv = @ + size], code |-> 0]

\* Unreserve(size)
Unreserve(L0, size) ==
  LET L == [L0 EXCEPT !.vict = <<>>] IN
  IF size = 0 THEN [L |-> L, ok |-> TRUE]
  ELSE IF size < 0 THEN [L |-> L, ok |-> FALSE]
  ELSE IF L.cur - size < 0 \/ L.resv - size < 0 THEN [L |-> L, ok |-> FALSE]
  ELSE [L |-> [L EXCEPT !.cur = @ - size, !.resv = @ - size], ok |-> TRUE]

\* RemoveElement(elem) / RemoveKey(key)
RemoveElement(L0, e) == RemoveElem([L0 EXCEPT !.vict = <<>>], e)
RemoveKey(L0, k) ==
  LET L == [L0 EXCEPT !.vict = <<>>] IN
  IF k \in DOMAIN L.cmap THEN RemoveElem(L, L.cmap[k]) ELSE L

-----------------------------------------------------------------------------
\* Properties of an index value

RECURSIVE SumDszI(_, _, _), SumLszI(_, _, _)
SumDszI(L, s, i) == IF i = 0 THEN 0 ELSE Round(L.elems[s[i]].dsz) + SumDszI(L, s, i - 1)
SumLszI(L, s, i) == IF i = 0 THEN 0 ELSE Round(L.elems[s[i]].lsz) + SumLszI(L, s, i - 1)
SumDsz(L, s) == SumDszI(L, s, Len(s))
SumLsz(L, s) == SumLszI(L, s, Len(s))

\* C03: accounted size = entries (rounded) + reservations
AccountingExact(L) == L.cur = L.resv + SumDsz(L, L.ll)
LogicalExact(L)    == L.unc = SumLsz(L, L.ll)
WithinMax(L)       == L.cur <= L.max /\ L.resv >= 0 /\ L.resv <= L.cur
CountExact(L)      == Cardinality(DOMAIN L.cmap) = Len(L.ll)

\* the map and the list describe the same set of elements
MapListConsistent(L) ==
  /\ {L.cmap[k] : k \in DOMAIN L.cmap} = Range(L.ll)        \* same set of elements
  /\ \A k \in DOMAIN L.cmap : L.elems[L.cmap[k]].key = k    \* each indexed under its own key
  /\ Cardinality(Range(L.ll)) = Len(L.ll)                   \* no element twice in the list

KeysInOrder(L) == [i \in DOMAIN L.ll |-> L.elems[L.ll[i]].key]
=============================================================================
