---------------------------- MODULE ActionCache ----------------------------
(***************************************************************************)
(* The action cache: which stored ActionResults are served (C06) and which *)
(* uploads are stored, how they are normalised, and what a later hit       *)
(* returns (C11).                                                          *)
(*                                                                         *)
(* Part 1 (C06): an ActionResult is a bag of references to CAS blobs, each *)
(* of a category (how the message refers to the blob) and in a state (where*)
(* the blob is right now).  Policy: hit iff every reference that is not    *)
(* carried inline is present with the stated size, locally or in the       *)
(* backend.  Mechanism: the traversal of GetValidatedActionResult          *)
(* (cache/disk/disk.go) followed by the fail-fast FindMissing of           *)
(* FindMissing.tla.                                                        *)
(*                                                                         *)
(* Part 2 (C11): histories of uploads to one action key through the four   *)
(* encodings, each message valid or invalid in one specific way.           *)
(* Policy: an upload is accepted iff the message is valid; a rejected      *)
(* upload changes nothing; a later hit returns the latest accepted upload. *)
(***************************************************************************)
EXTENDS Integers, Sequences, FiniteSets, TLC, Json, IOUtils, SequencesExt, FiniteSetsExt

CONSTANT WithBackend

-----------------------------------------------------------------------------
\* Part 1: dependency shapes

Cats == {"fileNoInline", "fileInline", "treeBlob", "treeRootFile", "treeChildFile", "stdoutDigest", "stderrDigest"}
States == {"present", "absent", "otherSize", "backendOnly", "backendOversize", "emptyBlob"}

\* is a reference in this state satisfied?
Satisfied(s) == s \in {"present", "emptyBlob"} \/ (WithBackend /\ s = "backendOnly")

\* categories whose blob must exist for a hit (inline contents travel in the message)
Required(c) == c # "fileInline"

Refs == [cat : Cats, state : States]

\* a shape: up to 3 references; tree files only make sense with a tree blob that can be read
Shapes == UNION {kSubset(k, Refs) : k \in 0..3}

TreeReadable(S) == \A r \in S : r.cat = "treeBlob" => r.state \in {"present"} \/ (WithBackend /\ r.state = "backendOnly")
HasTree(S) == \E r \in S : r.cat = "treeBlob"

WellFormedShape(S) ==
  /\ Cardinality({r \in S : r.cat = "treeBlob"}) <= 1
  /\ Cardinality({r \in S : r.cat = "stdoutDigest"}) <= 1
  /\ Cardinality({r \in S : r.cat = "stderrDigest"}) <= 1
  \* files of a tree need the tree
  /\ (\E r \in S : r.cat \in {"treeRootFile", "treeChildFile"}) => HasTree(S)
  \* the empty blob cannot be a Tree message, and an inline file has no state of interest
  /\ \A r \in S : r.cat = "treeBlob" => r.state # "emptyBlob"
  /\ \A r \in S : r.cat = "fileInline" => r.state = "absent"

PolicyHit(S) == \A r \in S : Required(r.cat) => Satisfied(r.state)

\* Mechanism: the traversal order of GetValidatedActionResult.
\*  1. every output directory's Tree blob is fetched with Get (size checked);
\*     not found -> miss, before anything else is looked at
\*  2. files of the Tree's root and children, output files without inline
\*     contents, stdout and stderr digests go to the fail-fast FindMissing
MechHit(S) ==
  /\ \A r \in S : r.cat = "treeBlob" => Satisfied(r.state)
  /\ \A r \in S : r.cat \in {"fileNoInline", "treeRootFile", "treeChildFile", "stdoutDigest", "stderrDigest"}
                    => Satisfied(r.state)

-----------------------------------------------------------------------------
\* Part 2: uploads

Encodings == {"grpc", "httpProto", "httpJson", "httpZstd"}

ValidMsgs == {"plain", "withWorker", "inlineStdout", "inlineFile", "withTree", "withSymlinks", "emptyDirPath"}
InvalidMsgs == {"fileEmptyPath", "fileAbsPath", "fileNilDigest", "fileNegSize", "fileBadHash",
                "dirAbsPath", "dirNilTree", "dirBadHash", "symEmptyPath", "symEmptyTarget", "symAbsPath",
                "stdoutBadHash", "stderrNegSize", "inlineFileWrongDigest", "inlineStdoutWrongDigest",
                "notAnActionResult"}
Msgs == ValidMsgs \cup InvalidMsgs

\* garbage bytes can only be expressed over HTTP (an empty body is the empty, valid message); a wrong digest next to
\* inline contents is only checked where the server de-inlines (gRPC)
Expressible(e, m) ==
  /\ m = "notAnActionResult" => e # "grpc"
  /\ m \in {"inlineFileWrongDigest", "inlineStdoutWrongDigest"} => e = "grpc"

Valid(m) == m \in ValidMsgs

Uploads == {u \in [enc : Encodings, msg : Msgs] : Expressible(u.enc, u.msg)}

HasInline(m) == m \in {"inlineStdout", "inlineFile"}

VARIABLES hist,    \* sequence of uploads to one key
          stored,  \* index into hist of the upload whose message is stored, or 0
          cas,     \* the inline contents of the stored message are (also) a blob in the CAS
          served   \* how the last read returned those contents: "none" | "inline" | "digestOnly"
avars == <<hist, stored, cas, served>>

CONSTANT TrustUpload   \* FALSE in the code.  TRUE: a read that drops inline contents which come with a digest does
                       \* not look in the CAS ("the upload has verified and copied them") - refuted below

MaxHist == 2
Fronts == {"grpc", "http"}

AInit == hist = <<>> /\ stored = 0 /\ cas = FALSE /\ served = "none"
AUpload(u) ==
  /\ Len(hist) < MaxHist
  /\ hist' = Append(hist, u)
  \* Mechanism: every front end validates before it stores; gRPC stores the
  \* message before it de-inlines and verifies inline contents (checked: see InvStoredValid);
  \* only the gRPC front end copies inline contents to the CAS at upload time
  /\ stored' = IF Valid(u.msg) THEN Len(hist) + 1 ELSE stored
  /\ cas' = IF Valid(u.msg) THEN (u.enc = "grpc" /\ HasInline(u.msg)) ELSE cas
  /\ served' = "none"

\* a hit on a message with inline contents: HTTP returns the stored message as it is; gRPC returns the contents
\* inline when the request asks for them (and the budget allows), otherwise it replaces them by their digest -
\* after making sure the CAS holds them (Contains, else Put)
ARead(front, wantInline) ==
  /\ stored # 0 /\ HasInline(hist[stored].msg)
  /\ IF front = "grpc" /\ ~wantInline
     THEN /\ served' = "digestOnly"
          /\ cas' = IF TrustUpload THEN cas ELSE TRUE
     ELSE /\ served' = "inline" /\ UNCHANGED cas
  /\ UNCHANGED <<hist, stored>>

\* the CAS copy is an entry like any other: it can be evicted at any time
AEvictCas == /\ cas /\ cas' = FALSE /\ served' = "none" /\ UNCHANGED <<hist, stored>>

ANext == \/ \E u \in Uploads : AUpload(u)
         \/ \E f \in Fronts, w \in BOOLEAN : ARead(f, w)
         \/ AEvictCas
ASpec == AInit /\ [][ANext]_avars

\* whatever is stored under an action key always validates; the latest accepted upload wins
InvStoredValid == stored # 0 => Valid(hist[stored].msg)
InvLatestWins == \A i \in 1..Len(hist) : Valid(hist[i].msg) => stored >= i
\* C11: de-inlined bytes are in the CAS under their true digest when the reply that refers to them is sent
DeinlinedInCas == [][served' = "digestOnly" => cas']_avars

ExpectedOutcomes(h) == [i \in 1..Len(h) |-> IF Valid(h[i].msg) THEN "accept" ELSE "reject"]
ExpectedStored(h) == LET ok == {i \in 1..Len(h) : Valid(h[i].msg)} IN
                     IF ok = {} THEN 0 ELSE CHOOSE i \in ok : \A j \in ok : j <= i

-----------------------------------------------------------------------------
\* design-level checks over the whole finite spaces, and the case tables
ASSUME \A S \in Shapes : WellFormedShape(S) => (MechHit(S) = PolicyHit(S))

ShapeRow(S) == [refs |-> SetToSeq(S), hit |-> PolicyHit(S)]

AllHists == UNION {[1..n -> Uploads] : n \in 1..MaxHist}
HistRow(h) == [uploads |-> h, outcomes |-> ExpectedOutcomes(h), stored |-> ExpectedStored(h)]

ASSUME "VERIF_CASES_OUT" \in DOMAIN IOEnv =>
         JsonSerialize(IOEnv.VERIF_CASES_OUT,
           [shapes |-> SetToSeq({ShapeRow(S) : S \in {T \in Shapes : WellFormedShape(T)}}),
            hists  |-> SetToSeq({HistRow(h) : h \in AllHists})])
=============================================================================
