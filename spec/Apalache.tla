--------------------------- MODULE Apalache -----------------------------------
(*
 * This is a standard module for use with the Apalache model checker.
 * The meaning of the operators is explained in the comments.
 * Many of the operators serve as additional annotations of their arguments.
 * As we like to preserve compatibility with TLC and TLAPS, we define the
 * operator bodies by erasure. The actual interpretation of the operators is
 * encoded inside Apalache. For the moment, these operators are mirrored in
 * the class at.forsyte.apalache.tla.lir.oper.ApalacheOper.
 *                                                                          
 * Igor Konnov, Jure Kukovec, Informal Systems 2020-2022
 * Igor Konnov, konnov.phd, 2026
 *)

(**
 * An assignment of an expression e to a state variable x. Typically, one
 * uses the non-primed version of x in the initializing predicate Init and
 * the primed version of x (that is, x') in the transition predicate Next.
 * Although TLA+ does not have a concept of a variable assignment, we find
 * this concept extremely useful for symbolic model checking. In pure TLA+,
 * one would simply write x = e, or x \in {e}.
 *
 * Apalache automatically converts some expressions of the form
 * x = e or x \in {e} into assignments. However, if you like to annotate
 * assignments by hand, you can use this operator.
 *
 * For a further discussion on that matter, see:
 * https://github.com/apalache-mc/apalache/blob/main/docs/src/idiomatic/001assignments.md
 *)
__x := __e == __x = __e

(**
 * A generator of a data structure. Given a positive integer `bound`, and
 * assuming that the type of the operator application is known, we
 * recursively generate a TLA+ data structure as a tree, whose width is
 * bound by the number `bound`.
 *
 * The body of this operator is redefined by Apalache.
 *)
Gen(__size) == {}

(**
 * Non-deterministically pick a value out of the set `S`, if `S` is non-empty.
 * If `S` is empty, return some value of the proper type.  This can be
 * understood as a non-deterministic version of CHOOSE x \in S: TRUE.
 *
 * @type: Set(a) => a;
 *)
Guess(__S) ==
    \* Since this is not supported by TLC,
    \* we fall back to the deterministic version for TLC.
    \* Apalache redefines the operator `Guess` as explained above.
    CHOOSE __x \in __S: TRUE

(**
 * Convert a set of pairs S to a function F. Note that if S contains at least
 * two pairs <<x, y>> and <<u, v>> such that x = u and y /= v,
 * then F is not uniquely defined. We use CHOOSE to resolve this ambiguity.
 * Apalache implements a more efficient encoding of this operator
 * than the default one.
 *
 * @type: Set(<<a, b>>) => (a -> b);
 *)
SetAsFun(__S) ==
    LET __Dom == { __x: <<__x, __y>> \in __S }
        __Rng == { __y: <<__x, __y>> \in __S }
    IN
    [ __x \in __Dom |-> CHOOSE __y \in __Rng: <<__x, __y>> \in __S ]

(**
 * A sequence constructor that avoids using a function constructor.
 * Since Apalache is typed, this operator is more efficient than
 * FunAsSeq([ i \in 1..N |-> F(i) ]). Apalache requires N to be
 * a constant expression.
 *
 * @type: (Int, (Int -> a)) => Seq(a);
 *)
LOCAL INSTANCE Integers
MkSeq(__N, __F(_)) ==
    \* This is the TLC implementation. Apalache does it differently.
    \* If __F is not defined on i \in 1..__N, TLC fails.
    \* Apalache evaluates symbolically. This is why definitions
    \* like `FunAsSeq` work.
    [ __i \in (1..__N) |-> __F(__i) ]

\* required by our default definition of FoldSeq and FunAsSeq
LOCAL INSTANCE Sequences

(**
 * As TLA+ is untyped, one can use function- and sequence-specific operators
 * interchangeably. However, to maintain correctness w.r.t. our type-system,
 * an explicit cast is needed when using functions as sequences.
 * FunAsSeq reinterprets a function over integers as a sequence.
 *
 * The parameters have the following meaning:
 *
 *  - fn is the function from 1..len that should be interpreted as a sequence.
 *  - len is the length of the sequence, len = Cardinality(DOMAIN fn),
 *    len may be a variable, a computable expression, etc.
 *  - capacity is a static upper bound on the length, that is, len <= capacity.
 *
 * @type: ((Int -> a), Int, Int) => Seq(a);
 *)
FunAsSeq(__fn, __len, __capacity) ==
    LET __FunAsSeq_elem_ctor(__i) == __fn[__i] IN
    SubSeq(MkSeq(__capacity, __FunAsSeq_elem_ctor), 1, __len)

(**
 * Annotating an expression \E x \in S: P as Skolemizable. That is, it can
 * be replaced with an expression c \in S /\ P(c) for a fresh constant c.
 * Not every exisential can be replaced with a constant, this should be done
 * with care. Apalache detects Skolemizable expressions by static analysis.
 *)
Skolem(__e) == __e

(**
 * A hint to the model checker to expand a set S, instead of dealing
 * with it symbolically. Apalache finds out which sets have to be expanded
 * by static analysis.
 *)
Expand(__S) == __S

(**
 * A hint to the model checker to replace its argument Cardinality(S) >= k
 * with a series of existential quantifiers for a constant k.
 * Similar to Skolem, this has to be done carefully. Apalache automatically
 * places this hint by static analysis.
 *)
ConstCardinality(__cardExpr) == __cardExpr

(**
 * The folding operator, used to implement computation over a set.
 * Apalache implements a more efficient encoding than the one below.
 * (from the community modules).
 *
 * @type: ((a, b) => a, a, Set(b)) => a;
 *)
RECURSIVE ApaFoldSet(_, _, _)
ApaFoldSet(__Op(_,_), __v, __S) ==
    IF __S = {}
    THEN __v
    ELSE LET __w == CHOOSE __x \in __S: TRUE IN
         LET __T == __S \ {__w} IN
         ApaFoldSet(__Op, __Op(__v,__w), __T)

(**
 * The folding operator, used to implement computation over a sequence.
 * Apalache implements a more efficient encoding than the one below.
 * (from the community modules).
 *
 * @type: ((a, b) => a, a, Seq(b)) => a;
 *)
RECURSIVE ApaFoldSeqLeft(_, _, _)
ApaFoldSeqLeft(__Op(_,_), __v, __seq) ==
    IF __seq = <<>>
    THEN __v
    ELSE ApaFoldSeqLeft(__Op, __Op(__v, Head(__seq)), Tail(__seq))

(**
 * The repetition operator, used to consecutively apply an operator, starting from
 * an initial value.
 *
 * @type: ((a, Int) => a, Int, a) => a;
 *)
RECURSIVE Repeat(_,_,_)
Repeat(__F(_,_), __N, __x) ==
        \* This is the TLC implementation. Apalache does it differently.
        IF __N <= 0
        THEN __x
        ELSE __F(Repeat(__F, __N - 1, __x), __N)

===============================================================================
