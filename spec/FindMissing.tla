---------------------------- MODULE FindMissing ----------------------------
(***************************************************************************)
(* FindMissingCasBlobs (cache/disk/findmissing.go): batched local lookups  *)
(* under the index lock, hand-off of local misses to a pool of backend     *)
(* workers that clear the request slot through a pointer, optional         *)
(* fail-fast cancellation (used by the ActionResult dependency check,      *)
(* C06), and the final compaction.                                         *)
(*                                                                         *)
(* A request is a sequence of digests, each in one of the classes below.   *)
(* C10: the answer is exactly the subsequence (order and duplicates kept)  *)
(* of digests that are neither held locally with the stated size nor       *)
(* reported by the backend - for every list, batch size and interleaving   *)
(* of the workers.                                                         *)
(***************************************************************************)
EXTENDS Integers, Sequences, FiniteSets, TLC, Json, IOUtils, SequencesExt

CONSTANTS MaxLen,      \* longest request explored
          BatchSize,   \* 20 in the code
          Workers,     \* set of backend workers
          WithBackend, \* is a proxy backend configured
          FailFast,    \* TRUE: the dependency-check variant (C06)
          Recheck,     \* TRUE: the fail-fast flag is re-checked after the wait group drained
          QueueCap,    \* capacity of containsQueue (2048 in the code, with 512 workers)
          SkipWhenFull \* FALSE in the code: a send on a full queue blocks.  TRUE is the tempting
                       \* "do not stall the request, leave the digest in the missing list" (refuted)

\* "...OtherSize": the hash of a blob that is held (locally / by the backend), asked for under another size.
\* Digests are told apart by position only - as in the code, which works through pointers into the
\* request slice -, so the same hash may occur in one request under its right and under a wrong size
\* (in either order) and each occurrence is answered on its own; the harness builds such requests.
Classes == {"local", "localOtherSize", "backendOnly", "backendOtherSize", "backendOversize", "absent", "empty"}

\* what the property says about a class
PolicyMissing(c) == IF WithBackend THEN c \in {"localOtherSize", "backendOtherSize", "backendOversize", "absent"}
                    ELSE c \in {"localOtherSize", "backendOnly", "backendOtherSize", "backendOversize", "absent"}

LocalHit(c)   == c \in {"local", "empty"}      \* findMissingLocalCAS clears the slot
BackendHit(c) == c = "backendOnly"             \* proxy.Contains answers true with the right size
Oversize(c)   == c = "backendOversize"         \* SizeBytes > max_proxy_blob_size: never asked

AllRequests == UNION {[1..n -> Classes] : n \in 0..MaxLen}

VARIABLES req,       \* the request
          slot,      \* slot[i] = TRUE while digest i is still reported missing (non-nil pointer)
          pc,        \* "batch" | "enqueue" | "wait" | "done"
          lo,        \* first index of the current batch
          at,        \* next index to hand to the workers within the batch
          queue,     \* indices handed to the workers (containsQueue)
          busy,      \* worker |-> index it is checking, or 0
          pending,   \* wait-group counter
          cancelled, \* fail-fast cancellation has fired
          result     \* "none" | <<"missing", seq of indices>> | "errMissing" | "ok"

vars == <<req, slot, pc, lo, at, queue, busy, pending, cancelled, result>>

Hi == IF lo + BatchSize - 1 < Len(req) THEN lo + BatchSize - 1 ELSE Len(req)

Init == /\ req \in AllRequests
        /\ slot = [i \in 1..Len(req) |-> TRUE]
        /\ pc = "batch" /\ lo = 1 /\ at = 1 /\ queue = <<>>
        /\ busy = [w \in Workers |-> 0] /\ pending = 0 /\ cancelled = FALSE /\ result = "none"

Finish(r) == /\ result' = r /\ pc' = "done"

Compact == SelectSeq([i \in 1..Len(req) |-> i], LAMBDA i : slot[i])

\* one lock region: clear the slots of the batch that are held locally
Batch ==
  /\ pc = "batch"
  /\ IF lo > Len(req)
     THEN /\ pc' = "wait" /\ UNCHANGED <<slot, lo, at, result>>
     ELSE IF cancelled
     THEN /\ Finish("errMissing") /\ UNCHANGED <<slot, lo, at>>
     ELSE LET s2 == [i \in 1..Len(req) |-> IF i >= lo /\ i <= Hi /\ LocalHit(req[i]) THEN FALSE ELSE slot[i]]
              miss == \E i \in lo..Hi : s2[i]
          IN /\ slot' = s2
             /\ IF ~miss THEN /\ lo' = Hi + 1 /\ at' = Hi + 1 /\ UNCHANGED <<pc, result>>
                ELSE IF ~WithBackend /\ FailFast THEN Finish("errMissing") /\ UNCHANGED <<lo, at>>
                ELSE IF ~WithBackend THEN /\ lo' = Hi + 1 /\ at' = Hi + 1 /\ UNCHANGED <<pc, result>>
                ELSE /\ pc' = "enqueue" /\ at' = lo /\ UNCHANGED <<lo, result>>
  /\ UNCHANGED <<req, queue, busy, pending, cancelled>>

\* hand the local misses of the batch to the workers, one send per step
Enqueue ==
  /\ pc = "enqueue"
  /\ IF at > Hi
     THEN /\ pc' = "batch" /\ lo' = Hi + 1 /\ UNCHANGED <<at, queue, pending, result>>
     ELSE IF ~slot[at] THEN /\ at' = at + 1 /\ UNCHANGED <<pc, lo, queue, pending, result>>
     ELSE IF Oversize(req[at])
          THEN IF FailFast THEN Finish("errMissing") /\ UNCHANGED <<lo, at, queue, pending>>
               ELSE /\ at' = at + 1 /\ UNCHANGED <<pc, lo, queue, pending, result>>
     ELSE IF cancelled THEN Finish("errMissing") /\ UNCHANGED <<lo, at, queue, pending>>
     ELSE IF Len(queue) >= QueueCap
          THEN \* the channel is full: the send blocks until a worker takes something
               /\ SkipWhenFull /\ ~FailFast
               /\ at' = at + 1 /\ UNCHANGED <<pc, lo, queue, pending, result>>
     ELSE /\ queue' = Append(queue, at) /\ pending' = pending + 1 /\ at' = at + 1
          /\ UNCHANGED <<pc, lo, result>>
  /\ UNCHANGED <<req, slot, busy, cancelled>>

\* a worker takes a request ...
Take(w) ==
  /\ busy[w] = 0 /\ queue # <<>>
  /\ busy' = [busy EXCEPT ![w] = Head(queue)] /\ queue' = Tail(queue)
  /\ UNCHANGED <<req, slot, pc, lo, at, pending, cancelled, result>>

\* ... and answers it: clears the slot through the pointer on a backend hit,
\* fires the fail-fast cancellation on a miss
Answer(w) ==
  /\ busy[w] # 0
  /\ LET i == busy[w] IN
     IF cancelled THEN UNCHANGED <<slot, cancelled>>
     ELSE IF BackendHit(req[i]) THEN /\ slot' = [slot EXCEPT ![i] = FALSE] /\ UNCHANGED cancelled
     ELSE /\ cancelled' = FailFast /\ UNCHANGED slot
  /\ busy' = [busy EXCEPT ![w] = 0] /\ pending' = pending - 1
  /\ UNCHANGED <<req, pc, lo, at, queue, result>>

\* wait for the wait group (or the cancellation), then compact
Wait ==
  /\ pc = "wait"
  /\ \/ /\ cancelled /\ Finish("errMissing")
     \* both channels of the final select can be ready; Go then picks at random.
     \* Since "fix: a fail-fast miss must win over the completed wait group" the
     \* flag is re-checked after the wait group has drained (Recheck = TRUE);
     \* Recheck = FALSE is the earlier code, which TLC refutes (InvFailFast).
     \/ /\ pending = 0
        /\ IF FailFast THEN (IF Recheck /\ cancelled THEN Finish("errMissing") ELSE Finish("ok"))
           ELSE Finish(<<"missing", Compact>>)
  /\ UNCHANGED <<req, slot, lo, at, queue, busy, pending, cancelled>>

Next == Batch \/ Enqueue \/ Wait \/ \E w \in Workers : Take(w) \/ Answer(w)

Spec == Init /\ [][Next]_vars /\ WF_vars(Next)

-----------------------------------------------------------------------------
Expected == SelectSeq([i \in 1..Len(req) |-> i], LAMBDA i : PolicyMissing(req[i]))

\* C10: exactly the absent digests, in request order, duplicates preserved
InvExact == (pc = "done" /\ ~FailFast) => result = <<"missing", Expected>>

\* C06 (fail-fast variant): "all present" is answered only if nothing is missing,
\* and a missing blob is never masked
InvFailFast == (pc = "done" /\ FailFast) => (result = "ok") = (Expected = <<>>)

\* the hand-off queue never holds more than its capacity
InvQueueBounded == Len(queue) <= QueueCap

\* the request terminates (no lost wake-up, and a full queue is always drained): checked as a liveness property
Terminates == <>(pc = "done")

-----------------------------------------------------------------------------
\* case table for the harness: all abstract request lists
ASSUME "VERIF_CASES_OUT" \in DOMAIN IOEnv =>
         JsonSerialize(IOEnv.VERIF_CASES_OUT,
                       SetToSeq({[classes |-> r, missing |-> SelectSeq([i \in 1..Len(r) |-> i], LAMBDA i : PolicyMissing(r[i]))] :
                                 r \in UNION {[1..n -> Classes] : n \in 0..3}}))
=============================================================================
