SPECIFICATION Spec
CONSTANTS
  SizeCheck = FALSE
  LoaderValidates = TRUE
INVARIANTS InvNoTornReadK InvAckedServedK InvServedCompleteK
CHECK_DEADLOCK FALSE
