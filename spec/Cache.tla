-------------------------------- MODULE Cache --------------------------------
(***************************************************************************)
(* bazel-remote's disk cache (cache/disk/disk.go, lru.go, load.go) as a    *)
(* set of request goroutines over a shared index and a cache directory.    *)
(*                                                                         *)
(* One action per lock region of diskCache.mu or per file-system step      *)
(* outside the lock, named after the code it abstracts.  The index         *)
(* operations are the operators of Lru.tla (the same operators the trace   *)
(* specification LruTrace.tla checks recorded executions against).         *)
(*                                                                         *)
(* Deliberate deviations of the code from an idealised reading of the      *)
(* properties are separate, named branches:                                *)
(*   TouchOnSizeMismatch  a lookup with the wrong size still refreshes     *)
(*                        recency                                          *)
(*   DropBroken           removing an unreadable entry is not an eviction  *)
(*   FetchUnknownSize     a backend fetch of unknown size reserves nothing *)
(*                                                                         *)
(* With WithBackend = TRUE a local miss goes on to the proxy backend       *)
(* (disk.go get, the part after availableOrTryProxy): reserve (in the      *)
(* lock region of the lookup when that missed, in one of its own after a   *)
(* hit that turned out unusable), ask the backend and create the file,     *)
(* copy, commit (Unreserve + Add), clean up.  An upload hands its file to  *)
(* the backend just before it commits.                                     *)
(***************************************************************************)
EXTENDS Lru

CONSTANTS
  Procs,       \* request goroutines
  Keys,        \* cache keys (one key space; kinds differ only in naming)
  Items,       \* set of [lsz, dsz]: logical and on-disk sizes an upload may have
  MaxSize,     \* max_size
  HardLimit,   \* max_size_hard_limit (0 = unset)
  MaxOps,      \* requests per goroutine
  CorruptInit, \* TRUE: start with one indexed entry whose file is unreadable
  StaleFix,    \* TRUE: a reader only drops the entry it looked up if it is still the indexed one
  WithCrash,   \* TRUE: the process may be killed and restarted (once)
  WithBackend, \* TRUE: misses are forwarded to a proxy backend
  CreateMayFail \* TRUE: the file system may refuse to create the upload's file (no such directory, no descriptors,
               \* no space): nothing appears, the request fails and gives its reservation back

None == 0

VARIABLES
  lru,      \* the index (Lru.tla record; lru.evq is the queue to the remover)
  evcur,    \* <<entry>> the remover has taken and not yet accounted, or <<>>
  evstage,  \* "idle" | "taken" | "unlinked"
  evqSize,  \* the atomic counter queuedEvictionsSize
  files,    \* file id |-> [key, state, cid, lsz, dsz]   (the cache directory)
  nextFid,  \* next file id (abstracts the random suffix)
  pc,       \* goroutine |-> program counter
  loc,      \* goroutine |-> locals
  ops,      \* goroutine |-> requests still to issue
  nextCid,  \* next content id (every upload attempt carries fresh content)
  acked,    \* key |-> content id of the latest acknowledged upload, or None
  live,     \* key |-> [gen, on]: on = latest acknowledged upload not evicted by space pressure
  clock,    \* logical time of the last use, per key (independent LRU oracle)
  now,      \* logical clock
  backend,  \* key |-> content id held by the backend, or None
  crashed   \* number of crashes so far

vars == <<lru, evcur, evstage, evqSize, files, nextFid, pc, loc, ops, nextCid, acked, live, clock, now, backend, crashed>>

\* typed placeholders (TLC compares values of one type only)
NoCap == [key |-> None, lsz |-> 0, dsz |-> 0, rnd |-> None, legacy |-> FALSE]
NoFd == [key |-> None, state |-> "none", cid |-> None, lsz |-> 0, dsz |-> 0]

NoLoc == [op |-> "none", key |-> None, item |-> [lsz |-> 0, dsz |-> 0], resv |-> 0, fid |-> None,
          e |-> None, cap |-> NoCap, fd |-> NoFd, res |-> "none", cid |-> None, gen0 |-> 0, live0 |-> FALSE,
          mism |-> FALSE, unresv |-> FALSE, rmtmp |-> FALSE, known |-> TRUE, rcid |-> None, rkey |-> None,
          bitem |-> [lsz |-> 0, dsz |-> 0], bcid |-> None]

\* what the backend holds for a key: None or [cid, item]
NoObj == [cid |-> None, item |-> [lsz |-> 0, dsz |-> 0]]

RoundedItems == {[lsz |-> i.lsz, dsz |-> i.dsz] : i \in Items}

FidEntry(k, item, fid) == [lsz |-> item.lsz, dsz |-> item.dsz, rnd |-> fid, legacy |-> FALSE]

-----------------------------------------------------------------------------
\* ghost bookkeeping applied to an index step: entries that left through the
\* eviction loops (lru.vict) were evicted by space pressure
Touch(k) == /\ clock' = [clock EXCEPT ![k] = now + 1] /\ now' = now + 1
NoTouch == UNCHANGED <<clock, now>>

EvictedKeys(Lold, Lnew) == {Lold.elems[Lnew.vict[i]].key : i \in DOMAIN Lnew.vict}

LiveAfterEvict(Lold, Lnew) ==
  [k \in Keys |-> IF k \in EvictedKeys(Lold, Lnew)
                  THEN [gen |-> live[k].gen + 1, on |-> FALSE] ELSE live[k]]

QueuedNow(Lold, Lnew) ==   \* bytes appended to the remover's queue by this step
  LET n == Len(Lnew.evq) - Len(Lold.evq)
      RECURSIVE S(_)
      S(i) == IF i > Len(Lnew.evq) THEN 0 ELSE Lnew.evq[i].dsz + S(i + 1)
  IN IF n <= 0 THEN 0 ELSE S(Len(Lold.evq) + 1)

-----------------------------------------------------------------------------
Init ==
  /\ evcur = <<>> /\ evstage = "idle" /\ evqSize = 0
  /\ pc = [p \in Procs |-> "idle"]
  /\ loc = [p \in Procs |-> NoLoc]
  /\ ops = [p \in Procs |-> MaxOps]
  /\ acked = [k \in Keys |-> None]
  /\ backend = [k \in Keys |-> NoObj]
  /\ crashed = 0
  /\ now = 1
  /\ IF CorruptInit
     THEN \E k \in Keys : \E it \in Items :
            /\ files = (1 :> [key |-> k, state |-> "corrupt", cid |-> 1, lsz |-> it.lsz, dsz |-> it.dsz])
            /\ lru = AddItem(NewLru(MaxSize, HardLimit), k, FidEntry(k, it, 1)).L
            /\ nextFid = 2 /\ nextCid = 2
            /\ live = [x \in Keys |-> [gen |-> 0, on |-> FALSE]]
            /\ clock = [x \in Keys |-> IF x = k THEN 1 ELSE 0]
     ELSE /\ files = <<>> /\ lru = NewLru(MaxSize, HardLimit) /\ nextFid = 1 /\ nextCid = 1
          /\ live = [x \in Keys |-> [gen |-> 0, on |-> FALSE]]
          /\ clock = [x \in Keys |-> 0]

-----------------------------------------------------------------------------
\* Request start: pick an operation
StartPut(p) ==
  /\ pc[p] = "idle" /\ ops[p] > 0
  /\ \E k \in Keys : \E it \in Items :
       /\ loc' = [loc EXCEPT ![p] = [NoLoc EXCEPT !.op = "put", !.key = k, !.item = it, !.cid = nextCid]]
       /\ nextCid' = nextCid + 1
  /\ pc' = [pc EXCEPT ![p] = "put_reserve"]
  /\ ops' = [ops EXCEPT ![p] = @ - 1]
  /\ UNCHANGED <<lru, evcur, evstage, evqSize, files, nextFid, acked, live, clock, now, backend, crashed>>

StartGet(p) ==
  /\ pc[p] = "idle" /\ ops[p] > 0
  /\ \E k \in Keys : \E known \in BOOLEAN : \E it \in Items :
       loc' = [loc EXCEPT ![p] = [NoLoc EXCEPT !.op = "get", !.key = k, !.known = known, !.item = it]]
  /\ pc' = [pc EXCEPT ![p] = "get_lookup"]
  /\ ops' = [ops EXCEPT ![p] = @ - 1]
  /\ UNCHANGED <<lru, evcur, evstage, evqSize, files, nextFid, nextCid, acked, live, clock, now, backend, crashed>>

StartContains(p) ==
  /\ pc[p] = "idle" /\ ops[p] > 0
  /\ \E k \in Keys :
       loc' = [loc EXCEPT ![p] = [NoLoc EXCEPT !.op = "contains", !.key = k]]
  /\ pc' = [pc EXCEPT ![p] = "contains_lookup"]
  /\ ops' = [ops EXCEPT ![p] = @ - 1]
  /\ UNCHANGED <<lru, evcur, evstage, evqSize, files, nextFid, nextCid, acked, live, clock, now, backend, crashed>>

Finish(p, res) ==
  /\ pc' = [pc EXCEPT ![p] = "idle"]
  /\ loc' = [loc EXCEPT ![p] = [NoLoc EXCEPT !.res = res, !.op = loc[p].op, !.key = loc[p].key,
                                            !.rcid = IF res = "hit" THEN loc[p].rcid ELSE None,
                                            !.rkey = IF res = "hit" THEN loc[p].rkey ELSE None]]

\* a lookup that found nothing usable: without a backend that is a miss; with one the request goes on
\* to the backend - reserving first if it knows the size (locked = the index lock is still held, so the
\* reservation happens in this very step)
ToBackend(p, L, locked, evq0) ==
  IF ~WithBackend THEN /\ lru' = L /\ Finish(p, "miss") /\ evqSize' = evq0 /\ UNCHANGED live
  ELSE IF ~loc[p].known
       THEN /\ lru' = L /\ pc' = [pc EXCEPT ![p] = "get_proxy"] /\ evqSize' = evq0 /\ UNCHANGED <<loc, live>>
       ELSE IF ~locked
            THEN /\ lru' = L /\ pc' = [pc EXCEPT ![p] = "get_prereserve"] /\ evqSize' = evq0 /\ UNCHANGED <<loc, live>>
            ELSE LET r == Reserve(L, loc[p].item.lsz, evq0) IN
                 /\ lru' = r.L
                 /\ evqSize' = evq0 + QueuedNow(L, r.L)
                 /\ live' = LiveAfterEvict(L, r.L)
                 /\ IF r.code = 0
                    THEN /\ pc' = [pc EXCEPT ![p] = "get_proxy"]
                         /\ loc' = [loc EXCEPT ![p].resv = loc[p].item.lsz, ![p].unresv = TRUE]
                    ELSE Finish(p, IF r.code = 507 THEN "refused507" ELSE "error")

FinishHit(p, cid, key) ==
  /\ pc' = [pc EXCEPT ![p] = "idle"]
  /\ loc' = [loc EXCEPT ![p] = [NoLoc EXCEPT !.res = "hit", !.op = loc[p].op, !.key = loc[p].key,
                                            !.rcid = cid, !.rkey = key]]

-----------------------------------------------------------------------------
\* Put (disk.go Put)

\* lock region 1: Reserve(size)
PutReserve(p) ==
  /\ pc[p] = "put_reserve"
  /\ LET r == Reserve(lru, loc[p].item.lsz, evqSize) IN
     /\ lru' = r.L
     /\ evqSize' = evqSize + QueuedNow(lru, r.L)
     /\ live' = LiveAfterEvict(lru, r.L)
     /\ IF r.code = 0
        THEN /\ pc' = [pc EXCEPT ![p] = "put_create"]
             /\ loc' = [loc EXCEPT ![p].resv = loc[p].item.lsz, ![p].unresv = TRUE]
        ELSE /\ pc' = [pc EXCEPT ![p] = "idle"]
             /\ loc' = [loc EXCEPT ![p] = [NoLoc EXCEPT !.res = IF r.code = 507 THEN "refused507" ELSE "error",
                                                        !.op = "put", !.key = loc[p].key]]
  /\ NoTouch
  /\ UNCHANGED <<evcur, evstage, files, nextFid, ops, nextCid, acked, backend, crashed>>

\* tfc.Create: the file appears under its final name (O_EXCL, random suffix)
PutCreate(p) ==
  /\ pc[p] = "put_create"
  /\ \/ /\ files' = (nextFid :> [key |-> loc[p].key, state |-> "created", cid |-> loc[p].cid,
                                 lsz |-> loc[p].item.lsz, dsz |-> 0]) @@ files
        /\ loc' = [loc EXCEPT ![p].fid = nextFid, ![p].rmtmp = TRUE]
        /\ nextFid' = nextFid + 1
        /\ pc' = [pc EXCEPT ![p] = "put_write"]
     \/ \* tfc.Create fails: there is no file to remove, but the reservation of lock region 1 is still held
        /\ CreateMayFail
        /\ loc' = [loc EXCEPT ![p].res = "error"]
        /\ pc' = [pc EXCEPT ![p] = "put_cleanup"]
        /\ UNCHANGED <<files, nextFid>>
  /\ UNCHANGED <<lru, evcur, evstage, evqSize, ops, nextCid, acked, live, clock, now, backend, crashed>>

\* writeAndCloseFile: all data written, verified, synced and closed - or a failure
\* (hash/size mismatch, reader error) that leaves a partial file behind
PutWrite(p) ==
  /\ pc[p] = "put_write"
  /\ \/ /\ files' = [files EXCEPT ![loc[p].fid].state = "complete", ![loc[p].fid].dsz = loc[p].item.dsz]
        /\ pc' = [pc EXCEPT ![p] = "put_commit"]
        /\ UNCHANGED loc
     \/ /\ files' = [files EXCEPT ![loc[p].fid].state = "partial"]
        /\ pc' = [pc EXCEPT ![p] = "put_cleanup"]
        /\ loc' = [loc EXCEPT ![p].res = "error"]
  /\ UNCHANGED <<lru, evcur, evstage, evqSize, nextFid, ops, nextCid, acked, live, clock, now, backend, crashed>>

\* lock region 2 (commit): Unreserve + Add
PutCommit(p) ==
  /\ pc[p] = "put_commit"
  /\ LET u == Unreserve(lru, loc[p].resv) IN
     IF ~u.ok
     THEN /\ lru' = u.L /\ pc' = [pc EXCEPT ![p] = "put_cleanup"]
          /\ loc' = [loc EXCEPT ![p].res = "error"]
          /\ UNCHANGED <<evqSize, live, acked>> /\ NoTouch
     ELSE LET a == AddItem(u.L, loc[p].key, FidEntry(loc[p].key, loc[p].item, loc[p].fid)) IN
          /\ lru' = a.L
          /\ evqSize' = evqSize + QueuedNow(u.L, a.L)
          /\ IF a.ok
             THEN /\ loc' = [loc EXCEPT ![p].resv = 0, ![p].unresv = FALSE, ![p].rmtmp = FALSE, ![p].res = "ok"]
                  /\ acked' = [acked EXCEPT ![loc[p].key] = loc[p].cid]
                  /\ live' = [LiveAfterEvict(u.L, a.L) EXCEPT ![loc[p].key] = [gen |-> @.gen + 1, on |-> TRUE]]
                  /\ Touch(loc[p].key)
             ELSE /\ loc' = [loc EXCEPT ![p].resv = 0, ![p].unresv = FALSE, ![p].res = "error"]
                  /\ live' = LiveAfterEvict(u.L, a.L)
                  /\ UNCHANGED acked /\ NoTouch
          /\ pc' = [pc EXCEPT ![p] = "put_cleanup"]
  /\ backend' = IF WithBackend THEN [backend EXCEPT ![loc[p].key] = [cid |-> loc[p].cid, item |-> loc[p].item]] ELSE backend
  /\ UNCHANGED <<evcur, evstage, files, nextFid, ops, nextCid, crashed>>

\* deferred cleanup, step 1 (no lock): remove the temp file if not committed
PutCleanup(p) ==
  /\ pc[p] \in {"put_cleanup", "get_cleanup"}
  /\ files' = IF loc[p].rmtmp THEN [f \in (DOMAIN files) \ {loc[p].fid} |-> files[f]] ELSE files
  /\ loc' = [loc EXCEPT ![p].rmtmp = FALSE]
  /\ pc' = [pc EXCEPT ![p] = "unreserve"]
  /\ UNCHANGED <<lru, evcur, evstage, evqSize, nextFid, ops, nextCid, acked, live, clock, now, backend, crashed>>

\* deferred cleanup, step 2 (lock region): Unreserve if still reserved
ReqUnreserve(p) ==
  /\ pc[p] = "unreserve"
  /\ IF loc[p].unresv
     THEN LET u == Unreserve(lru, loc[p].resv) IN
          /\ lru' = u.L
          /\ Finish(p, IF u.ok THEN loc[p].res ELSE "internal")
     ELSE /\ UNCHANGED lru /\ Finish(p, loc[p].res)
  /\ UNCHANGED <<evcur, evstage, evqSize, files, nextFid, ops, nextCid, acked, live, clock, now, backend, crashed>>

-----------------------------------------------------------------------------
\* Get (disk.go get / availableOrTryProxy)

SizeMismatch(p, ent) == loc[p].known /\ loc[p].item.lsz # ent.lsz

\* lock region: lru.Get - move to front, capture the element and a copy of its value
GetLookup(p) ==
  /\ pc[p] = "get_lookup"
  /\ LET r == GetItem(lru, loc[p].key)  k == loc[p].key IN
     IF r.hit
     THEN LET ent == r.L.elems[r.e] IN
          /\ Touch(k)    \* TouchOnSizeMismatch: recency is refreshed whatever the size
          /\ IF SizeMismatch(p, ent)
             THEN ToBackend(p, r.L, FALSE, evqSize)    \* the lock was released after the lookup
             ELSE /\ lru' = r.L
                  /\ pc' = [pc EXCEPT ![p] = "get_open"]
                  /\ loc' = [loc EXCEPT ![p].e = r.e, ![p].cap = ent,
                                        ![p].gen0 = live[k].gen, ![p].live0 = live[k].on]
                  /\ UNCHANGED <<evqSize, live>>
     ELSE /\ NoTouch /\ ToBackend(p, r.L, TRUE, evqSize)
  /\ UNCHANGED <<evcur, evstage, files, nextFid, ops, nextCid, acked, backend, crashed>>

\* os.Open outside the lock: the descriptor pins whatever the file is now
GetOpen(p) ==
  /\ pc[p] = "get_open"
  /\ IF loc[p].cap.rnd \in DOMAIN files
     THEN /\ loc' = [loc EXCEPT ![p].fd = files[loc[p].cap.rnd]]
          /\ pc' = [pc EXCEPT ![p] = "get_header"]
     ELSE /\ pc' = [pc EXCEPT ![p] = "get_slow"] /\ UNCHANGED loc
  /\ UNCHANGED <<lru, evcur, evstage, evqSize, files, nextFid, ops, nextCid, acked, live, clock, now, backend, crashed>>

\* slow path, one lock region: look up again, open under the lock, drop the entry if that fails
GetSlow(p) ==
  /\ pc[p] = "get_slow"
  /\ LET r == GetItem(lru, loc[p].key) IN
     IF r.hit
     THEN LET ent == r.L.elems[r.e] IN
          /\ Touch(loc[p].key)
          /\ IF ent.rnd \in DOMAIN files
             THEN /\ lru' = r.L
                  /\ loc' = [loc EXCEPT ![p].e = r.e, ![p].cap = ent, ![p].fd = files[ent.rnd]]
                  /\ pc' = [pc EXCEPT ![p] = "get_header"]
                  /\ UNCHANGED <<evqSize, live>>
             ELSE LET d == RemoveElement(r.L, r.e) IN   \* DropBroken
                  ToBackend(p, d, FALSE, evqSize + QueuedNow(r.L, d))
     ELSE /\ NoTouch /\ ToBackend(p, r.L, FALSE, evqSize)
  /\ UNCHANGED <<evcur, evstage, files, nextFid, ops, nextCid, acked, backend, crashed>>

\* header / size validation through the descriptor (no lock)
GetHeader(p) ==
  /\ pc[p] = "get_header"
  /\ IF loc[p].fd.state = "complete" /\ loc[p].fd.lsz = loc[p].cap.lsz
     THEN FinishHit(p, loc[p].fd.cid, loc[p].fd.key)
     ELSE /\ pc' = [pc EXCEPT ![p] = "get_drop"] /\ UNCHANGED loc
  /\ UNCHANGED <<lru, evcur, evstage, evqSize, files, nextFid, ops, nextCid, acked, live, clock, now, backend, crashed>>

\* lock region: drop the entry whose file turned out unusable - but only if it
\* is still the indexed element for the key and still holds the examined value
\* (StaleFix = TRUE, the code since "fix: only drop the examined index entry").
\* StaleFix = FALSE is the earlier behaviour: RemoveElement on the captured
\* element whatever happened since; the list removal is then a no-op for an
\* element that already left the list while the rest is unconditional.
GetDrop(p) ==
  /\ pc[p] = "get_drop"
  /\ LET e == loc[p].e
         k == loc[p].key
         \* still the indexed element for the key, still holding the examined value
         still == k \in DOMAIN lru.cmap /\ lru.cmap[k] = e /\ lru.elems[e] = loc[p].cap
         d == IF StaleFix /\ ~still THEN [lru EXCEPT !.vict = <<>>] ELSE RemoveElement(lru, e) IN
     ToBackend(p, d, FALSE, evqSize + QueuedNow(lru, d))
  /\ NoTouch
  /\ UNCHANGED <<evcur, evstage, files, nextFid, ops, nextCid, acked, backend, crashed>>

-----------------------------------------------------------------------------
\* The fetch from the backend (disk.go get, after availableOrTryProxy)

\* lock region of its own: Reserve(size) after a hit that turned out unusable
GetPrereserve(p) ==
  /\ pc[p] = "get_prereserve"
  /\ LET r == Reserve(lru, loc[p].item.lsz, evqSize) IN
     /\ lru' = r.L
     /\ evqSize' = evqSize + QueuedNow(lru, r.L)
     /\ live' = LiveAfterEvict(lru, r.L)
     /\ IF r.code = 0
        THEN /\ pc' = [pc EXCEPT ![p] = "get_proxy"]
             /\ loc' = [loc EXCEPT ![p].resv = loc[p].item.lsz, ![p].unresv = TRUE]
        ELSE Finish(p, IF r.code = 507 THEN "refused507" ELSE "error")
  /\ NoTouch
  /\ UNCHANGED <<evcur, evstage, files, nextFid, ops, nextCid, acked, backend, crashed>>

\* proxy.Get and tfc.Create: the backend is asked; if it has the entry (in the size asked for) the file appears
GetProxy(p) ==
  /\ pc[p] = "get_proxy"
  /\ LET b == backend[loc[p].key] IN
     IF b.cid = None \/ (loc[p].known /\ b.item.lsz # loc[p].item.lsz)
     THEN /\ pc' = [pc EXCEPT ![p] = "get_cleanup"]
          /\ loc' = [loc EXCEPT ![p].res = "miss"]
          /\ UNCHANGED <<files, nextFid>>
     ELSE /\ files' = (nextFid :> [key |-> loc[p].key, state |-> "created", cid |-> b.cid, lsz |-> b.item.lsz, dsz |-> 0]) @@ files
          /\ loc' = [loc EXCEPT ![p].fid = nextFid, ![p].rmtmp = TRUE, ![p].bitem = b.item, ![p].bcid = b.cid]
          /\ nextFid' = nextFid + 1
          /\ pc' = [pc EXCEPT ![p] = "get_fetch"]
  /\ UNCHANGED <<lru, evcur, evstage, evqSize, ops, nextCid, acked, live, clock, now, backend, crashed>>

\* io.Copy: everything arrives, or the stream fails and leaves a partial file
GetFetch(p) ==
  /\ pc[p] = "get_fetch"
  /\ \/ /\ files' = [files EXCEPT ![loc[p].fid].state = "complete", ![loc[p].fid].dsz = loc[p].bitem.dsz]
        /\ pc' = [pc EXCEPT ![p] = "get_commit"]
        /\ UNCHANGED loc
     \/ /\ files' = [files EXCEPT ![loc[p].fid].state = "partial"]
        /\ pc' = [pc EXCEPT ![p] = "get_cleanup"]
        /\ loc' = [loc EXCEPT ![p].res = "error"]
  /\ UNCHANGED <<lru, evcur, evstage, evqSize, nextFid, ops, nextCid, acked, live, clock, now, backend, crashed>>

\* commit: Unreserve (if something was reserved) + Add, as for an upload
GetCommit(p) ==
  /\ pc[p] = "get_commit"
  /\ LET u == Unreserve(lru, loc[p].resv) IN
     IF ~u.ok
     THEN /\ lru' = u.L /\ loc' = [loc EXCEPT ![p].res = "error"]
          /\ UNCHANGED <<evqSize, live>> /\ NoTouch
     ELSE LET a == AddItem(u.L, loc[p].key, FidEntry(loc[p].key, loc[p].bitem, loc[p].fid)) IN
          /\ lru' = a.L
          /\ evqSize' = evqSize + QueuedNow(u.L, a.L)
          /\ live' = LiveAfterEvict(u.L, a.L)
          /\ IF a.ok
             THEN /\ loc' = [loc EXCEPT ![p].resv = 0, ![p].unresv = FALSE, ![p].rmtmp = FALSE, ![p].res = "hit",
                                       ![p].rcid = loc[p].bcid, ![p].rkey = loc[p].key]
                  /\ Touch(loc[p].key)
             ELSE /\ loc' = [loc EXCEPT ![p].resv = 0, ![p].unresv = FALSE, ![p].res = "error"]
                  /\ NoTouch
  /\ pc' = [pc EXCEPT ![p] = "get_cleanup"]
  /\ UNCHANGED <<evcur, evstage, files, nextFid, ops, nextCid, acked, backend, crashed>>

-----------------------------------------------------------------------------
\* Contains (one lock region)
ContainsLookup(p) ==
  /\ pc[p] = "contains_lookup"
  /\ LET r == GetItem(lru, loc[p].key) IN
     /\ lru' = r.L
     /\ IF r.hit THEN Touch(loc[p].key) ELSE NoTouch
     /\ Finish(p, IF r.hit \/ (WithBackend /\ backend[loc[p].key].cid # None) THEN "present" ELSE "absent")
  /\ UNCHANGED <<evcur, evstage, evqSize, files, nextFid, ops, nextCid, acked, live, backend, crashed>>

-----------------------------------------------------------------------------
\* The background remover (performQueuedEvictions): take, unlink, account
EvictTake ==
  /\ evstage = "idle" /\ lru.evq # <<>>
  /\ evcur' = <<Head(lru.evq)>> /\ evstage' = "taken"
  /\ lru' = [lru EXCEPT !.evq = Tail(@)]
  /\ UNCHANGED <<evqSize, files, nextFid, pc, loc, ops, nextCid, acked, live, clock, now, backend, crashed>>

EvictUnlink ==
  /\ evstage = "taken"
  /\ files' = [f \in (DOMAIN files) \ {evcur[1].rnd} |-> files[f]]
  /\ evstage' = "unlinked"
  /\ UNCHANGED <<lru, evcur, evqSize, nextFid, pc, loc, ops, nextCid, acked, live, clock, now, backend, crashed>>

EvictAccount ==
  /\ evstage = "unlinked"
  /\ evqSize' = evqSize - evcur[1].dsz
  /\ evcur' = <<>> /\ evstage' = "idle"
  /\ UNCHANGED <<lru, files, nextFid, pc, loc, ops, nextCid, acked, live, clock, now, backend, crashed>>

Evictor == EvictTake \/ EvictUnlink \/ EvictAccount

-----------------------------------------------------------------------------
Request(p) ==
  \/ StartPut(p) \/ StartGet(p) \/ StartContains(p)
  \/ PutReserve(p) \/ PutCreate(p) \/ PutWrite(p) \/ PutCommit(p) \/ PutCleanup(p) \/ ReqUnreserve(p)
  \/ GetLookup(p) \/ GetOpen(p) \/ GetSlow(p) \/ GetHeader(p) \/ GetDrop(p)
  \/ GetPrereserve(p) \/ GetProxy(p) \/ GetFetch(p) \/ GetCommit(p)
  \/ ContainsLookup(p)

Next == (\E p \in Procs : Request(p)) \/ Evictor

Spec == Init /\ [][Next]_vars /\ WF_vars(Evictor) /\ \A p \in Procs : WF_vars(Request(p))

-----------------------------------------------------------------------------
\* Properties

InFlight(p) == pc[p] # "idle"
Quiescent == (\A p \in Procs : ~InFlight(p)) /\ lru.evq = <<>> /\ evstage = "idle"

RECURSIVE SumResv(_)
SumResv(S) == IF S = {} THEN 0 ELSE LET p == CHOOSE p \in S : TRUE IN loc[p].resv + SumResv(S \ {p})

\* C03
InvAccounting   == AccountingExact(lru)
InvLogical      == LogicalExact(lru)
InvWithinMax    == WithinMax(lru)
InvReserved     == lru.resv = SumResv(Procs)
InvQuiescentResv == Quiescent => lru.resv = 0
InvNoHang       == ~lru.hang
\* C07
InvMapList      == MapListConsistent(lru)

\* C04: at quiescence the directory holds exactly the indexed entries
IndexedFids == {lru.elems[lru.ll[i]].rnd : i \in DOMAIN lru.ll}
InvDirEqualsIndex ==
  Quiescent => /\ DOMAIN files = IndexedFids
               /\ \A i \in DOMAIN lru.ll :
                    LET ent == lru.elems[lru.ll[i]] IN
                    /\ files[ent.rnd].key = ent.key
                    /\ files[ent.rnd].state \in {"complete", "corrupt"}
                    /\ files[ent.rnd].dsz = ent.dsz /\ files[ent.rnd].lsz = ent.lsz
\* no indexed entry ever lacks its file (also while requests are in flight)
InvIndexedHasFile == IndexedFids \subseteq DOMAIN files

\* the backlog counter is exactly the bytes queued and not yet accounted
RECURSIVE SumQ(_)
SumQ(q) == IF q = <<>> THEN 0 ELSE Head(q).dsz + SumQ(Tail(q))
InvBacklog == evqSize = SumQ(lru.evq) + (IF evstage = "idle" THEN 0 ELSE evcur[1].dsz)

\* C05: the list is ordered by last use (front = most recent), so evicting
\* from the back is evicting the least recently used
InvLruOrder ==
  \A i, j \in DOMAIN lru.ll :
     i < j => clock[lru.elems[lru.ll[i]].key] > clock[lru.elems[lru.ll[j]].key]

\* C07: a hit returns the content of one complete upload to that key
InvWholeValue ==
  \A p \in Procs : (pc[p] = "idle" /\ loc[p].op = "get" /\ loc[p].res = "hit") => loc[p].rkey = loc[p].key

\* C07: an upload acknowledged before the lookup started is found unless space
\* pressure evicted it (checked when a read that saw the entry reports a miss)
GetMissedLive(p) ==
  /\ pc[p] = "get_drop"
  /\ loc[p].live0 /\ live[loc[p].key].on /\ live[loc[p].key].gen = loc[p].gen0
  /\ loc[p].fd.state = "complete"

\* C05 (action properties): evictions happen only in steps that make room
EvictsOnlyUnderPressure ==
  [][lru'.vict # <<>> /\ lru'.vict # lru.vict =>
       \E p \in Procs : pc[p] \in {"put_reserve", "put_commit", "get_lookup", "get_slow", "get_drop", "get_prereserve", "get_commit"}]_vars

\* Liveness (under the fairness of Spec): every request comes to an end, and everything handed to the
\* remover is eventually unlinked and accounted (C14 / C04 seen from the model)
RequestsTerminate == \A p \in Procs : (pc[p] # "idle") ~> (pc[p] = "idle")
RemoverCatchesUp  == (lru.evq # <<>> \/ evstage # "idle") ~> (lru.evq = <<>> /\ evstage = "idle")

\* VIEW: the logical clock only matters through the order it induces on keys
ClockRank == [k \in Keys |-> Cardinality({j \in Keys : clock[j] < clock[k]})]
View == <<lru, evcur, evstage, evqSize, files, nextFid, pc, loc, ops, nextCid, acked, live, ClockRank, backend, crashed>>

StateConstraint == nextFid <= 1 + (IF CorruptInit THEN 1 ELSE 0) + Cardinality(Procs) * MaxOps
=============================================================================
