SPECIFICATION Spec
CONSTANTS
  Size = 2
  MaxMsgs = 3
  RejectEmpty = TRUE
  ClosePipe = TRUE
INVARIANTS PrintFinal
CHECK_DEADLOCK FALSE
