SPECIFICATION Spec
CONSTANTS
  Size = 2
  MaxMsgs = 3
  RejectEmpty = TRUE
  ClosePipe = FALSE
INVARIANTS InvOkMeansStored InvCommittedSize InvMalformedFails InvMalformedStoresNothing
PROPERTY Terminates
CHECK_DEADLOCK FALSE
