SPECIFICATION Spec
CONSTANT StatusRewrapBug = FALSE
INVARIANT InvMechanismIsPolicy
CHECK_DEADLOCK FALSE
