SPECIFICATION Spec
CONSTANT TlsExclusiveBug = FALSE
CONSTANT IdleBypassBug = FALSE
CONSTANT StatusRewrapBug = FALSE
INVARIANT InvMechanismIsPolicy
CHECK_DEADLOCK FALSE
