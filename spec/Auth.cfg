SPECIFICATION Spec
CONSTANT IdleBypassBug = FALSE
CONSTANT StatusRewrapBug = FALSE
INVARIANT InvMechanismIsPolicy
CHECK_DEADLOCK FALSE
