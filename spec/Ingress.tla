------------------------------ MODULE Ingress ------------------------------
(***************************************************************************)
(* Write-path decision model for CAS uploads (C01) and blob size limits    *)
(* (C18).                                                                  *)
(*                                                                         *)
(* A case is one upload attempt: which path, what is wrong with it (if     *)
(* anything), whether the claimed digest is already present, and how the   *)
(* configured max_blob_size relates to the blob's logical size.            *)
(*                                                                         *)
(* Policy   = what the property demands for the case.                      *)
(* Mechanism = what the implementation's plumbing yields: which request    *)
(*   field reaches disk.Put as `size` and which as `hash`, which checks    *)
(*   sit in the handler, in which order.  disk.Put itself acknowledges     *)
(*   iff the stream has exactly `size` bytes hashing to `hash` and         *)
(*   size <= max_blob_size.                                                *)
(*                                                                         *)
(* TLC checks Mechanism \subseteq Policy for every applicable case and     *)
(* writes the case table (with the set of allowed outcomes) that the       *)
(* harness executes against the real servers.                              *)
(***************************************************************************)
EXTENDS Integers, Sequences, FiniteSets, TLC, Json, IOUtils, SequencesExt

Paths == {"HttpPut", "HttpPutZstd", "BatchIdentity", "BatchZstd", "BsBlobs", "BsZstd",
          "SpliceDigest", "SpliceNoDigest", "AcInlineFile", "AcInlineStdout", "AcInlineStderr",
          "FetchBlobSri", "FetchBlobPlain"}

Defects == {"none", "flip", "truncate", "extend", "sizePlus", "sizeMinus", "wrongHash", "badCompressor",
            "malformedFrame", "trailingBytes", "abort", "zeroLenNonEmptyHash"}

Limits == {"none", "below", "exact", "above"}   \* max_blob_size = unset | size-1 | size | size+1

ZstdTransport(p) == p \in {"HttpPutZstd", "BatchZstd", "BsZstd"}
Streaming(p)     == p \in {"HttpPut", "HttpPutZstd", "BsBlobs", "BsZstd"}
Splice(p)        == p \in {"SpliceDigest", "SpliceNoDigest"}
AcInline(p)      == p \in {"AcInlineFile", "AcInlineStdout", "AcInlineStderr"}
Fetch(p)         == p \in {"FetchBlobSri", "FetchBlobPlain"}

\* Which defects can be expressed on which path
Applicable(p, d) ==
  CASE d = "none" -> TRUE
    [] d \in {"flip", "extend"} -> p # "SpliceNoDigest" /\ p # "FetchBlobPlain"
    [] d = "truncate" -> p # "FetchBlobPlain"    \* for SpliceBlob: a listed chunk is missing
    [] d \in {"sizePlus", "sizeMinus"} -> p \notin {"HttpPut", "SpliceNoDigest", "FetchBlobSri", "FetchBlobPlain"}
    [] d = "wrongHash" -> p \notin {"SpliceNoDigest", "FetchBlobPlain"}
    [] d = "badCompressor" -> p \in {"HttpPutZstd", "BatchZstd", "BsZstd"}
    [] d \in {"malformedFrame", "trailingBytes"} -> ZstdTransport(p)
    [] d = "abort" -> p \in {"BsBlobs", "BsZstd", "HttpPut", "FetchBlobSri"}
    [] d = "zeroLenNonEmptyHash" -> p \in {"HttpPut", "HttpPutZstd", "BatchIdentity", "BatchZstd", "BsBlobs", "BsZstd",
                                          "SpliceDigest", "FetchBlobSri"}   \* FetchBlob: the origin answers 200 with an empty body
    [] OTHER -> FALSE

\* Paths that look the digest up first and acknowledge without reading data
EarlyAck(p) == p \in {"BsBlobs", "BsZstd", "SpliceDigest", "SpliceNoDigest", "FetchBlobSri"}

\* Does the defect leave the *claimed* digest (hash, size) equal to the true one?
\* (only then can "already present" refer to the claimed digest)
ClaimIsTrueDigest(d) == d \in {"none", "flip", "truncate", "extend", "malformedFrame", "trailingBytes", "abort", "badCompressor"}

Cases == {c \in [path : Paths, defect : Defects, present : BOOLEAN, limit : Limits] :
            /\ Applicable(c.path, c.defect)
            \* "already present" only makes sense when the claimed digest is a real one
            /\ c.present => ClaimIsTrueDigest(c.defect)
            \* limits are exercised on well-formed uploads (C18) and on the empty limit otherwise
            /\ c.limit # "none" => c.defect = "none" /\ ~c.present
            \* the plain FetchBlob stores under the hash it computes: nothing to be wrong
            /\ c.path = "FetchBlobPlain" => c.defect = "none"}

-----------------------------------------------------------------------------
\* Policy (C01, C18): the set of allowed outcomes, and whether the claimed
\* digest must / must not be present afterwards.
\* A blob inlined in an ActionResult travels inside that message, which is itself
\* an item subject to max_blob_size and is larger than the blob: with the limit at
\* the blob's size (or one above) the enclosing message already exceeds it.
WithinLimit(c) == IF AcInline(c.path) THEN c.limit = "none" ELSE c.limit \in {"none", "exact", "above"}

PolicyOutcomes(c) ==
  IF c.defect = "none"
  THEN IF WithinLimit(c) THEN {"ack"}
       \* FetchBlob reports every failed fetch, including a refused store, as
       \* NOT_FOUND in its response status (a client-class error)
       ELSE IF Fetch(c.path) THEN {"clientError", "notFound"} ELSE {"clientError"}
  ELSE IF c.present /\ EarlyAck(c.path)
       THEN {"ack", "reject"}      \* AckEarlyExisting: the data need not be read
       ELSE {"reject"}

\* presence of the claimed digest afterwards: "yes", "no" or "asBefore"
PolicyPresent(c) ==
  IF c.defect = "none" /\ WithinLimit(c) THEN "yes"
  ELSE IF c.present THEN "yes" ELSE "no"

-----------------------------------------------------------------------------
\* Mechanism.  sizeFrom / hashFrom: where disk.Put's arguments come from.
\*   "declared"  the digest / resource name / header the client sent
\*   "dataLen"   the number of (decoded) bytes actually received
\*   "computed"  hashed by the server
SizeFrom(p) ==
  CASE p = "HttpPut" -> "dataLen"         \* Content-Length of an identity body
    [] p \in {"BatchIdentity", "BatchZstd"} -> "dataLenChecked"  \* len(data), compared with the digest first
    [] p = "SpliceNoDigest" -> "computed"
    [] p = "FetchBlobPlain" -> "computed"
    [] OTHER -> "declared"

HashFrom(p) == IF p \in {"SpliceNoDigest", "FetchBlobPlain"} THEN "computed" ELSE "declared"

\* what disk.Put (or the handler's own length bookkeeping) concludes
MechOutcomes(c) ==
  LET p == c.path  d == c.defect IN
  IF d = "badCompressor" THEN {"reject"}
  ELSE IF EarlyAck(p) /\ c.present /\ ClaimIsTrueDigest(d) THEN
       \* the existence short-cut races with reading the stream on ByteStream
       IF d = "none" THEN {"ack"} ELSE {"ack", "reject"}
  ELSE IF d \in {"malformedFrame", "trailingBytes"} THEN {"reject"}   \* decoder error / data after `size`
  ELSE IF d = "abort" THEN {"reject"}
  ELSE IF d = "zeroLenNonEmptyHash" THEN {"reject"}    \* validateHash / handler check
  ELSE IF d \in {"flip", "wrongHash"} THEN {"reject"}  \* sha256 mismatch in Put
  ELSE IF d \in {"truncate", "extend"} THEN
       \* the stream length differs from the declared size ...
       IF SizeFrom(p) \in {"declared", "dataLenChecked"} THEN {"reject"}
       \* ... or, where the size is the stream's own length, the hash no longer matches
       ELSE {"reject"}
  ELSE IF d \in {"sizePlus", "sizeMinus"} THEN
       IF SizeFrom(p) = "dataLen" THEN {"ack"}   \* declared size never compared: would be a defect
       ELSE {"reject"}
  ELSE \* none
       IF WithinLimit(c) THEN {"ack"} ELSE IF Fetch(p) THEN {"notFound"} ELSE {"clientError"}

MechanismRefinesPolicy == \A c \in Cases : MechOutcomes(c) \subseteq PolicyOutcomes(c)

\* every path has at least one rejected and one accepted case (vacuity guard)
Exercised == \A p \in Paths : /\ \E c \in Cases : c.path = p /\ PolicyOutcomes(c) = {"ack"}
                              /\ (p # "FetchBlobPlain" => \E c \in Cases : c.path = p /\ "reject" \in PolicyOutcomes(c))

-----------------------------------------------------------------------------
\* TLC: one state per case; the invariant is evaluated on each.
VARIABLE cur
Init == cur \in Cases
Next == UNCHANGED cur
Spec == Init /\ [][Next]_cur

InvMechanism == MechOutcomes(cur) \subseteq PolicyOutcomes(cur)

\* Framings.  How a well-formed zstd upload is framed is the encoder's choice (RFC 8878): one frame that announces
\* its content size and no window ("single segment": the window is the content, however large), a streamed frame
\* with the encoder's default window, a long window.  Policy: every valid framing of a blob within the limits is
\* acknowledged and the blob is present afterwards - on the two transports whose messages can carry a blob of
\* several MiB.
Framings == {"singleSegment", "defaultWindow", "window16MiB"}
FramingRows == {[path |-> p, defect |-> "none", present |-> FALSE, limit |-> "none", framing |-> fr,
                  allowed |-> <<"ack">>, presentAfter |-> "yes"] :
                  p \in {"HttpPutZstd", "BsZstd"}, fr \in Framings}

Row(c) == [path |-> c.path, defect |-> c.defect, present |-> c.present, limit |-> c.limit, framing |-> "",
           allowed |-> SetToSeq(PolicyOutcomes(c)), presentAfter |-> PolicyPresent(c)]

ASSUME Exercised
ASSUME "VERIF_CASES_OUT" \in DOMAIN IOEnv =>
         JsonSerialize(IOEnv.VERIF_CASES_OUT, SetToSeq({Row(c) : c \in Cases}) \o SetToSeq(FramingRows))
=============================================================================
