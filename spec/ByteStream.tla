----------------------------- MODULE ByteStream -----------------------------
(***************************************************************************)
(* ByteStream.Write (server/grpc_bytestream.go): three parties per call -  *)
(*   recv   the goroutine that reads client messages and writes their data *)
(*          into an unbuffered pipe,                                       *)
(*   put    the goroutine running disk.Put on the read end of the pipe     *)
(*          (behind a zstd decoder for compressed-blobs),                  *)
(*   hand   the handler, selecting on two 1-buffered result channels.      *)
(*                                                                         *)
(* C16: what a call answers for each client script (message sizes,         *)
(* finish_write placement, write_offset, resource-name changes, half-close *)
(* or abort) and what is stored.  C14: however the call ends, all three    *)
(* parties terminate (no goroutine stays blocked on the pipe).             *)
(*                                                                         *)
(* Data is abstract: the blob has Size bytes; a message carries 0..2       *)
(* payload bytes.  For compressed uploads a payload byte stands for a      *)
(* piece of the zstd stream that decodes to one logical byte, and the      *)
(* stream may be invalid from some byte on.                                *)
(***************************************************************************)
EXTENDS Integers, Sequences, FiniteSets, TLC, Json, IOUtils, SequencesExt

CONSTANTS Size,          \* logical size named in the resource name
          MaxMsgs,       \* messages per script
          ClosePipe,     \* TRUE: the handler closes the pipe whenever it returns
          RejectEmpty    \* TRUE: a stream that ends before its first message is answered with an error
                         \* (FALSE: the code before "fix: ByteStream.Write on a stream without messages":
                         \* the receive loop reports a clean end, the handler waits for a Put nobody started)

Msgs == [len : 0..2, finish : BOOLEAN, rename : BOOLEAN]
Scripts == [msgs : UNION {[1..n -> Msgs] : n \in 0..MaxMsgs},
            name : {"ok", "empty", "unparsable"},
            offset : {0, 1},
            zstd : BOOLEAN,
            badAt : {0, 1},        \* zstd only: 0 = valid stream, 1 = invalid from the first byte
            exists : BOOLEAN,
            ending : {"halfclose", "abort"}]
WellFormedScript(s) ==
  /\ (~s.zstd => s.badAt = 0)
  /\ (Len(s.msgs) > 0 => ~s.msgs[1].rename)   \* the first message names the resource
  /\ (s.name # "ok" => Len(s.msgs) = 1 /\ s.offset = 0 /\ ~s.exists /\ ~s.zstd)
  \* the stream without any message: nothing of the rest is ever transmitted
  /\ (Len(s.msgs) = 0 => s.name = "ok" /\ s.offset = 0 /\ ~s.exists /\ ~s.zstd)

VARIABLES sc,        \* the script
          pos,       \* next message index
          rpc,       \* recv: "recv" | "write" | "done"
          wlen,      \* bytes of the current pipe write not yet consumed
          sent,      \* committed_size as counted by recv
          started,   \* the put goroutine has been started
          ppc,       \* put: "idle" | "read" | "drain" | "done"
          got,       \* logical bytes put has consumed
          pipeW,     \* write end: "open" | "eof" | "err"
          pipeR,     \* read end closed?
          putRes, recvRes,   \* the two channels: "none" or a value
          hpc, answer,       \* handler
          stored, first

vars == <<sc, pos, rpc, wlen, sent, started, ppc, got, pipeW, pipeR, putRes, recvRes, hpc, answer, stored, first>>

Init == /\ sc \in {s \in Scripts : WellFormedScript(s)}
        /\ pos = 1 /\ rpc = "recv" /\ wlen = 0 /\ sent = 0 /\ started = FALSE
        /\ ppc = "idle" /\ got = 0 /\ pipeW = "open" /\ pipeR = FALSE
        /\ putRes = "none" /\ recvRes = "none" /\ hpc = "sel1" /\ answer = "none"
        /\ stored = sc.exists /\ first = TRUE

RecvExit(v) == /\ recvRes' = v /\ rpc' = "done"

-----------------------------------------------------------------------------
\* recv goroutine: srv.Recv()
Recv ==
  /\ rpc = "recv"
  /\ IF hpc = "done" /\ pos <= Len(sc.msgs)
     THEN \* the handler has returned: the stream is dead, Recv fails
          /\ RecvExit("err") /\ UNCHANGED <<pos, wlen, sent, started, ppc, putRes, first>>
     ELSE IF pos > Len(sc.msgs)
     THEN \* io.EOF (half-close) or the client went away
          IF sc.ending = "abort" THEN RecvExit("err") /\ UNCHANGED <<pos, wlen, sent, started, ppc, putRes, first>>
          ELSE /\ IF first
                  THEN \* nothing was received: compression and size still have their zero values (identity, 0),
                       \* so the "amount of data" test passes
                       (IF RejectEmpty THEN RecvExit("err") ELSE RecvExit("eof"))
                  ELSE IF ~sc.zstd /\ sent # Size THEN RecvExit("err") ELSE RecvExit("eof")
               /\ UNCHANGED <<pos, wlen, sent, started, ppc, putRes, first>>
     ELSE LET m == sc.msgs[pos] IN
          IF first
          THEN IF sc.name # "ok" THEN RecvExit("err") /\ UNCHANGED <<pos, wlen, sent, started, ppc, putRes, first>>
               ELSE IF sc.exists
               THEN \* early exit: the blob is already there
                    /\ putRes' = "eof" /\ rpc' = "done" /\ sent' = IF sc.zstd THEN -1 ELSE Size
                    /\ UNCHANGED <<pos, wlen, started, ppc, recvRes, first>>
               ELSE IF sc.offset # 0 THEN RecvExit("err") /\ sent' = sc.offset /\ UNCHANGED <<pos, wlen, started, ppc, putRes, first>>
               ELSE \* start the put goroutine, then write this message's data
                    /\ started' = TRUE /\ ppc' = "read" /\ first' = FALSE
                    /\ rpc' = "write" /\ wlen' = m.len
                    /\ UNCHANGED <<pos, sent, putRes, recvRes>>
          ELSE IF m.rename THEN RecvExit("err") /\ UNCHANGED <<pos, wlen, sent, started, ppc, putRes, first>>
               ELSE /\ rpc' = "write" /\ wlen' = m.len /\ UNCHANGED <<pos, sent, started, ppc, putRes, recvRes, first>>
  /\ UNCHANGED <<sc, got, pipeW, pipeR, hpc, answer, stored>>

\* pw.Write returns: all bytes consumed, or the pipe was closed under it
WriteDone ==
  /\ rpc = "write"
  /\ \/ /\ wlen = 0 /\ ~pipeR /\ pipeW = "open"
        /\ LET m == sc.msgs[pos]  n == sent + m.len IN
           /\ sent' = n
           /\ IF ~sc.zstd /\ n > Size THEN RecvExit("err") /\ pos' = pos
              ELSE IF m.finish THEN (IF ~sc.zstd /\ n # Size THEN RecvExit("err") ELSE RecvExit("eof")) /\ pos' = pos
              ELSE /\ rpc' = "recv" /\ pos' = pos + 1 /\ UNCHANGED recvRes
     \/ /\ (pipeR \/ pipeW # "open")     \* io.ErrClosedPipe / the error the pipe was closed with
        /\ RecvExit("err") /\ UNCHANGED <<pos, sent>>
  /\ UNCHANGED <<sc, wlen, started, ppc, got, pipeW, pipeR, putRes, hpc, answer, stored, first>>

-----------------------------------------------------------------------------
\* put goroutine: disk.Put reading from the pipe (through the decoder for zstd)
PutRead ==
  /\ ppc = "read"
  /\ \/ \* consume one byte of the write in progress
        /\ wlen > 0 /\ pipeW = "open" /\ ~pipeR
        /\ wlen' = wlen - 1
        /\ IF sc.zstd /\ sc.badAt = 1
           THEN \* the decoder fails: Put returns an error; its deferred drain reads the
                \* decoder again, which fails at once - the pipe is not drained
                /\ ppc' = "done" /\ putRes' = "err" /\ UNCHANGED <<got, stored>>
           ELSE IF got + 1 > Size
           THEN /\ ppc' = "drain" /\ got' = got + 1 /\ UNCHANGED <<putRes, stored>>   \* more than declared
           ELSE /\ got' = got + 1 /\ UNCHANGED <<ppc, putRes, stored>>
     \/ \* the write end was closed
        /\ wlen = 0 /\ pipeW # "open"
        /\ IF pipeW = "eof" /\ got = Size
           THEN /\ ppc' = "done" /\ putRes' = "ok" /\ stored' = TRUE
           ELSE /\ ppc' = "done" /\ putRes' = "err" /\ UNCHANGED stored
        /\ UNCHANGED <<wlen, got>>
     \/ \* the read end was closed under us
        /\ pipeR /\ ppc' = "done" /\ putRes' = "err" /\ UNCHANGED <<wlen, got, stored>>
  /\ UNCHANGED <<sc, pos, rpc, sent, started, pipeW, pipeR, recvRes, hpc, answer, first>>

\* Put failed early: its deferred io.Copy(io.Discard, r) keeps reading until the pipe ends
PutDrain ==
  /\ ppc = "drain"
  /\ \/ /\ wlen > 0 /\ pipeW = "open" /\ ~pipeR /\ wlen' = wlen - 1 /\ UNCHANGED <<ppc, putRes>>
     \/ /\ wlen = 0 /\ (pipeW # "open" \/ pipeR) /\ ppc' = "done" /\ putRes' = "err" /\ UNCHANGED wlen
  /\ UNCHANGED <<sc, pos, rpc, sent, started, got, pipeW, pipeR, recvRes, hpc, answer, stored, first>>

-----------------------------------------------------------------------------
\* handler
Return(a) == /\ answer' = a /\ hpc' = "done" /\ pipeR' = (pipeR \/ ClosePipe)

Handler ==
  \/ /\ hpc = "sel1" /\ recvRes # "none"
     /\ IF recvRes = "eof" THEN /\ pipeW' = "eof" /\ hpc' = "waitput" /\ UNCHANGED <<answer, pipeR>>
        ELSE /\ pipeW' = "err" /\ Return("error")
     /\ UNCHANGED <<sc, pos, rpc, wlen, sent, started, ppc, got, putRes, recvRes, stored, first>>
  \/ /\ hpc = "sel1" /\ putRes # "none"
     /\ IF putRes = "eof" THEN Return("ok") ELSE Return("error")   \* early exit / cache error (nil: internal error)
     /\ UNCHANGED <<sc, pos, rpc, wlen, sent, started, ppc, got, pipeW, putRes, recvRes, stored, first>>
  \/ /\ hpc = "waitput" /\ putRes # "none"
     /\ IF putRes \in {"ok", "eof"} THEN Return("ok") ELSE Return("error")
     /\ UNCHANGED <<sc, pos, rpc, wlen, sent, started, ppc, got, pipeW, putRes, recvRes, stored, first>>

\* a client that goes away: the reset can overtake messages it sent earlier, so the
\* stream may die at any message boundary
ClientGone ==
  /\ rpc = "recv" /\ sc.ending = "abort"
  /\ RecvExit("err")
  /\ UNCHANGED <<sc, pos, wlen, sent, started, ppc, got, pipeW, pipeR, putRes, hpc, answer, stored, first>>

Next == Recv \/ ClientGone \/ WriteDone \/ PutRead \/ PutDrain \/ Handler

Spec == Init /\ [][Next]_vars /\ WF_vars(Next)

-----------------------------------------------------------------------------
\* C16
\* the messages the server looks at: up to and including the first finish_write
EffLen == LET F == {k \in 1..Len(sc.msgs) : sc.msgs[k].finish} IN
          IF F = {} THEN Len(sc.msgs) ELSE CHOOSE k \in F : \A j \in F : k <= j
Payload == LET RECURSIVE S(_)
               S(k) == IF k = 0 THEN 0 ELSE sc.msgs[k].len + S(k - 1)
           IN S(EffLen)
Done == hpc = "done"

\* a successful call reports the bytes the client sent (= the blob size for blobs/),
\* or the early-exit values; the blob is present afterwards
InvOkMeansStored == (Done /\ answer = "ok") => stored
InvCommittedSize == (Done /\ answer = "ok") =>
                      IF sc.exists THEN sent = (IF sc.zstd THEN -1 ELSE Size)
                      ELSE (~sc.zstd => sent = Size)
\* for a blob not yet present: the malformed scripts fail and store nothing
Malformed == \/ sc.name # "ok" \/ sc.offset # 0
             \/ \E k \in 1..EffLen : sc.msgs[k].rename
             \/ (~sc.zstd /\ Payload # Size)
             \/ (sc.zstd /\ sc.badAt = 1)
InvMalformedFails == (Done /\ ~sc.exists /\ Malformed) => answer = "error"
\* "stores nothing" must hold when everything has come to rest, not only when the call returns
AllDone == hpc = "done" /\ rpc = "done" /\ (~started \/ ppc = "done")
InvMalformedStoresNothing == (AllDone /\ ~sc.exists /\ Malformed) => ~stored

\* C14: every party terminates
Terminates == <>[](AllDone)

-----------------------------------------------------------------------------
\* Outcome table for the harness: per script the set of answers over all interleavings is
\* collected by the runner from TLC's reachable final states (printed below).
FinalRow == [script |-> sc, answer |-> answer, stored |-> stored, sent |-> sent]
PrintFinal == (AllDone /\ "VERIF_PRINT" \in DOMAIN IOEnv) => PrintT(<<"CASE", ToJson(FinalRow)>>)
=============================================================================
