SPECIFICATION Spec
CONSTANTS
  Mode = "render"
  Hashes = {}
  PrefixSet = {}
  SuffixSet = {}
  MaxUsize = 0
  MaxCsize = 0
  MaxFrame = 0
INVARIANTS InvRenderable
