SPECIFICATION Spec
CONSTANTS
  Mode = "validate"
  Hashes = {}
  PrefixSet = {}
  SuffixSet = {}
  MaxUsize = 0
  MaxCsize = 0
  MaxFrame = 0
INVARIANTS InvRecorded
