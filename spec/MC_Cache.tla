------------------------------ MODULE MC_Cache ------------------------------
(* Bounded instances of Cache.tla (constants that cannot be written in a .cfg) *)
EXTENDS Cache

\* sizes in blocks of 2: sub-block, compressible (dsz < lsz), incompressible (dsz > lsz)
ItemsSmall == {[lsz |-> 1, dsz |-> 2], [lsz |-> 3, dsz |-> 3]}
ItemsMixed == {[lsz |-> 1, dsz |-> 1], [lsz |-> 3, dsz |-> 2], [lsz |-> 2, dsz |-> 3], [lsz |-> 4, dsz |-> 4]}
ItemsOne   == {[lsz |-> 2, dsz |-> 2]}
=============================================================================
