SPECIFICATION Spec
CONSTANTS
  Block = 1
  Keys = {"k1", "k2", "k3"}
  Sizes = {0, 1, 2, 3}
  MaxFiles = 3
  MaxMax = 6
  DedupFirst = TRUE
INVARIANTS InvSurvivors InvOrder InvDirectory InvAccounting
CHECK_DEADLOCK FALSE
