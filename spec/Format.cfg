SPECIFICATION Spec
CONSTANTS
  Mode = "model"
  Hashes = {"aa11", "aa22", "bb11"}
  PrefixSet = {"", "p", "p/q", "p/", "a//b", "./a"}
  SuffixSet = {"S", "0aZ"}
  MaxUsize = 5
  MaxCsize = 3
  MaxFrame = 3
INVARIANTS InvRoundTrip
