SPECIFICATION TraceSpec
CONSTANT Block = 4096
INVARIANTS InvAccounting InvLogical InvWithinMax InvReserved InvMapList InvCount
POSTCONDITION TraceAccepted
CHECK_DEADLOCK FALSE
