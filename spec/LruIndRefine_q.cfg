SPECIFICATION Spec
CONSTANTS
  Block = 2
  KeySet = {"a", "b"}
  MaxBytes = 6
  HardBytes = 0
  DiskSizes = {0, 1, 4, 7}
  ResvSizes = {0, 1, 5, 7}
  MaxElems = 3
  MaxQueue = 2
CONSTRAINT Bounded
VIEW View
INVARIANT IndInvHolds
PROPERTIES Refines RefusalsJustified
CHECK_DEADLOCK FALSE
