------------------------------- MODULE LruInd -------------------------------
(***************************************************************************)
(* The accounting core of the size-bounded index (cache/disk/lru.go) over  *)
(* UNBOUNDED integers, written for Apalache: sizes, reservations and the   *)
(* limits are arbitrary integers, only the number of keys is fixed.        *)
(*                                                                         *)
(* It is the abstraction of Lru.tla in which the recency order is          *)
(* forgotten (the victims of an eviction are any set of other entries      *)
(* that makes room) and sizes are already rounded to blocks.  What it      *)
(* decides that the bounded TLC runs cannot: for every max_size, every     *)
(* hard limit and every sequence of sizes, however large,                  *)
(*                                                                         *)
(*   C03   cur = resv + sum of the entries,  0 <= resv <= cur <= Max       *)
(*   C17   a reservation is admitted only if cur + queued + s <= Hard      *)
(*         (a guard of Reserve; refined by Lru.tla, nothing to prove here) *)
(*   C14   the eviction loops of Add and Reserve never run out of          *)
(*         entries (lru.go would spin / answer 500): NoHang                *)
(*                                                                         *)
(* IndInv is inductive: Apalache checks  IndInit => IndInv  (length 0) and *)
(* IndInv /\ Next => IndInv'  (length 1).  LruIndRefine.tla checks with    *)
(* TLC that every step of Lru.tla's operators is a step of Next, which is  *)
(* what ties this module to the specification the code is validated        *)
(* against (LruTrace.tla).                                                 *)
(***************************************************************************)
EXTENDS Integers, FiniteSets, Apalache

CONSTANTS
  \* @type: Set(Str);
  Keys,
  \* @type: Int;
  Max,
  \* the hard limit, 0 = unset
  \* @type: Int;
  Hard

VARIABLES
  \* keys in the index
  \* @type: Set(Str);
  present,
  \* rounded disk size of each key (meaningful for present keys)
  \* @type: Str -> Int;
  sz,
  \* currentSize
  \* @type: Int;
  cur,
  \* reservedSize
  \* @type: Int;
  resv,
  \* queuedEvictionsSize: rounded bytes unlinked from the index, still on disk
  \* @type: Int;
  queued

vars == <<present, sz, cur, resv, queued>>

\* @type: (Set(Str)) => Int;
Sum(S) == ApaFoldSet(LAMBDA acc, k : acc + sz[k], 0, S)

CInit == /\ Keys = {"a", "b", "c"}
         /\ Max \in Int /\ Max >= 1
         /\ Hard \in Int /\ (Hard = 0 \/ Hard >= Max)

TypeOK == /\ present \in SUBSET Keys
          /\ sz \in [Keys -> Int]
          /\ cur \in Int /\ resv \in Int /\ queued \in Int

Init == /\ present = {}
        /\ sz = [k \in Keys |-> 0]
        /\ cur = 0 /\ resv = 0 /\ queued = 0

-----------------------------------------------------------------------------
\* evicting the set V of present keys
Evict(V) == /\ present' = present \ V
            /\ queued' = queued + Sum(V)
            /\ sz' = [x \in Keys |-> IF x \in V THEN 0 ELSE sz[x]]

\* Add(k, s): insert or overwrite, lru.go:Add.  The code first installs the new value
\* (so k is in the list, at the front, with its new size), then evicts from the back while
\* cur + delta > Max, and only then adds delta.  Here: some set V of entries - possibly
\* the new one itself, which the code evicts last, when the reservations leave no room
\* for it (the call still answers true) - after which it fits; none if it fits already.
\* @type: (Str, Int, Set(Str)) => Int;
SumNew(k, s, V) == Sum(V \ {k}) + (IF k \in V THEN s ELSE 0)

Add(k, s) ==
  LET old == IF k \in present THEN sz[k] ELSE 0
      d   == s - old IN
  /\ s >= 0 /\ s <= Max
  /\ resv + d <= Max
  /\ \E V \in SUBSET (present \union {k}) :
       /\ cur + d - SumNew(k, s, V) <= Max
       /\ (cur + d <= Max => V = {})
       /\ present' = (present \union {k}) \ V
       /\ queued' = queued + SumNew(k, s, V) + old     \* the overwritten file is queued too
       /\ cur' = cur + d - SumNew(k, s, V)
  /\ sz' = [x \in Keys |-> IF x \in present' THEN (IF x = k THEN s ELSE sz[x]) ELSE 0]
  /\ UNCHANGED resv

\* Reserve(s), lru.go:Reserve
Reserve(s) ==
  /\ s > 0 /\ s <= Max
  /\ resv + s <= Max
  /\ (Hard > 0 => cur + queued + s <= Hard)
  /\ \E V \in SUBSET present :
       /\ cur - Sum(V) + s <= Max
       /\ (cur + s <= Max => V = {})
       /\ Evict(V)
       /\ cur' = cur - Sum(V) + s
  /\ resv' = resv + s

Unreserve(s) ==
  /\ s > 0 /\ s <= resv /\ s <= cur
  /\ cur' = cur - s /\ resv' = resv - s
  /\ UNCHANGED <<present, sz, queued>>

Remove(k) ==
  /\ k \in present
  /\ Evict({k})
  /\ cur' = cur - sz[k]
  /\ UNCHANGED resv

\* the background remover unlinked q bytes of queued files
Unlinked(q) ==
  /\ q > 0 /\ q <= queued
  /\ queued' = queued - q
  /\ UNCHANGED <<present, sz, cur, resv>>

Next ==
  \/ \E k \in Keys : \E s \in Int : Add(k, s)
  \/ \E s \in Int : Reserve(s)
  \/ \E s \in Int : Unreserve(s)
  \/ \E k \in Keys : Remove(k)
  \/ \E q \in Int : Unlinked(q)

-----------------------------------------------------------------------------
AccountingExact == cur = resv + Sum(present)
WithinMax       == resv >= 0 /\ resv <= cur /\ cur <= Max
SizesSane       == \A k \in Keys : IF k \in present THEN sz[k] >= 0 /\ sz[k] <= Max ELSE sz[k] = 0
QueueSane       == queued >= 0

IndInv == TypeOK /\ AccountingExact /\ WithinMax /\ SizesSane /\ QueueSane

\* any state satisfying the invariant (the initial condition of the inductive step)
IndInit == IndInv

\* C14/C03: when Add or Reserve admits a request the eviction loop finds enough to
\* evict: evicting every other entry always makes room, so the loop cannot run dry.
NoHang ==
  /\ \A k \in Keys : \A s \in Int :
       LET old == IF k \in present THEN sz[k] ELSE 0 IN
       (s >= 0 /\ s <= Max /\ resv + (s - old) <= Max)
         => cur + (s - old) - SumNew(k, s, present \union {k}) <= Max
  /\ \A s \in Int :
       (s > 0 /\ s <= Max /\ resv + s <= Max) => cur - Sum(present) + s <= Max

\* the entry just added is evicted by its own Add only when the reservations leave no
\* room for it beside them (what makes "acknowledged but not kept" possible at all)
SelfEvictionOnlyUnderReservations ==
  \A k \in Keys : \A s \in Int :
    LET old == IF k \in present THEN sz[k] ELSE 0 IN
    (s >= 0 /\ s <= Max /\ resv + s <= Max)
      => cur + (s - old) - SumNew(k, s, present \ {k}) <= Max
=============================================================================
