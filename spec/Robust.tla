------------------------------- MODULE Robust -------------------------------
(***************************************************************************)
(* C14, structure level: every request message and every stored message    *)
(* that a handler interprets has optional sub-messages (pointers in the    *)
(* generated Go code).  A request, or a blob that gets interpreted as      *)
(* Directory / Tree / ActionResult, may leave any subset of them unset.    *)
(* The server must answer every such input - with an error status where    *)
(* the input is malformed - and must never dereference an unset field.     *)
(*                                                                         *)
(* The model is the lattice of unset fields per message shape, to depth 2; *)
(* the policy is "answered, process alive, nothing held afterwards".       *)
(* The harness executes every point of the lattice in a child process.     *)
(***************************************************************************)
EXTENDS Integers, Sequences, FiniteSets, TLC, Json, IOUtils, SequencesExt

\* shape |-> the optional fields that can be left unset
Fields == [
  FindMissingBlobs     |-> {"digest"},
  BatchUpdateBlobs     |-> {"digest", "data"},
  BatchReadBlobs       |-> {"digest"},
  GetTree              |-> {"root_digest"},
  GetActionResult      |-> {"action_digest"},
  UpdateActionResult   |-> {"action_digest", "action_result", "file.digest", "dir.tree_digest", "execution_metadata"},
  SpliceBlob           |-> {"blob_digest", "chunk_digest"},
  FetchBlob            |-> {"uris", "qualifier.value"},
  StoredDirectory      |-> {"dirnode.digest", "filenode.digest"},
  StoredTree           |-> {"root", "child.filenode.digest", "root.filenode.digest"},
  StoredActionResult   |-> {"file.digest", "dir.tree_digest", "stdout_digest", "stderr_digest", "execution_metadata"}
]

Shapes == DOMAIN Fields

\* a case: a shape with a set of unset fields
Cases == UNION {{[shape |-> s, unset |-> U] : U \in SUBSET Fields[s]} : s \in Shapes}

\* Policy: whether the input is well formed (then the answer is OK or NotFound) or
\* malformed (then an error status) - in all cases an answer, not a crash.
Malformed(c) ==
  CASE c.shape \in {"FindMissingBlobs", "BatchReadBlobs", "GetTree", "GetActionResult"} -> c.unset # {}
    [] c.shape = "BatchUpdateBlobs" -> "digest" \in c.unset
    [] c.shape = "UpdateActionResult" -> c.unset \cap {"action_digest", "action_result", "file.digest", "dir.tree_digest"} # {}
    [] c.shape = "SpliceBlob" -> "chunk_digest" \in c.unset
    [] c.shape = "FetchBlob" -> FALSE
    [] OTHER -> FALSE        \* stored blobs: whatever they contain, reading them is answered

VARIABLE cur
Init == cur \in Cases
Next == UNCHANGED cur
Spec == Init /\ [][Next]_cur
InvAnswered == cur \in Cases     \* (the policy has no failing branch; TLC counts the lattice)

Row(c) == [shape |-> c.shape, unset |-> SetToSeq(c.unset), malformed |-> Malformed(c)]
ASSUME "VERIF_CASES_OUT" \in DOMAIN IOEnv => JsonSerialize(IOEnv.VERIF_CASES_OUT, SetToSeq({Row(c) : c \in Cases}))
=============================================================================
