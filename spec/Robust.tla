------------------------------- MODULE Robust -------------------------------
(***************************************************************************)
(* C14, structure level: every request message and every stored message    *)
(* that a handler interprets has optional sub-messages (pointers in the    *)
(* generated Go code).  A request, or a blob that gets interpreted as      *)
(* Directory / Tree / ActionResult, may leave any subset of them unset.    *)
(* The server must answer every such input - with an error status where    *)
(* the input is malformed - and must never dereference an unset field.     *)
(*                                                                         *)
(* The model is the lattice of unset fields per message shape, to depth 2; *)
(* the policy is "answered, process alive, nothing held afterwards".       *)
(* The harness executes every point of the lattice in a child process.     *)
(***************************************************************************)
EXTENDS Integers, Sequences, FiniteSets, TLC, Json, IOUtils, SequencesExt

\* shape |-> the optional fields that can be left unset
Fields == [
  FindMissingBlobs     |-> {"digest"},
  BatchUpdateBlobs     |-> {"digest", "data"},
  BatchReadBlobs       |-> {"digest"},
  GetTree              |-> {"root_digest"},
  GetActionResult      |-> {"action_digest"},
  UpdateActionResult   |-> {"action_digest", "action_result", "file.digest", "dir.tree_digest", "execution_metadata"},
  SpliceBlob           |-> {"blob_digest", "chunk_digest"},
  FetchBlob            |-> {"uris", "qualifier.value"},
  StoredDirectory      |-> {"dirnode.digest", "filenode.digest"},
  StoredTree           |-> {"root", "child.filenode.digest", "root.filenode.digest"},
  StoredActionResult   |-> {"file.digest", "dir.tree_digest", "stdout_digest", "stderr_digest", "execution_metadata"}
]

Shapes == DOMAIN Fields

\* a case: a shape with a set of unset fields
Cases == UNION {{[shape |-> s, unset |-> U] : U \in SUBSET Fields[s]} : s \in Shapes}

\* Policy: whether the input is well formed (then the answer is OK or NotFound) or
\* malformed (then an error status) - in all cases an answer, not a crash.
Malformed(c) ==
  CASE c.shape \in {"FindMissingBlobs", "BatchReadBlobs", "GetTree", "GetActionResult"} -> c.unset # {}
    [] c.shape = "BatchUpdateBlobs" -> "digest" \in c.unset
    [] c.shape = "UpdateActionResult" -> c.unset \cap {"action_digest", "action_result", "file.digest", "dir.tree_digest"} # {}
    [] c.shape = "SpliceBlob" -> "chunk_digest" \in c.unset
    [] c.shape = "FetchBlob" -> FALSE
    [] OTHER -> FALSE        \* stored blobs: whatever they contain, reading them is answered

-----------------------------------------------------------------------------
\* Scalars.  Every digest a request carries has a size_bytes, an int64 the client chooses freely.  The ends
\* of its range are where a handler that uses the number before validating it (to size a buffer, to compute
\* an offset) fails: per request shape that carries a digest - and per compressor where the shape has one -
\* the sizes below, next to a well-formed hash.
SizeExtremes == {"minus1", "minInt64", "maxInt64", "maxInt64minus7", "fiveGiB"}
DigestShapes == {"FindMissingBlobs", "BatchUpdateBlobs/identity", "BatchUpdateBlobs/zstd",
                 "BatchReadBlobs/identity", "BatchReadBlobs/zstd", "GetTree", "GetActionResult",
                 "UpdateActionResult/file", "UpdateActionResult/stdout", "SpliceBlob/blob", "SpliceBlob/chunk",
                 "ByteStream.Read/blobs", "ByteStream.Read/zstd", "ByteStream.Write/blobs", "ByteStream.Write/zstd",
                 "QueryWriteStatus", "FetchBlob/checksum", "HttpPut/X-Digest-SizeBytes", "HttpGet/cas"}
ScalarCases == [shape : DigestShapes, size : SizeExtremes]
\* a negative size is malformed wherever the size is part of the request's meaning; a huge one is merely the
\* digest of a blob that cannot exist or be accepted (not found / refused).  Either way: an answer.  (Which
\* answer is the business of the tables of C10, C16 and C18; for these rows the harness judges only that
\* there is one, that the process lives and that nothing is held afterwards.)
ScalarMalformed(c) == c.size \in {"minus1", "minInt64"} /\ c.shape \notin {"GetActionResult", "HttpGet/cas", "FetchBlob/checksum"}

VARIABLE cur
Init == cur \in Cases
Next == UNCHANGED cur
Spec == Init /\ [][Next]_cur
InvAnswered == cur \in Cases     \* (the policy has no failing branch; TLC counts the lattice)

Row(c) == [shape |-> c.shape, unset |-> SetToSeq(c.unset), size |-> "", malformed |-> Malformed(c)]
ScalarRow(c) == [shape |-> c.shape, unset |-> <<>>, size |-> c.size, malformed |-> ScalarMalformed(c)]
ASSUME "VERIF_CASES_OUT" \in DOMAIN IOEnv =>
         JsonSerialize(IOEnv.VERIF_CASES_OUT, SetToSeq({Row(c) : c \in Cases}) \o SetToSeq({ScalarRow(c) : c \in ScalarCases}))
=============================================================================
