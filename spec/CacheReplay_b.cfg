SPECIFICATION RSpec
CONSTANTS
  Block = 2
  Procs = {p1, p2}
  Keys = {k1, k2}
  Items <- ItemsReplay
  MaxSize = 4
  HardLimit = 0
  MaxOps = 2
  CorruptInit = TRUE
  StaleFix = TRUE
  WithCrash = FALSE
  CreateMayFail = FALSE
  WithBackend = TRUE
INVARIANTS PrintDone InvAccounting InvReserved InvMapList InvIndexedHasFile InvBacklog
CHECK_DEADLOCK FALSE
