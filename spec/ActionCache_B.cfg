SPECIFICATION ASpec
CONSTANT WithBackend = TRUE
INVARIANTS InvStoredValid InvLatestWins
CHECK_DEADLOCK FALSE
