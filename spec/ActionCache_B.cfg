SPECIFICATION ASpec
CONSTANT TrustUpload = FALSE
CONSTANT WithBackend = TRUE
INVARIANTS InvStoredValid InvLatestWins
PROPERTY DeinlinedInCas
CHECK_DEADLOCK FALSE
