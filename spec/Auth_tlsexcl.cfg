SPECIFICATION Spec
CONSTANT TlsExclusiveBug = TRUE
CONSTANT IdleBypassBug = FALSE
CONSTANT StatusRewrapBug = FALSE
INVARIANT InvMechanismIsPolicy
CHECK_DEADLOCK FALSE
