SPECIFICATION Spec
INVARIANT InvAnswered
CHECK_DEADLOCK FALSE
