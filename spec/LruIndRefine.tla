---------------------------- MODULE LruIndRefine ----------------------------
(***************************************************************************)
(* Lru.tla refines LruInd.tla.                                             *)
(*                                                                         *)
(* LruInd proves the accounting invariants for unbounded integers          *)
(* (Apalache, inductive).  This module is what makes that proof say        *)
(* something about the code: it drives the operators of Lru.tla - the      *)
(* transcription of lru.go that every recorded execution is validated      *)
(* against in LruTrace.tla - over a small universe and checks with TLC     *)
(* that every step they take is a step of the corresponding LruInd action  *)
(* under the refinement mapping                                            *)
(*                                                                         *)
(*    present = DOMAIN L.cmap       sz[k]  = Round(dsz of k's element)     *)
(*    cur     = L.cur               resv   = L.resv                        *)
(*    queued  = rounded bytes in L.evq                                     *)
(*                                                                         *)
(* so the chain is  code  --trace validation-->  Lru.tla  --this module--> *)
(* LruInd  --Apalache-->  IndInv for every max_size and every size.        *)
(***************************************************************************)
EXTENDS Integers, Sequences, FiniteSets, TLC

CONSTANTS Block, KeySet, MaxBytes, HardBytes, DiskSizes, ResvSizes, MaxElems, MaxQueue

VARIABLES L, act

INSTANCE Lru

RECURSIVE QueuedI(_, _)
QueuedI(q, i) == IF i = 0 THEN 0 ELSE Round(q[i].dsz) + QueuedI(q, i - 1)
Queued(X) == QueuedI(X.evq, Len(X.evq))

Ind == INSTANCE LruInd WITH
         Keys    <- KeySet,
         Max     <- MaxBytes,
         Hard    <- HardBytes,
         present <- DOMAIN L.cmap,
         sz      <- [k \in KeySet |-> IF k \in DOMAIN L.cmap
                                      THEN Round(L.elems[L.cmap[k]].dsz) ELSE 0],
         cur     <- L.cur,
         resv    <- L.resv,
         queued  <- Queued(L)

Init == L = NewLru(MaxBytes, HardBytes) /\ act = <<"init">>

Item(d) == [lsz |-> d, dsz |-> d, rnd |-> "", legacy |-> FALSE]

Next ==
  \/ \E k \in KeySet, d \in DiskSizes :
       LET r == AddItem(L, k, Item(d)) IN
       L' = r.L /\ act' = <<"add", k, Round(d), r.ok>>
  \/ \E s \in ResvSizes \union {-1} :
       LET r == Reserve(L, s, Queued(L)) IN
       L' = r.L /\ act' = <<"reserve", s, r.code>>
  \/ \E s \in ResvSizes \union {-1} :
       LET r == Unreserve(L, s) IN
       L' = r.L /\ act' = <<"unreserve", s, r.ok>>
  \/ \E k \in KeySet :
       L' = RemoveKey(L, k) /\ act' = <<"remove", k, k \in DOMAIN L.cmap>>
  \/ \E k \in KeySet :
       LET g == GetItem(L, k) IN L' = g.L /\ act' = <<"get", k>>
  \/ /\ Len(L.evq) > 0
     /\ L' = [L EXCEPT !.evq = Tail(@), !.vict = <<>>]
     /\ act' = <<"unlinked", Round(Head(L.evq).dsz)>>

vars == <<L, act>>
Spec == Init /\ [][Next]_vars

\* act is an observation of the last step only
View == L
Bounded == Len(L.elems) <= MaxElems /\ Len(L.evq) <= MaxQueue

\* the mapped variables, for "nothing the abstraction sees has changed"
Mapped(X) == <<DOMAIN X.cmap,
               [k \in KeySet |-> IF k \in DOMAIN X.cmap THEN Round(X.elems[X.cmap[k]].dsz) ELSE 0],
               X.cur, X.resv, Queued(X)>>
Same == Mapped(L') = Mapped(L)

\* every step of Lru.tla is the LruInd action of the same name (or changes nothing)
Refines ==
  [][ LET a == act' IN
      CASE a[1] = "add"       -> IF a[4] THEN Ind!Add(a[2], a[3]) ELSE Same
        [] a[1] = "reserve"   -> IF a[3] = 0 /\ a[2] > 0 THEN Ind!Reserve(a[2])
                                 ELSE a[3] # 500 /\ Same     \* never "failed to evict"
        [] a[1] = "unreserve" -> IF a[3] /\ a[2] > 0 THEN Ind!Unreserve(a[2]) ELSE Same
        [] a[1] = "remove"    -> IF a[3] THEN Ind!Remove(a[2]) ELSE Same
        [] a[1] = "get"       -> Same
        [] a[1] = "unlinked"  -> IF a[2] > 0 THEN Ind!Unlinked(a[2]) ELSE Same
        [] OTHER -> FALSE
    ]_vars

\* and a refused request is refused for a reason LruInd knows: its guard is false
RefusalsJustified ==
  [][ LET a == act' IN
      /\ (a[1] = "add" /\ ~a[4]) =>
            LET old == IF a[2] \in DOMAIN L.cmap THEN Round(L.elems[L.cmap[a[2]]].dsz) ELSE 0 IN
            a[3] > MaxBytes \/ L.resv + (a[3] - old) > MaxBytes
      /\ (a[1] = "reserve" /\ a[3] # 0) =>
            \/ a[2] < 0 \/ a[2] > MaxBytes \/ L.resv + a[2] > MaxBytes
            \/ (HardBytes > 0 /\ L.cur + Queued(L) + a[2] > HardBytes)
    ]_vars

IndInvHolds == Ind!IndInv /\ ~L.hang
=============================================================================
