-------------------------------- MODULE Auth --------------------------------
(***************************************************************************)
(* C13: who may call what.                                                 *)
(*                                                                         *)
(* Policy    = the property: with basic (htpasswd) or mutual-TLS           *)
(*   authentication every request needs valid credentials, except that     *)
(*   read-only requests, /status and /metrics are open when                *)
(*   allow_unauthenticated_reads is set, and the gRPC health check is      *)
(*   always open.                                                          *)
(* Mechanism = the wiring of main.go: which wrapper ends up around which   *)
(*   HTTP handler under which options (incl. endpoint metrics, which       *)
(*   re-wraps the status and cache handlers), the client-certificate       *)
(*   checks inside the cache handler, and the gRPC interceptors with their *)
(*   table of read-only methods.                                           *)
(*                                                                         *)
(* TLC checks Mechanism = Policy over the whole product and writes the     *)
(* decision table that the harness replays against the real binary.        *)
(***************************************************************************)
EXTENDS Integers, Sequences, FiniteSets, TLC, Json, IOUtils, SequencesExt

CONSTANT StatusRewrapBug,  \* TRUE: endpoint metrics replace the (wrapped) status handler by the bare one
         IdleBypassBug,    \* TRUE: the idle-timeout closure calls the bare cache handler instead of the wrapped one
         TlsExclusiveBug   \* TRUE: the gRPC interceptors for htpasswd are only installed when no TLS configuration
                           \* exists ("client certificates take precedence") - but a plain server certificate is one

AuthModes == {"none", "basic", "mtls"}

HttpMethods == {"GET", "HEAD", "PUT", "DELETE", "POST"}
HttpPaths   == {"cas", "ac", "status", "metrics"}

ReadOnlyGrpc == {"/build.bazel.remote.execution.v2.ActionCache/GetActionResult",
                 "/build.bazel.remote.execution.v2.ContentAddressableStorage/FindMissingBlobs",
                 "/build.bazel.remote.execution.v2.ContentAddressableStorage/BatchReadBlobs",
                 "/build.bazel.remote.execution.v2.ContentAddressableStorage/GetTree",
                 "/build.bazel.remote.execution.v2.Capabilities/GetCapabilities",
                 "/google.bytestream.ByteStream/Read"}
MutatingGrpc == {"/build.bazel.remote.execution.v2.ActionCache/UpdateActionResult",
                 "/build.bazel.remote.execution.v2.ContentAddressableStorage/BatchUpdateBlobs",
                 "/build.bazel.remote.execution.v2.ContentAddressableStorage/SpliceBlob",
                 "/build.bazel.remote.execution.v2.ContentAddressableStorage/SplitBlob",
                 "/google.bytestream.ByteStream/Write",
                 "/google.bytestream.ByteStream/QueryWriteStatus",
                 "/build.bazel.remote.asset.v1.Fetch/FetchBlob",
                 "/build.bazel.remote.asset.v1.Fetch/FetchDirectory",
                 "/grpc.health.v1.Health/Watch",
                 "/grpc.health.v1.Health/List",
                 "unknown"}     \* any method the table does not know: credentials always
HealthCheck == "/grpc.health.v1.Health/Check"
GrpcMethods == ReadOnlyGrpc \cup MutatingGrpc \cup {HealthCheck}
StreamingGrpc == {"/build.bazel.remote.execution.v2.ContentAddressableStorage/GetTree",
                  "/google.bytestream.ByteStream/Read", "/google.bytestream.ByteStream/Write",
                  "/grpc.health.v1.Health/Watch"}

Creds(a) == CASE a = "none"  -> {"none"}
              [] a = "basic" -> {"none", "malformed", "unknownUser", "wrongPassword", "emptyPassword", "valid"}
              [] a = "mtls"  -> {"noCert", "unknownCA", "validCert"}
ValidCred(c) == c \in {"valid", "validCert"}

\* idle: --idle_timeout > 0 puts one more closure around the (already wrapped) cache handler and an
\* interceptor in front of the gRPC ones; it must not change who gets through
\* tls: a server certificate without a client CA - transport security only, it must not change who gets through
\* either (explored without the other two options: the three are wired independently)
Configs == {c \in [auth : AuthModes, allow : BOOLEAN, metrics : BOOLEAN, idle : BOOLEAN, tls : BOOLEAN] :
              /\ c.auth = "none" => ~c.allow
              /\ c.tls => (c.auth # "mtls" /\ ~c.metrics /\ ~c.idle)}

HttpReqs == [iface : {"http"}, method : HttpMethods, path : HttpPaths]
GrpcReqs == [iface : {"grpc"}, method : GrpcMethods, path : {"-"}]
Reqs == HttpReqs \cup GrpcReqs

-----------------------------------------------------------------------------
\* Policy
\* /status and /metrics only ever read, whatever the HTTP method
ReadOnly(r) == IF r.iface = "http" THEN r.path \in {"status", "metrics"} \/ r.method \in {"GET", "HEAD"}
               ELSE r.method \in ReadOnlyGrpc

PolicyAllowed(cfg, r, cred) ==
  \/ cfg.auth = "none"
  \/ ValidCred(cred)
  \/ (r.iface = "grpc" /\ r.method = HealthCheck)
  \/ (cfg.allow /\ ReadOnly(r))

-----------------------------------------------------------------------------
\* Mechanism

\* a TLS handshake with a certificate from an unknown CA fails (VerifyClientCertIfGiven)
Handshake(cfg, cred) == ~(cfg.auth = "mtls" /\ cred = "unknownCA")

\* HTTP cache handler ("/")
MechCache(cfg, r, cred) ==
  CASE cfg.auth = "none" -> TRUE
    [] cfg.auth = "basic" ->
         IF cfg.idle /\ IdleBypassBug THEN TRUE
         ELSE IF cfg.allow THEN r.method \in {"GET", "HEAD"} \/ ValidCred(cred)     \* unauthenticatedReadWrapper
         ELSE ValidCred(cred)                                                 \* basicAuthWrapper
    [] cfg.auth = "mtls" ->
         \* checks sit inside CacheHandler, per method; other methods fall to "405" unchecked
         CASE r.method \in {"GET", "HEAD"} -> cfg.allow \/ ValidCred(cred)
           [] r.method = "PUT" -> ValidCred(cred)
           [] OTHER -> TRUE     \* answered 405: nothing is served or changed (see Served)

\* "/status": wrapped unless reads are open; endpoint metrics wrap the result again
MechStatus(cfg, r, cred) ==
  IF cfg.auth = "none" \/ cfg.allow THEN TRUE
  ELSE IF cfg.metrics /\ StatusRewrapBug THEN TRUE      \* the bare handler replaced the wrapped one
  ELSE ValidCred(cred)

\* "/metrics": a 404 stub when disabled, otherwise wrapped like /status
MechMetrics(cfg, r, cred) ==
  IF ~cfg.metrics THEN TRUE          \* the stub serves nothing (404)
  ELSE IF cfg.auth = "none" \/ cfg.allow THEN TRUE
  ELSE ValidCred(cred)

\* gRPC interceptors
MechGrpc(cfg, r, cred) ==
  IF cfg.auth = "none" THEN TRUE
  ELSE IF cfg.auth = "basic" /\ cfg.tls /\ TlsExclusiveBug THEN TRUE
  ELSE IF r.method = HealthCheck THEN TRUE            \* unary interceptors: always open
  ELSE IF cfg.allow /\ r.method \in ReadOnlyGrpc THEN TRUE
  ELSE ValidCred(cred)

MechPasses(cfg, r, cred) ==
  /\ Handshake(cfg, cred)
  /\ IF r.iface = "grpc" THEN MechGrpc(cfg, r, cred)
     ELSE CASE r.path \in {"cas", "ac"} -> MechCache(cfg, r, cred)
            [] r.path = "status" -> MechStatus(cfg, r, cred)
            [] r.path = "metrics" -> MechMetrics(cfg, r, cred)

\* does passing the mechanism serve or change anything?  Unsupported HTTP methods
\* are answered 405 (cache handler) - the status / metrics handlers ignore the method.
Served(cfg, r) ==
  IF r.iface = "http" /\ r.path \in {"cas", "ac"} THEN r.method \in {"GET", "HEAD", "PUT"}
  ELSE IF r.iface = "http" /\ r.path = "metrics" THEN cfg.metrics
  ELSE TRUE

\* The comparison: whatever gets through and is served must be allowed, and whatever is
\* allowed and servable must get through.
Cases == {x \in [cfg : Configs, req : Reqs, cred : UNION {Creds(a) : a \in AuthModes}] : x.cred \in Creds(x.cfg.auth)}

Consistent(x) ==
  LET through == MechPasses(x.cfg, x.req, x.cred) /\ Served(x.cfg, x.req)
      allowed == PolicyAllowed(x.cfg, x.req, x.cred)
  IN /\ through => allowed
     /\ (allowed /\ Served(x.cfg, x.req) /\ Handshake(x.cfg, x.cred)) => through

VARIABLE cur
Init == cur \in Cases
Next == UNCHANGED cur
Spec == Init /\ [][Next]_cur
InvMechanismIsPolicy == Consistent(cur)

\* expected observable class for the harness:
\*   "refused"  401 / Unauthenticated / failed handshake
\*   "through"  anything else (incl. 404 for an absent blob, InvalidArgument for an empty request)
\*   "inert"    the request is not served whatever the credentials (405, disabled /metrics): must not be 2xx
Expect(x) == IF ~Served(x.cfg, x.req) THEN "inert"
             ELSE IF PolicyAllowed(x.cfg, x.req, x.cred) /\ Handshake(x.cfg, x.cred) THEN "through" ELSE "refused"

Row(x) == [auth |-> x.cfg.auth, allow |-> x.cfg.allow, metrics |-> x.cfg.metrics, idle |-> x.cfg.idle, tls |-> x.cfg.tls, iface |-> x.req.iface,
           method |-> x.req.method, path |-> x.req.path, cred |-> x.cred, expect |-> Expect(x),
           streaming |-> x.req.method \in StreamingGrpc]

ASSUME "VERIF_CASES_OUT" \in DOMAIN IOEnv => JsonSerialize(IOEnv.VERIF_CASES_OUT, SetToSeq({Row(x) : x \in Cases}))
=============================================================================
