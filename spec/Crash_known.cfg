SPECIFICATION Spec
CONSTANTS
  SizeCheck = TRUE
  LoaderValidates = TRUE
INVARIANTS InvNoTornReadK InvAckedServedK InvServedCompleteK
CHECK_DEADLOCK FALSE
