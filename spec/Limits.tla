------------------------------- MODULE Limits -------------------------------
(***************************************************************************)
(* The size limits on the read side (C18, second half): no object larger   *)
(* than max_proxy_blob_size is served or cached from the backend, or       *)
(* reported present on the strength of the backend - on every path that    *)
(* can reach the backend - and GetCapabilities advertises max_blob_size.   *)
(* (The write side - max_blob_size on every ingress - is the limit         *)
(* dimension of Ingress.tla.)                                              *)
(*                                                                         *)
(* Mechanism (disk.go get / Contains / availableOrTryProxy, findmissing.go)*)
(* a pre-check on the size the caller states, and a post-check on the size *)
(* the backend reports; callers that do not know the size pass -1 and rely *)
(* on the post-check alone.                                                *)
(***************************************************************************)
EXTENDS Integers, Sequences, FiniteSets, TLC, Json, IOUtils, SequencesExt

CONSTANTS PostCheck     \* TRUE: the size reported by the backend is compared with the limit (the tree as it is)

\* paths that may consult the backend, and whether the caller knows the size
Paths == {
  [name |-> "Get",              known |-> TRUE,  kind |-> "cas", answer |-> "serve"],
  [name |-> "GetUnknown",       known |-> FALSE, kind |-> "cas", answer |-> "serve"],   \* HTTP GET /cas/<hash>
  [name |-> "ByteStreamRead",   known |-> TRUE,  kind |-> "cas", answer |-> "serve"],
  [name |-> "BatchReadBlobs",   known |-> TRUE,  kind |-> "cas", answer |-> "serve"],
  [name |-> "Contains",         known |-> TRUE,  kind |-> "cas", answer |-> "present"],
  [name |-> "ContainsUnknown",  known |-> FALSE, kind |-> "cas", answer |-> "present"], \* HTTP HEAD /cas/<hash>
  [name |-> "FindMissingBlobs", known |-> TRUE,  kind |-> "cas", answer |-> "present"],
  [name |-> "DependencyCheck",  known |-> TRUE,  kind |-> "cas", answer |-> "present"], \* a blob referenced by an action result
  [name |-> "GetActionResult",  known |-> FALSE, kind |-> "ac",  answer |-> "serve"],   \* the action result itself
  [name |-> "HttpGetAc",        known |-> FALSE, kind |-> "ac",  answer |-> "serve"],
  [name |-> "FetchBlob",        known |-> FALSE, kind |-> "cas", answer |-> "present"]  \* remote asset API, by checksum
}
Relations == {"below", "exact", "above", "far"}      \* object size = limit-1, limit, limit+1, 10 x limit
Over(r) == r \in {"above", "far"}

\* Mechanism
AsksBackend(p, r) == ~(p.known /\ Over(r))                     \* pre-check: size <= maxProxyBlobSize
Positive(p, r) == AsksBackend(p, r) /\ (PostCheck => ~Over(r)) \* post-check: foundSize <= maxProxyBlobSize
\* Policy
MayBePositive(r) == ~Over(r)
MustBePositive(r) == ~Over(r)

VARIABLE cur
Init == cur \in Paths \X Relations
Next == UNCHANGED cur
Spec == Init /\ [][Next]_cur

InvLimit == Positive(cur[1], cur[2]) <=> MustBePositive(cur[2])
\* an oversize object is not even fetched when the caller states the size
InvNoFetch == (cur[1].known /\ Over(cur[2])) => ~AsksBackend(cur[1], cur[2])

ASSUME "VERIF_CASES_OUT" \in DOMAIN IOEnv =>
          JsonSerialize(IOEnv.VERIF_CASES_OUT,
            SetToSeq({[path |-> p.name, known |-> p.known, kind |-> p.kind, relation |-> r,
                       positive |-> MustBePositive(r), asks_backend |-> AsksBackend(p, r), cached_after |-> ~Over(r) /\ p.answer = "serve"] :
                      p \in Paths, r \in Relations}))
=============================================================================
