------------------------------ MODULE LruTrace ------------------------------
(***************************************************************************)
(* Trace specification: checks traces recorded from the real code (hooks   *)
(* in cache/disk, build tag verif) against the operators of Lru.tla.       *)
(*                                                                         *)
(* One trace line = one step.  The operator of Lru.tla computes the        *)
(* successor index; every logged argument, result and scalar is then       *)
(* required to agree.  Checks are written with Chk(cond, tag) so that a    *)
(* rejection names the property and the line.  The invariants at the end   *)
(* are evaluated in every state of the matched behaviour.                  *)
(*                                                                         *)
(* Several traces are concatenated with "Reset" lines.                     *)
(***************************************************************************)
EXTENDS Lru, Json, IOUtils

Trace == ndJsonDeserialize(IOEnv.VERIF_TRACE_FILE)

VARIABLES
  l,        \* next trace line
  L,        \* the index (Lru.tla record)
  eid,      \* logged element name |-> element id of the specification
  held,     \* goroutine |-> bytes it has reserved and not yet given back
  depth,    \* goroutine |-> number of requests it is inside
  rq,       \* goroutine |-> names of the requests it is inside, innermost last
  files,    \* relative path |-> [state, owner]   (only in traces with file events)
  q,        \* entries handed to the remover and not yet unlinked, oldest first (from Queue events)
  pendq,    \* entries handed over during the index operation in progress
  evcur,    \* entry the remover has unlinked but not yet accounted (<<>> if none)
  fname,    \* element id |-> file name of its current value (FileName evaluated once, at Add)
  lost,     \* files the driver removed behind the cache's back (FileLost events)
  cnt,      \* byte counters of the removal backlog: [a, s, d, dprev, pend]
  track     \* TRUE iff this trace carries file/request events (a diskCache, not a bare SizedLRU)

vars == <<l, L, eid, held, depth, rq, files, q, pendq, evcur, cnt, track, lost, fname>>

Ev == Trace[l]

Chk(cond, tag) == IF cond THEN TRUE ELSE Assert(FALSE, <<"REJECT", tag, "line", l, Ev>>)

Get0(f, k) == IF k \in DOMAIN f THEN f[k] ELSE 0
Set(f, k, v) == (k :> v) @@ f
\* like Set, but a zero entry is dropped (keeps per-goroutine maps small)
Set0(f, k, v) == IF v = 0 THEN [x \in (DOMAIN f) \ {k} |-> f[x]] ELSE Set(f, k, v)

-----------------------------------------------------------------------------
\* file naming (cache/disk/disk.go FileLocation), relative to the cache dir
HashOf(key) == SubSeq(key, Len(key) - 63, Len(key))
KindOf(key) == SubSeq(key, 1, Len(key) - 65)
FileName(ent) ==
  LET h == HashOf(ent.key)  k == KindOf(ent.key)  hh == SubSeq(h, 1, 2) IN
  IF k = "cas" THEN
       IF ent.legacy THEN "cas.v2/" \o hh \o "/" \o h \o "-" \o ent.rnd \o ".v1"
       ELSE "cas.v2/" \o hh \o "/" \o h \o "-" \o ToString(ent.lsz) \o "-" \o ent.rnd
  ELSE IF k = "raw" THEN "raw.v2/" \o hh \o "/" \o h \o "-" \o ent.rnd
  ELSE "ac.v2/" \o hh \o "/" \o h \o "-" \o ent.rnd

Item == [lsz |-> Ev.size, dsz |-> Ev.dsz, rnd |-> Ev.rnd, legacy |-> Ev.legacy]

Scalars(LL) ==
  /\ Chk(LL.cur = Ev.cur, "C03:currentSize")
  /\ Chk(LL.resv = Ev.resv, "C03:reservedSize")
  /\ Chk(LL.unc = Ev.unc, "C03:uncompressedSize")
  /\ Chk(Cardinality(DOMAIN LL.cmap) = Ev.n, "C03:numItems")
  /\ Chk(Len(LL.ll) = Ev.ll, "C07:listLength")
  /\ Chk(~LL.hang, "C07:evictionLoopSpins")

Victims(LL) ==
  /\ Chk(Len(LL.vict) = Len(Ev.victims), "C05:evictionCount")
  /\ Chk(\A i \in DOMAIN LL.vict : Ev.victims[i] \in DOMAIN eid /\ eid[Ev.victims[i]] = LL.vict[i],
         "C05:evictionVictim")

\* configuration may be (re)set by the owner of the index between operations
Cfg(LL) == [LL EXCEPT !.max = Ev.max, !.hl = Ev.hl]

\* Removal backlog.  cnt.a / cnt.s / cnt.d: bytes ever handed over / unlinked
\* (EvictStart logged) / accounted (EvictDone logged); cnt.pend: bytes handed
\* over by the operation in progress; cnt.dprev: cnt.d at the end of the
\* previous index operation.  An index operation's event is logged when the
\* operation ends, the hand-over events when they happen (before the remover
\* can see the entry).
Min(a, b) == IF a < b THEN a ELSE b
Cnt0 == [a |-> 0, s |-> 0, d |-> 0, dprev |-> 0, pend |-> 0]
\* end of an index operation: what it queued must be what the operator queued
OpEnd(LL) ==
  /\ Chk(LL.evq = pendq, "C04:queuedForRemoval")
  /\ pendq' = <<>>
  /\ cnt' = [cnt EXCEPT !.pend = 0, !.dprev = cnt.d]
Clr(LL) == [LL EXCEPT !.evq = <<>>]

-----------------------------------------------------------------------------
IsEvent(e) == l <= Len(Trace) /\ Ev.ev = e /\ l' = l + 1

\* the request a goroutine is executing (innermost), "" outside any request (start-up scan, bare index)
RqOf(g) == IF g \in DOMAIN rq THEN rq[g] ELSE <<>>
InReq(g) == IF RqOf(g) = <<>> THEN "" ELSE RqOf(g)[Len(RqOf(g))]
\* which index operations a request may perform (Cache.tla: Put = Reserve, Unreserve, Add;
\* Contains / FindMissing = lookups only; Get = lookup, drop of a broken entry, and the fetch from the backend)
MayDo(g, what) ==
  CASE InReq(g) = "Put"         -> what \in {"Reserve", "Unreserve", "Add"}
    [] InReq(g) = "Contains"    -> what \in {"Get"}
    [] InReq(g) = "FindMissing" -> what \in {"Get"}
    [] OTHER -> TRUE

TraceReset ==
  /\ IsEvent("Reset")
  /\ L' = NewLru(Ev.max, Ev.hl)
  /\ eid' = <<>> /\ held' = <<>> /\ depth' = <<>> /\ rq' = <<>> /\ files' = <<>>
  /\ evcur' = <<>> /\ q' = <<>> /\ pendq' = <<>> /\ cnt' = Cnt0 /\ track' = Ev.track /\ lost' = {} /\ fname' = <<>>

TraceAdd ==
  /\ IsEvent("Add")
  /\ Chk(MayDo(Ev.g, "Add"), "C05:requestAddsEntry")
  /\ LET r == AddItem(Cfg(L), Ev.key, Item)
         g == Ev.g
         fn == FileName(MkEntry(Ev.key, Item))
     IN /\ Chk(r.ok = Ev.ok, "C05:addAccepted")
        /\ Scalars(r.L) /\ Victims(r.L)
        /\ L' = Clr(r.L) /\ OpEnd(r.L)
        /\ eid' = IF r.ok /\ Ev.key \in DOMAIN r.L.cmap THEN Set(eid, Ev.elem, r.L.cmap[Ev.key]) ELSE eid
        \* a request that indexes a file must have created and completed it;
        \* an Add outside any request is the start-up scan picking up a file
        /\ IF track /\ r.ok
           THEN IF Get0(depth, g) > 0
                THEN /\ Chk(fn \in DOMAIN files, "C04:indexedFileMissing")
                     /\ Chk(fn \in DOMAIN files => files[fn].state = "complete", "C08:indexedBeforeComplete")
                     /\ files' = files
                ELSE files' = Set(files, fn, [state |-> "complete", owner |-> ""])
           ELSE files' = files
        /\ fname' = IF r.ok /\ track /\ Ev.key \in DOMAIN r.L.cmap THEN Set(fname, r.L.cmap[Ev.key], fn) ELSE fname
        /\ UNCHANGED <<held, depth, rq, q, evcur, track, lost>>

TraceGet ==
  /\ IsEvent("Get")
  /\ Chk(MayDo(Ev.g, "Get"), "C05:requestCountsAsUse")      \* e.g. an upload must not refresh the recency of what it replaces
  /\ LET r == GetItem(Cfg(L), Ev.key) IN
        /\ Chk(r.hit = Ev.ok, "C07:lookupResult")
        /\ Scalars(r.L)
        /\ Chk(Ev.victims = <<>>, "C05:evictionOnLookup")
        /\ r.hit => /\ Chk(Ev.elem \in DOMAIN eid /\ eid[Ev.elem] = r.e, "C07:lookupElement")
                    /\ LET ent == r.L.elems[r.e] IN
                       Chk(ent.lsz = Ev.size /\ ent.dsz = Ev.dsz /\ ent.rnd = Ev.rnd /\ ent.legacy = Ev.legacy,
                           "C07:lookupValue")
        /\ L' = Clr(r.L) /\ OpEnd(r.L)
  /\ UNCHANGED <<eid, held, depth, rq, files, q, evcur, track, lost, fname>>

TraceReserve ==
  /\ IsEvent("Reserve")
  /\ LET LL == Cfg(L)
         g  == Ev.g
         reach == ReserveReachesTotal(LL, Ev.size)
         \* the value of queuedEvictionsSize the code read, from the total it computed
         v  == IF Ev.hastot THEN Ev.tot - LL.cur - Ev.size ELSE 0
         \* handed over before this operation, minus what may / must have been accounted when it read
         aread == cnt.a - cnt.pend
         lo == aread - Min(cnt.s, aread)
         hi == aread - cnt.dprev
         r  == Reserve(LL, Ev.size, v)
     IN /\ Chk(reach = Ev.hastot, "C17:admissionTestReached")
        /\ reach => Chk(lo <= v /\ v <= hi, "C17:deletionBacklogRead")
        /\ Chk((r.code = 0) = Ev.ok, IF r.code = 507 \/ (r.code = 0 /\ LL.hl > 0) THEN "C17:admission" ELSE "C05:reserveAccepted")
        /\ Scalars(r.L) /\ Victims(r.L)
        /\ L' = Clr(r.L) /\ OpEnd(r.L)
        /\ held' = IF r.code = 0 /\ Ev.size > 0 THEN Set0(held, g, Get0(held, g) + Ev.size) ELSE held
  /\ UNCHANGED <<eid, depth, rq, files, q, evcur, track, lost, fname>>

TraceUnreserve ==
  /\ IsEvent("Unreserve")
  /\ LET r == Unreserve(Cfg(L), Ev.size)  g == Ev.g IN
        /\ Chk(r.ok = Ev.ok, "C03:unreserveResult")
        /\ Chk(r.ok, "C03:unreserveFailed")
        /\ Chk(Ev.size > 0 => Get0(held, g) >= Ev.size, "C03:unreserveNotHeld")
        /\ Scalars(r.L)
        /\ L' = Clr(r.L) /\ OpEnd(r.L)
        /\ held' = IF r.ok /\ Ev.size > 0 THEN Set0(held, g, Get0(held, g) - Ev.size) ELSE held
  /\ UNCHANGED <<eid, depth, rq, files, q, evcur, track, lost, fname>>

\* RemoveElement / RemoveKey from outside the index (a reader dropping a broken entry)
TraceRemove ==
  /\ IsEvent("Remove")
  /\ Chk(MayDo(Ev.g, "Remove"), "C05:requestRemovesEntry")
  /\ LET LL == Cfg(L) IN
     \/ /\ Ev.victims = <<>>
        /\ Chk(Ev.key \notin DOMAIN LL.cmap, "C07:removeKeyMissed")
        /\ Scalars(LL) /\ L' = [LL EXCEPT !.vict = <<>>] /\ OpEnd(LL)
     \/ /\ Len(Ev.victims) = 1
        /\ Chk(Ev.victims[1] \in DOMAIN eid, "C07:removeUnknownElement")
        /\ LET e == eid[Ev.victims[1]]
               r == RemoveElement(LL, e) IN
           \* removing an element that is no longer the indexed one for its key
           \* is the stale-element double removal
           /\ Chk(e \in Range(LL.ll), "C07:staleElementRemoved")
           /\ Scalars(r) /\ L' = Clr(r) /\ OpEnd(r)
     \/ /\ Len(Ev.victims) > 1 /\ Chk(FALSE, "C07:removeManyVictims") /\ L' = L /\ UNCHANGED <<pendq, cnt>>
  /\ UNCHANGED <<eid, held, depth, rq, files, q, evcur, track, lost, fname>>

\* an entry is handed to the background remover (under the lock, mid-operation)
TraceQueue ==
  /\ IsEvent("Queue")
  /\ LET ent == MkEntry(Ev.key, Item) IN
     /\ q' = Append(q, ent)
     /\ pendq' = Append(pendq, ent)
     /\ cnt' = [cnt EXCEPT !.a = @ + Ev.dsz, !.pend = @ + Ev.dsz]
  /\ UNCHANGED <<L, eid, held, depth, rq, files, evcur, track, lost, fname>>

\* the background remover: unlink, then subtract from the backlog counter
TraceEvictStart ==
  /\ IsEvent("EvictStart")
  /\ Chk(evcur = <<>>, "C04:removerOverlap")
  /\ Chk(q # <<>>, "C04:removedUnqueued")
  /\ LET h == Head(q) IN
       Chk(h.key = Ev.key /\ h.rnd = Ev.rnd /\ h.dsz = Ev.dsz, "C04:removalOrder")
  /\ evcur' = <<Head(q)>>
  /\ q' = Tail(q)
  /\ cnt' = [cnt EXCEPT !.s = @ + Ev.dsz]
  /\ UNCHANGED <<L, eid, held, depth, rq, files, pendq, track, lost, fname>>

TraceEvictDone ==
  /\ IsEvent("EvictDone")
  /\ Chk(evcur # <<>> /\ evcur[1].key = Ev.key /\ evcur[1].rnd = Ev.rnd, "C04:removalDone")
  /\ evcur' = <<>>
  /\ cnt' = [cnt EXCEPT !.d = @ + Ev.dsz]
  /\ UNCHANGED <<L, eid, held, depth, rq, files, q, pendq, track, lost, fname>>

IndexedNames == {fname[L.ll[i]] : i \in DOMAIN L.ll}
QueuedNames  == {FileName(q[i]) : i \in DOMAIN q} \cup {FileName(evcur[i]) : i \in DOMAIN evcur}
\* entries whose hand-over is logged but whose index operation has not ended yet
\* are still in L
PendNames    == {FileName(pendq[i]) : i \in DOMAIN pendq}

TraceFileCreate ==
  /\ IsEvent("FileCreate")
  /\ Chk(Ev.path \notin DOMAIN files, "C04:fileCreatedTwice")
  /\ files' = Set(files, Ev.path, [state |-> "created", owner |-> Ev.g])
  /\ UNCHANGED <<L, eid, held, depth, rq, q, pendq, evcur, cnt, track, lost, fname>>

TraceFileComplete ==
  /\ IsEvent("FileComplete")
  /\ Chk(Ev.path \in DOMAIN files /\ files[Ev.path].owner = Ev.g, "C04:completeUnknownFile")
  /\ files' = [files EXCEPT ![Ev.path].state = "complete"]
  /\ UNCHANGED <<L, eid, held, depth, rq, q, pendq, evcur, cnt, track, lost, fname>>

TraceFileRemove ==
  /\ IsEvent("FileRemove")
  \* never unlink the file of an entry that is still indexed
  /\ Chk(Ev.path \in IndexedNames => Ev.path \in PendNames, "C04:indexedFileRemoved")
  /\ files' = [p \in (DOMAIN files) \ {Ev.path} |-> files[p]]
  /\ UNCHANGED <<L, eid, held, depth, rq, q, pendq, evcur, cnt, track, lost, fname>>

\* the driver removes a file behind the cache's back (a lost file, as after a
\* crash or an operator's mistake); readers must drop the entry cleanly
TraceFileLost ==
  /\ IsEvent("FileLost")
  /\ files' = [p \in (DOMAIN files) \ {Ev.path} |-> files[p]]
  /\ lost' = lost \cup {Ev.path}
  /\ UNCHANGED <<L, eid, held, depth, rq, q, pendq, evcur, cnt, track, fname>>

TraceReqBegin ==
  /\ IsEvent("ReqBegin")
  /\ depth' = Set(depth, Ev.g, Get0(depth, Ev.g) + 1)
  /\ rq' = Set(rq, Ev.g, Append(RqOf(Ev.g), Ev.op))
  /\ UNCHANGED <<L, eid, held, files, q, pendq, evcur, cnt, track, lost, fname>>

\* a request that has ended holds no reservation and no unindexed file
TraceReqEnd ==
  /\ IsEvent("ReqEnd")
  /\ LET g == Ev.g  d == Get0(depth, g) - 1 IN
     /\ Chk(d >= 0, "C14:requestEndWithoutBegin")
     /\ depth' = Set0(depth, g, d)
     /\ rq' = Set(rq, g, IF RqOf(g) = <<>> THEN <<>> ELSE SubSeq(RqOf(g), 1, Len(RqOf(g)) - 1))
     /\ d = 0 => /\ Chk(Get0(held, g) = 0, "C03:reservationLeaked")
                 /\ Chk(\A p \in DOMAIN files : files[p].owner = g => p \in IndexedNames \cup QueuedNames,
                        "C04:temporaryFileLeaked")
     /\ files' = IF d = 0 THEN [p \in DOMAIN files |-> IF files[p].owner = g THEN [files[p] EXCEPT !.owner = ""] ELSE files[p]]
                 ELSE files
  /\ UNCHANGED <<L, eid, held, q, pendq, evcur, cnt, track, lost, fname>>

\* a snapshot taken by the driver while no request is in flight: ordered keys,
\* counters and, at quiescence, the directory listing
TraceSnapshot ==
  /\ IsEvent("Snapshot")
  /\ Chk(Ev.keys = KeysInOrder(L), "C05:recencyOrder")
  /\ Scalars(L)
  /\ Chk(pendq = <<>>, "C07:operationInProgressAtSnapshot")
  \* C05: the keys the last operation hit or stored are the most recently used ones
  /\ LET U == Range(Ev.used)  n == Cardinality(U)  ks == KeysInOrder(L) IN
       Chk(n <= Len(ks) /\ {ks[i] : i \in 1..n} = U, "C05:useRefreshesRecency")
  /\ Ev.quiescent =>
       /\ Chk(L.resv = 0, "C03:reservedAtQuiescence")
       /\ Chk(q = <<>> /\ evcur = <<>>, "C04:removalBacklogAtQuiescence")
       /\ Ev.hasdir =>
            /\ Chk({Ev.dir[i].path : i \in DOMAIN Ev.dir} = IndexedNames \ lost, "C04:directoryEqualsIndex")
            /\ Chk(\A i \in DOMAIN Ev.dir : \A j \in DOMAIN L.ll :
                     (fname[L.ll[j]] = Ev.dir[i].path /\ Ev.dir[i].path \notin Range(Ev.damaged))
                        => L.elems[L.ll[j]].dsz = Ev.dir[i].size,
                   "C04:fileSize")
            /\ Chk(DOMAIN files = IndexedNames \ lost, "C04:trackedFilesEqualIndex")
  /\ UNCHANGED <<L, eid, held, depth, rq, files, q, pendq, evcur, cnt, track, lost, fname>>

TraceNote ==
  /\ IsEvent("Note")
  /\ UNCHANGED <<L, eid, held, depth, rq, files, q, pendq, evcur, cnt, track, lost, fname>>

TraceInit ==
  /\ l = 1 /\ L = NewLru(0, 0) /\ eid = <<>> /\ held = <<>> /\ depth = <<>> /\ rq = <<>> /\ files = <<>>
  /\ evcur = <<>> /\ q = <<>> /\ pendq = <<>> /\ cnt = Cnt0 /\ track = FALSE /\ lost = {} /\ fname = <<>>

TraceNext ==
  \/ TraceReset \/ TraceAdd \/ TraceGet \/ TraceReserve \/ TraceUnreserve \/ TraceRemove
  \/ TraceQueue \/ TraceEvictStart \/ TraceEvictDone \/ TraceFileCreate \/ TraceFileComplete \/ TraceFileRemove
  \/ TraceFileLost \/ TraceReqBegin \/ TraceReqEnd \/ TraceSnapshot \/ TraceNote

TraceSpec == TraceInit /\ [][TraceNext]_vars

-----------------------------------------------------------------------------
\* evaluated in every state of the matched behaviour
RECURSIVE SumF(_, _)
SumF(f, S) == IF S = {} THEN 0 ELSE LET x == CHOOSE x \in S : TRUE IN f[x] + SumF(f, S \ {x})

InvAccounting == AccountingExact(L)            \* C03
InvLogical    == LogicalExact(L)               \* C03
InvWithinMax  == L.max > 0 => WithinMax(L)     \* C03
InvReserved   == L.resv = SumF(held, DOMAIN held)  \* C03: reserved bytes = what in-flight requests hold
InvMapList    == MapListConsistent(L)          \* C07
InvCount      == CountExact(L)                 \* C03
\* C04: no indexed entry lacks its file (entries whose hand-over to the remover is
\* already logged while their index operation has not ended are still in L)
\* (implied by the step checks indexedFileMissing / indexedFileRemoved; kept for
\* reference and for small traces, not listed in LruTrace.cfg because evaluating
\* it in every state is quadratic in the number of entries)
InvFiles      == track => (IndexedNames \ (PendNames \cup lost)) \subseteq DOMAIN files

TraceAccepted == TLCGet("stats").diameter - 1 = Len(Trace)
=============================================================================
