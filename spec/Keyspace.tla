------------------------------ MODULE Keyspace ------------------------------
(***************************************************************************)
(* C15: the CAS, the validated action cache (AC) and the raw action cache  *)
(* (RAW, used by HTTP when AC validation is disabled) are independent      *)
(* namespaces; with AC key instance mangling the action key is combined    *)
(* with the instance name - identically for the HTTP path prefix and the   *)
(* gRPC instance_name field - and never for the CAS.                       *)
(*                                                                         *)
(* The store is a map (namespace, effective key) |-> value.  Each front-end *)
(* operation names a namespace and a key *as the client sees them*; the    *)
(* two functions below say where it lands.  TLC enumerates all histories   *)
(* of up to MaxOps writes and emits, for each, what every read through     *)
(* every front end and instance must return.                               *)
(***************************************************************************)
EXTENDS Integers, Sequences, FiniteSets, TLC, Json, IOUtils, SequencesExt

CONSTANTS Mangle,      \* enable_ac_key_instance_mangling
          Validate,    \* HTTP AC validation (off: HTTP /ac/ is the RAW namespace)
          MaxOps

Insts == {"", "I1", "I2"}          \* no instance, two different instances
Fronts == {"http", "grpc"}

\* where a client-visible (front, kind) lands
Ns(front, kind) == IF kind = "cas" THEN "cas"
                   ELSE IF front = "http" /\ ~Validate THEN "raw" ELSE "ac"
\* the effective key: instance mangling applies to action keys only
EKey(kind, inst) == IF kind = "ac" /\ Mangle /\ inst # "" THEN inst ELSE ""

\* a write: action result through a front end under an instance, or a CAS blob
\* (one hash throughout: the same 64-hex key is used in every namespace)
Writes == [kind : {"ac"}, front : Fronts, inst : Insts] \cup [kind : {"cas"}, front : Fronts, inst : Insts]

VARIABLES hist, store
vars == <<hist, store>>

Slots == {"cas", "ac", "raw"} \X Insts

Init == hist = <<>> /\ store = [s \in Slots |-> 0]
Do(w) == /\ Len(hist) < MaxOps
         /\ hist' = Append(hist, w)
         /\ store' = [store EXCEPT ![<<Ns(w.front, w.kind), EKey(w.kind, w.inst)>>] = Len(hist) + 1]
Next == \E w \in Writes : Do(w)
Spec == Init /\ [][Next]_vars

\* what a read must return: the index of the write whose value is served, 0 = miss
Read(front, kind, inst) == store[<<Ns(front, kind), EKey(kind, inst)>>]

\* namespaces never bleed into each other; without mangling the instance is irrelevant;
\* with mangling two different instances never share an entry; both front ends agree
InvIsolation ==
  /\ \A i \in Insts : Read("grpc", "cas", i) = Read("http", "cas", i) /\ Read("grpc", "cas", i) = Read("grpc", "cas", "")
  /\ ~Mangle => \A f \in Fronts, i \in Insts : Read(f, "ac", i) = Read(f, "ac", "")
  /\ Validate => \A i \in Insts : Read("http", "ac", i) = Read("grpc", "ac", i)
  /\ \A k \in 1..Len(hist) : hist[k].kind = "cas" => \A f \in Fronts, i \in Insts : Read(f, "ac", i) # k
  /\ \A k \in 1..Len(hist) : hist[k].kind = "ac" => Read("grpc", "cas", "") # k
  /\ Mangle => \A k \in 1..Len(hist) : hist[k].kind = "ac" =>
        \A f \in Fronts, i \in Insts : (Read(f, "ac", i) = k) => (i = hist[k].inst)

\* an existence check (HTTP HEAD of /cas/ and /ac/, FindMissingBlobs) names the same entry as the read does
Exists(front, kind, inst) == Read(front, kind, inst) # 0
InvExistsAgrees == \A f \in Fronts, k \in {"ac", "cas"}, i \in Insts : Exists(f, k, i) <=> store[<<Ns(f, k), EKey(k, i)>>] # 0

Reads == [f \in Fronts |-> [k \in {"ac", "cas"} |-> [i \in Insts |-> Read(f, k, i)]]]
PrintFinal == (Len(hist) = MaxOps /\ "VERIF_PRINT" \in DOMAIN IOEnv) =>
                 PrintT(<<"CASE", ToJson([hist |-> hist, reads |-> Reads, mangle |-> Mangle, validate |-> Validate])>>)
=============================================================================
