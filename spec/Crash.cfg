SPECIFICATION Spec
CONSTANTS
  SizeCheck = TRUE
  LoaderValidates = FALSE
INVARIANTS InvNoTornRead InvAckedServed InvServedComplete
CHECK_DEADLOCK FALSE
