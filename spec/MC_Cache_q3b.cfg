SPECIFICATION Spec
CONSTANTS
  Block = 2
  Procs = {p1, p2}
  Keys = {k1}
  Items <- ItemsOne
  MaxSize = 4
  HardLimit = 0
  MaxOps = 2
  CorruptInit = TRUE
  StaleFix = TRUE
  WithCrash = FALSE
  CreateMayFail = TRUE
  WithBackend = TRUE
INVARIANTS InvAccounting InvLogical InvWithinMax InvReserved InvQuiescentResv InvNoHang InvMapList InvDirEqualsIndex InvIndexedHasFile InvBacklog InvLruOrder InvWholeValue
PROPERTIES EvictsOnlyUnderPressure
CONSTRAINT StateConstraint
VIEW View
CHECK_DEADLOCK FALSE
