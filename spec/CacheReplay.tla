---------------------------- MODULE CacheReplay -----------------------------
(***************************************************************************)
(* Behaviours of Cache.tla for replay into the real code (DESIGN 4.2).     *)
(*                                                                         *)
(* Cache.tla with a history variable: every step is logged with the        *)
(* goroutine, the name of the action and the projection of the state the   *)
(* step leads to.  TLC's simulation mode produces behaviours; at the end   *)
(* of each behaviour (every goroutine has issued its requests, the remover *)
(* is idle) the history is printed as JSON.  The harness (vh sched) steps  *)
(* the real disk cache through the same schedule - one goroutine per       *)
(* model goroutine, held at the verif gates that delimit the model's       *)
(* actions - and compares the projection after every step.                 *)
(*                                                                         *)
(* The key k1 is a compressed CAS blob (one content, hence one item; it is *)
(* the key of the initially unreadable file), k2 an action-cache key       *)
(* (any content, logical size = size on disk).                             *)
(***************************************************************************)
EXTENDS MC_Cache, Json, IOUtils

VARIABLE hist

ItemCas == [lsz |-> 1, dsz |-> 2]
ItemsReplay == {ItemCas, [lsz |-> 1, dsz |-> 1], [lsz |-> 3, dsz |-> 3]}
AllowedItems(k) == IF ToString(k) = "k1" THEN {ItemCas} ELSE ItemsReplay \ {ItemCas}

Obs ==
  [idx   |-> [i \in DOMAIN lru.ll |-> LET e == lru.elems[lru.ll[i]] IN
                                      [key |-> ToString(e.key), lsz |-> e.lsz, dsz |-> e.dsz, fid |-> e.rnd]],
   cur   |-> lru.cur, resv |-> lru.resv, unc |-> lru.unc,
   evq   |-> [i \in DOMAIN lru.evq |-> lru.evq[i].rnd],
   evcur |-> IF evstage = "idle" THEN 0 ELSE evcur[1].rnd,
   evstage |-> evstage,
   files |-> {[fid |-> f, key |-> ToString(files[f].key), state |-> files[f].state, dsz |-> files[f].dsz] : f \in DOMAIN files},
   pc    |-> [p \in Procs |-> pc[p]],
   res   |-> [p \in Procs |-> [res |-> loc[p].res, rcid |-> loc[p].rcid]]]

NoOp == [op |-> "none", key |-> "", item |-> [lsz |-> 0, dsz |-> 0], known |-> FALSE, cid |-> 0]
Log(p, a) ==
  hist' = Append(hist, [p |-> ToString(p), act |-> a,
                        op |-> [op |-> loc'[p].op, key |-> ToString(loc'[p].key), item |-> loc'[p].item,
                                known |-> loc'[p].known, cid |-> loc'[p].cid],
                        obs |-> Obs'])
LogR(a) == hist' = Append(hist, [p |-> "remover", act |-> a, op |-> NoOp, obs |-> Obs'])

RInit == /\ Init /\ hist = <<>>
         /\ CorruptInit => (ToString(files[1].key) = "k1" /\ files[1].lsz = ItemCas.lsz /\ files[1].dsz = ItemCas.dsz)

RRequest(p) ==
  \/ (StartPut(p) /\ loc'[p].item \in AllowedItems(loc'[p].key) /\ Log(p, "StartPut"))
  \/ (StartGet(p) /\ Log(p, "StartGet"))
  \/ (StartContains(p) /\ Log(p, "StartContains"))
  \/ (PutReserve(p) /\ Log(p, "PutReserve")) \/ (PutCreate(p) /\ Log(p, "PutCreate"))
  \/ (PutWrite(p) /\ Log(p, "PutWrite")) \/ (PutCommit(p) /\ Log(p, "PutCommit"))
  \/ (PutCleanup(p) /\ Log(p, "PutCleanup")) \/ (ReqUnreserve(p) /\ Log(p, "ReqUnreserve"))
  \/ (GetLookup(p) /\ Log(p, "GetLookup")) \/ (GetOpen(p) /\ Log(p, "GetOpen"))
  \/ (GetSlow(p) /\ Log(p, "GetSlow")) \/ (GetHeader(p) /\ Log(p, "GetHeader"))
  \/ (GetDrop(p) /\ Log(p, "GetDrop")) \/ (ContainsLookup(p) /\ Log(p, "ContainsLookup"))
  \/ (GetPrereserve(p) /\ Log(p, "GetPrereserve")) \/ (GetProxy(p) /\ Log(p, "GetProxy"))
  \/ (GetFetch(p) /\ Log(p, "GetFetch")) \/ (GetCommit(p) /\ Log(p, "GetCommit"))

REvictor == \/ (EvictTake /\ LogR("EvictTake"))
            \/ (EvictUnlink /\ LogR("EvictUnlink"))
            \/ (EvictAccount /\ LogR("EvictAccount"))

RNext == (\E p \in Procs : RRequest(p)) \/ REvictor
RSpec == RInit /\ [][RNext]_<<vars, hist>>

Done == (\A p \in Procs : pc[p] = "idle" /\ ops[p] = 0) /\ lru.evq = <<>> /\ evstage = "idle"

\* the initial state, for the harness to set up
InitObs == [corrupt |-> CorruptInit, max |-> MaxSize, block |-> Block, backend |-> WithBackend]

PrintDone == Done => PrintT(<<"CASE", ToJson([init |-> InitObs, steps |-> hist])>>)

\* the invariants of Cache.tla hold along the replayed behaviours as well
=============================================================================
