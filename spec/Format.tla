------------------------------- MODULE Format -------------------------------
(***************************************************************************)
(* The published v2 storage format (README "Storage format", casblob.go,   *)
(* disk.go FileLocation, load.go, *proxy object naming) as one definition: *)
(*                                                                         *)
(*  - the CAS blob header, byte for byte, as a function of its fields      *)
(*    (HeaderBytes) with its inverse (ParseHeader) and well-formedness;    *)
(*  - the name of the file of an entry in the cache directory;             *)
(*  - the object / URL / resource name of an entry in each kind of backend.*)
(*                                                                         *)
(* C20.  TLC checks on this module that parsing inverts rendering, that    *)
(* well-formed headers determine the position of every chunk, and that the *)
(* naming functions are injective.  The module is bound to the code in     *)
(* three ways (runner: format_check):                                      *)
(*   render   - the harness supplies field values of real encodings        *)
(*              (VERIF_PARAMS_IN), this module lays out the header bytes   *)
(*              (VERIF_HEADERS_OUT) and the real readers must serve files  *)
(*              that start with exactly those bytes;                       *)
(*   validate - headers of files the real writer produced are recorded     *)
(*              (VERIF_TRACE_FILE) and must be ParseHeader-able, well      *)
(*              formed, and re-render to the identical bytes;              *)
(*   names    - the table of names (VERIF_CASES_OUT) is compared with the  *)
(*              names the real code uses on disk and sends to recording    *)
(*              backends.                                                  *)
(***************************************************************************)
EXTENDS Integers, Sequences, FiniteSets, TLC, Json, IOUtils, SequencesExt

CONSTANTS Mode   \* "model" | "render" | "validate"

--------------------------------------------------------------------------
(* Little-endian fields.  TLC integers are 32 bit: values are < 2^31, the  *)
(* upper half of an 8-byte field is zero in every file of the experiments. *)
P256(i) == CASE i = 0 -> 1 [] i = 1 -> 256 [] i = 2 -> 65536 [] i = 3 -> 16777216
LE(v, n) == [i \in 1..n |-> IF i <= 4 THEN (v \div P256(i - 1)) % 256 ELSE 0]
FromLE(b) == b[1] + 256 * b[2] + 65536 * b[3] + 16777216 * b[4]
InRange(b) == b[4] < 128 /\ \A i \in 5..Len(b) : b[i] = 0

Magic == 407710288             \* 0x184D2A50, a zstd skippable-frame magic number
TableOffset == 4 + 4 + 8 + 1 + 4 + 8
Identity == 0
Zstandard == 1

RECURSIVE Flatten(_)
Flatten(ss) == IF ss = <<>> THEN <<>> ELSE Head(ss) \o Flatten(Tail(ss))

\* h = [usize, ctype, csize, offsets]; offsets has one entry per chunk plus the file size
HeaderLen(h) == TableOffset + 8 * Len(h.offsets)
HeaderBytes(h) ==
    LE(Magic, 4)
 \o LE(HeaderLen(h) - 8, 4)                       \* frame size: what follows these two fields
 \o LE(h.usize, 8) \o <<h.ctype>> \o LE(h.csize, 4)
 \o LE(Len(h.offsets), 8)
 \o Flatten([i \in 1..Len(h.offsets) |-> LE(h.offsets[i], 8)])

Field(b, from, n) == SubSeq(b, from, from + n - 1)
Parsable(b) ==
    /\ Len(b) >= TableOffset + 16
    /\ FromLE(Field(b, 1, 4)) = Magic
    /\ InRange(Field(b, 9, 8)) /\ InRange(Field(b, 22, 8))
    /\ LET k == FromLE(Field(b, 22, 8)) IN
         /\ k >= 2
         /\ Len(b) >= TableOffset + 8 * k
         /\ \A i \in 1..k : InRange(Field(b, TableOffset + 8 * (i - 1) + 1, 8))
ParseHeader(b) ==
    LET k == FromLE(Field(b, 22, 8)) IN
    [usize |-> FromLE(Field(b, 9, 8)), ctype |-> b[17], csize |-> FromLE(Field(b, 18, 4)),
     offsets |-> [i \in 1..k |-> FromLE(Field(b, TableOffset + 8 * (i - 1) + 1, 8))]]
FrameSize(b) == FromLE(Field(b, 5, 4))

\* an Identity file holds the blob verbatim as its single chunk, whatever chunk size the header states
NumChunks(h) == IF h.ctype = Identity THEN 1 ELSE (h.usize + h.csize - 1) \div h.csize
WellFormed(h, fileSize) ==
    /\ h.usize > 0 /\ h.csize > 0
    /\ h.ctype \in {Identity, Zstandard}
    /\ Len(h.offsets) = NumChunks(h) + 1
    /\ h.offsets[1] = HeaderLen(h)                                  \* data starts right after the header
    /\ \A i \in 1..Len(h.offsets) - 1 : h.offsets[i] < h.offsets[i + 1]
    /\ h.offsets[Len(h.offsets)] = fileSize
\* chunk c (0-based) occupies file bytes [offsets[c+1], offsets[c+2]) and decodes to
\* csize bytes, the last one to the remainder
ChunkLogicalLen(h, c) == IF c < NumChunks(h) - 1 THEN h.csize ELSE h.usize - h.csize * (NumChunks(h) - 1)
\* an Identity chunk is stored as it is
IdentityStored(h) == h.ctype = Identity => h.offsets[2] - h.offsets[1] = h.usize

--------------------------------------------------------------------------
(* Names *)
Kinds == {"cas", "ac", "raw"}
Modes == {"zstd", "uncompressed"}
HH(hash) == SubSeq(hash, 1, 2)

\* directory entry; `legacy` = uncompressed CAS blob (".v1"), written in uncompressed mode
\* (sizes are passed as decimal strings so that the table below can carry a placeholder)
FileName(kind, hash, size, legacy, suffix) ==
    CASE kind = "cas" /\ ~legacy -> "cas.v2/" \o HH(hash) \o "/" \o hash \o "-" \o size \o "-" \o suffix
      [] kind = "cas" /\ legacy  -> "cas.v2/" \o HH(hash) \o "/" \o hash \o "-" \o suffix \o ".v1"
      [] OTHER                   -> kind \o ".v2/" \o HH(hash) \o "/" \o hash \o "-" \o suffix
WrittenLegacy(kind, mode) == kind = "cas" /\ mode = "uncompressed"

Join(prefix, rest) == IF prefix = "" THEN rest ELSE prefix \o "/" \o rest
\* S3 and Azure object keys are built with path.Join, which cleans the result: a trailing slash, a doubled
\* slash or a leading "./" in the configured prefix does not change the keys (buckets written with
\* --s3.prefix=team/ hold team/cas.v2/...).  CleanPrefix is path.Clean on the prefixes of the experiments.
CleanPrefix(p) == CASE p = "p/" -> "p" [] p = "a//b" -> "a/b" [] p = "./a" -> "a" [] OTHER -> p
ObjectKey(prefix, kind, hash, mode) ==
    Join(CleanPrefix(prefix), (IF kind = "cas" /\ mode = "zstd" THEN "cas.v2" ELSE kind) \o "/" \o HH(hash) \o "/" \o hash)
\* Azure blob names: the backend puts the configured prefix - as configured, not cleaned - in front of the object
\* key, which already starts with the (cleaned) prefix.  With --azblob.prefix=team the blobs of every 2.x
\* release are team/team/cas.v2/...: odd, but that is where deployed containers hold their data, so that is
\* what "stays compatible" means here.
AzureBlobName(prefix, kind, hash, mode) == Join(prefix, ObjectKey(prefix, kind, hash, mode))
\* HTTP backend: path below the configured base URL
HttpPath(kind, hash, mode) == "/" \o (IF kind = "cas" /\ mode = "zstd" THEN "cas.v2" ELSE kind) \o "/" \o hash
\* gRPC backend: REAPI has no raw key space, raw entries travel as action results (a deliberate
\* identification in grpcproxy.go).  Reads name "<template>/hash/size", writes "uploads/<uuid>/<template>/hash/size".
GrpcSpace(kind) == IF kind = "cas" THEN "cas" ELSE "ac"
GrpcTemplate(mode) == IF mode = "zstd" THEN "compressed-blobs/zstd" ELSE "blobs"
GrpcRead(kind, hash, size, mode) ==
    IF kind = "cas" THEN [method |-> "ByteStream.Read", name |-> GrpcTemplate(mode) \o "/" \o hash \o "/" \o size]
    ELSE [method |-> "GetActionResult", name |-> hash]
GrpcWrite(kind, hash, size, mode) ==
    IF kind = "cas" THEN [method |-> "ByteStream.Write", name |-> "uploads/UUID/" \o GrpcTemplate(mode) \o "/" \o hash \o "/" \o size]
    ELSE [method |-> "UpdateActionResult", name |-> hash]

--------------------------------------------------------------------------
(* model mode: small exhaustive checks *)
CONSTANTS Hashes, PrefixSet, SuffixSet, MaxUsize, MaxCsize, MaxFrame

\* every way of storing usize bytes in chunks of csize with frames of 1..MaxFrame bytes
RECURSIVE OffsetTables(_, _)
OffsetTables(k, start) ==     \* k chunks left, first one at `start`
    IF k = 0 THEN {<<start>>}
    ELSE UNION {{<<start>> \o t : t \in OffsetTables(k - 1, start + f)} : f \in 1..MaxFrame}
ModelHeaders ==
    UNION {{[usize |-> n, ctype |-> Zstandard, csize |-> K, offsets |-> o] :
              o \in OffsetTables((n + K - 1) \div K, TableOffset + 8 * ((n + K - 1) \div K + 1))} :
           n \in 1..MaxUsize, K \in 1..MaxCsize}
    \cup {[usize |-> n, ctype |-> Identity, csize |-> K, offsets |-> <<TableOffset + 16, TableOffset + 16 + n>>] :
           n \in 1..MaxUsize, K \in 1..MaxCsize}

Entries == Kinds \X Hashes
Configs == Modes \X PrefixSet

VARIABLE cur
vars == <<cur>>

Params == IF Mode = "render" THEN ndJsonDeserialize(IOEnv.VERIF_PARAMS_IN) ELSE <<>>
Recorded == IF Mode = "validate" THEN ndJsonDeserialize(IOEnv.VERIF_TRACE_FILE) ELSE <<>>

Init == CASE Mode = "model"    -> cur \in ModelHeaders
          [] Mode = "render"   -> cur \in 1..Len(Params)
          [] Mode = "validate" -> cur \in 1..Len(Recorded)
Next == UNCHANGED cur
Spec == Init /\ [][Next]_vars

\* -- model invariants
InvRoundTrip == Mode = "model" =>
    LET b == HeaderBytes(cur) IN
    /\ Len(b) = HeaderLen(cur)
    /\ Parsable(b)
    /\ ParseHeader(b) = cur
    /\ FrameSize(b) = Len(b) - 8                         \* a zstd decoder skips exactly the header
    /\ WellFormed(cur, cur.offsets[Len(cur.offsets)])
    /\ IdentityStored(cur)
    /\ cur.ctype = Zstandard => \A c \in 0..NumChunks(cur) - 1 : ChunkLogicalLen(cur, c) \in 1..cur.csize
    /\ cur.usize = cur.csize * (NumChunks(cur) - 1) + ChunkLogicalLen(cur, NumChunks(cur) - 1)

\* the naming functions are injective (checked once, they do not depend on cur)
Injective(f, S) == \A a, b \in S : f[a] = f[b] => a = b
NamesInjective ==
    /\ \A m \in Modes : \A sz \in {"1", "10"} :
         Injective([e \in Entries |-> FileName(e[1], e[2], sz, WrittenLegacy(e[1], m), "S")], Entries)
    \* a compressed and a legacy file of the same blob never share a name
    /\ \A h \in Hashes, s \in SuffixSet : FileName("cas", h, "1", FALSE, s) # FileName("cas", h, "1", TRUE, s)
    /\ \A p \in PrefixSet :
         Injective([x \in Entries \X Modes |-> IF x[1][1] = "cas" THEN ObjectKey(p, x[1][1], x[1][2], x[2])
                                               ELSE ObjectKey(p, x[1][1], x[1][2], "any")],
                   {x \in Entries \X Modes : x[1][1] = "cas" \/ x[2] = "zstd"})
    /\ Injective([x \in Entries \X Modes |-> IF x[1][1] = "cas" THEN HttpPath(x[1][1], x[1][2], x[2])
                                             ELSE HttpPath(x[1][1], x[1][2], "any")],
                 {x \in Entries \X Modes : x[1][1] = "cas" \/ x[2] = "zstd"})
    /\ \A m \in Modes :
         \A a, b \in Entries : GrpcRead(a[1], a[2], "1", m) = GrpcRead(b[1], b[2], "1", m)
                                  => (GrpcSpace(a[1]) = GrpcSpace(b[1]) /\ a[2] = b[2])
    /\ \A h \in Hashes : GrpcRead("cas", h, "1", "zstd") # GrpcRead("cas", h, "1", "uncompressed")
    /\ \A h \in Hashes : GrpcWrite("cas", h, "1", "zstd") # GrpcWrite("cas", h, "1", "uncompressed")
ASSUME Mode = "model" => NamesInjective

\* -- render mode: header bytes for the harness's encodings
RenderOne(p) == [id |-> p.id, bytes |-> HeaderBytes([usize |-> p.usize, ctype |-> p.ctype, csize |-> p.csize, offsets |-> p.offsets])]
ASSUME (Mode = "render" /\ "VERIF_HEADERS_OUT" \in DOMAIN IOEnv) =>
          JsonSerialize(IOEnv.VERIF_HEADERS_OUT, [i \in 1..Len(Params) |-> RenderOne(Params[i])])
InvRenderable == Mode = "render" =>
    LET p == Params[cur]
        h == [usize |-> p.usize, ctype |-> p.ctype, csize |-> p.csize, offsets |-> p.offsets] IN
    WellFormed(h, p.filesize) /\ IdentityStored(h) /\ ParseHeader(HeaderBytes(h)) = h

\* -- validate mode: recorded files of the real writer
\* line: [name |-> relative file name, hash, namesize (size field of the name), filesize, chunksize (expected),
\*        head |-> the first bytes of the file (at least the header)]
Rej(cond, tag) == IF cond THEN TRUE ELSE Assert(FALSE, <<"REJECT", tag, "line", cur, Recorded[cur].name>>)
InvRecorded == Mode = "validate" =>
    LET r == Recorded[cur] IN
    /\ Rej(Parsable(r.head), "C20:headerNotParsable")
    /\ LET h == ParseHeader(r.head) IN
         /\ Rej(SubSeq(r.head, 1, HeaderLen(h)) = HeaderBytes(h), "C20:headerBytesDiffer")
         /\ Rej(FrameSize(r.head) = HeaderLen(h) - 8, "C20:frameSize")
         /\ Rej(WellFormed(h, r.filesize), "C20:headerNotWellFormed")
         /\ Rej(h.usize = r.namesize, "C20:sizeInNameDiffers")
         /\ Rej(h.ctype = Zstandard, "C20:compressionType")
         /\ Rej(h.csize = r.chunksize, "C20:chunkSize")
         /\ Rej(r.name = FileName("cas", r.hash, ToString(h.usize), FALSE, r.suffix), "C20:fileName")

--------------------------------------------------------------------------
(* names table for the harness: placeholders HHASH / HH / SSIZE / SUFFIX / UUID are substituted there *)
NameRow(kind, mode, prefix) ==
    [kind |-> kind, mode |-> mode, prefix |-> prefix,
     file |-> FileName(kind, "HHASH", "SSIZE", WrittenLegacy(kind, mode), "SUFFIX"),
     file_other |-> IF kind = "cas" THEN FileName(kind, "HHASH", "SSIZE", ~WrittenLegacy(kind, mode), "SUFFIX") ELSE "",
     object |-> ObjectKey(prefix, kind, "HHASH", mode),
     azure |-> AzureBlobName(prefix, kind, "HHASH", mode),
     http |-> HttpPath(kind, "HHASH", mode),
     grpc_read |-> GrpcRead(kind, "HHASH", "SSIZE", mode),
     grpc_write |-> GrpcWrite(kind, "HHASH", "SSIZE", mode)]
ASSUME (Mode = "model" /\ "VERIF_CASES_OUT" \in DOMAIN IOEnv) =>
          JsonSerialize(IOEnv.VERIF_CASES_OUT, SetToSeq({NameRow(k, m, p) : k \in Kinds, m \in Modes, p \in PrefixSet}))
=============================================================================
