SPECIFICATION Spec
CONSTANTS PostCheck = FALSE
INVARIANTS InvLimit InvNoFetch
