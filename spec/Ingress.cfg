SPECIFICATION Spec
INVARIANT InvMechanism
CHECK_DEADLOCK FALSE
