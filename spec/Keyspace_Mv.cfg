SPECIFICATION Spec
CONSTANTS
  Mangle = TRUE
  Validate = FALSE
  MaxOps = 3
INVARIANTS InvIsolation PrintFinal
CHECK_DEADLOCK FALSE
