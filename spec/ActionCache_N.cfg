SPECIFICATION ASpec
CONSTANT TrustUpload = FALSE
CONSTANT WithBackend = FALSE
INVARIANTS InvStoredValid InvLatestWins
PROPERTY DeinlinedInCas
CHECK_DEADLOCK FALSE
