SPECIFICATION ASpec
CONSTANT WithBackend = FALSE
INVARIANTS InvStoredValid InvLatestWins
CHECK_DEADLOCK FALSE
