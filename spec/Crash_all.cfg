SPECIFICATION Spec
CONSTANTS
  SizeCheck = TRUE
  LoaderValidates = TRUE
INVARIANTS InvNoTornRead InvAckedServed InvServedComplete
CHECK_DEADLOCK FALSE
