SPECIFICATION Spec
CONSTANTS
  MaxLen = 4
  BatchSize = 2
  Workers = {w1, w2}
  WithBackend = TRUE
  FailFast = TRUE
  Recheck = FALSE
INVARIANTS InvExact InvFailFast
PROPERTY Terminates
CHECK_DEADLOCK FALSE
