SPECIFICATION Spec
CONSTANTS
  Mangle = FALSE
  Validate = TRUE
  MaxOps = 3
INVARIANTS InvIsolation PrintFinal
CHECK_DEADLOCK FALSE
