------------------------------ MODULE CasBlob ------------------------------
(***************************************************************************)
(* The chunked CAS blob file (cache/disk/casblob/casblob.go) and its       *)
(* readers.  A blob of n bytes is stored as ceil(n / K) independently      *)
(* compressed chunks of K bytes (the last one shorter) behind a header     *)
(* with the chunk offset table.  A read at logical offset `off` is served  *)
(* by seeking to a chunk and, if the offset is not chunk-aligned, decoding *)
(* that chunk and dropping the first bytes of it.                          *)
(*                                                                         *)
(* C02: every successful read delivers exactly bytes [off, n) - for the    *)
(* plain reader as is, for the zstd reader after decoding - for all n, K,  *)
(* off.  The readers are written here operationally, step for step like    *)
(* the Go code, and compared with the one-line definition of the property. *)
(***************************************************************************)
EXTENDS Integers, Sequences, FiniteSets, TLC, Json, IOUtils, SequencesExt

CONSTANTS MaxN, MaxK,
          LastTest    \* "index": chunkNum = number of chunks - 1 (the code);
                      \* "remaining": the rest of the blob fits in the decoded chunk (a tempting simplification)

Content(n) == [i \in 1..n |-> i]                    \* byte i carries the value i
NumChunks(n, K) == (n + K - 1) \div K
Chunk(n, K, c) == SubSeq(Content(n), c * K + 1, IF (c + 1) * K < n THEN (c + 1) * K ELSE n)   \* c = 0, 1, ...

\* frames c, c+1, ... decoded and concatenated (what streaming the file from a chunk boundary yields)
RECURSIVE FramesFrom(_, _, _)
FramesFrom(n, K, c) == IF c >= NumChunks(n, K) THEN <<>> ELSE Chunk(n, K, c) \o FramesFrom(n, K, c + 1)

Drop(s, k) == SubSeq(s, k + 1, Len(s))

\* GetUncompressedReadCloser / GetZstdReadCloser (after decoding), offset `off` < n
Read(n, K, off) ==
  LET chunkNum == off \div K
      rem      == off % K
  IN IF rem = 0
     THEN FramesFrom(n, K, chunkNum)                      \* seek to table[chunkNum], stream
     ELSE LET first == Chunk(n, K, chunkNum)              \* read and decode exactly one chunk
              rest  == Drop(first, rem)
              last  == IF LastTest = "index" THEN chunkNum = NumChunks(n, K) - 1
                       ELSE n - off <= Len(first)
          IN IF last THEN rest                            \* the file is closed, only this chunk is served
             ELSE rest \o FramesFrom(n, K, chunkNum + 1)  \* followed by the remaining frames

Expected(n, off) == SubSeq(Content(n), off + 1, n)

Cases == {c \in [n : 1..MaxN, K : 1..MaxK, off : 0..MaxN] : c.off < c.n}

VARIABLE cur
Init == cur \in Cases
Next == UNCHANGED cur
Spec == Init /\ [][Next]_cur

\* C02
InvExactRange == Read(cur.n, cur.K, cur.off) = Expected(cur.n, cur.off)

\* the read plan of a case, for the harness: which chunk is sought, how much of it is
\* dropped, whether the single-chunk branch is taken
Plan(c) == [n |-> c.n, K |-> c.K, off |-> c.off, chunk |-> c.off \div c.K, rem |-> c.off % c.K,
            chunks |-> NumChunks(c.n, c.K), last |-> (c.off \div c.K) = NumChunks(c.n, c.K) - 1,
            len |-> c.n - c.off]
ASSUME "VERIF_CASES_OUT" \in DOMAIN IOEnv => JsonSerialize(IOEnv.VERIF_CASES_OUT, SetToSeq({Plan(c) : c \in Cases}))
=============================================================================
