SPECIFICATION ASpec
CONSTANT TrustUpload = TRUE
CONSTANT WithBackend = FALSE
INVARIANTS InvStoredValid InvLatestWins
PROPERTY DeinlinedInCas
CHECK_DEADLOCK FALSE
