SPECIFICATION Spec
CONSTANTS PostCheck = TRUE
INVARIANTS InvLimit InvNoFetch
