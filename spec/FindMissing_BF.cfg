SPECIFICATION Spec
CONSTANTS
  MaxLen = 4
  BatchSize = 2
  Workers = {w1, w2}
  WithBackend = TRUE
  FailFast = TRUE
  QueueCap = 1
  SkipWhenFull = FALSE
  Recheck = TRUE
INVARIANTS InvExact InvFailFast InvQueueBounded
PROPERTY Terminates
CHECK_DEADLOCK FALSE
