------------------------------- MODULE Proxy --------------------------------
(***************************************************************************)
(* The proxy read-through path of the disk cache (cache/disk/disk.go: get, *)
(* availableOrTryProxy, commit, Contains; the cache.Proxy interface of     *)
(* cache/cache.go) under backend faults.                                   *)
(*                                                                         *)
(* One key, a script of requests.  Each request is a local miss (or a      *)
(* local hit once an earlier request has cached the entry) that goes       *)
(* through the steps of `get` one return statement at a time:              *)
(*                                                                         *)
(*   Lookup -> Reserve -> BackendGet -> CheckSizes -> CreateFile -> Copy   *)
(*          -> Validate -> Commit | cleanup at every exit                  *)
(*                                                                         *)
(* The backend answers each call according to the fault the script gives   *)
(* for it - at the level of the cache.Proxy interface: (reader, size,      *)
(* error) in every combination a transport failure can produce.            *)
(*                                                                         *)
(* C12: a fault-free read of an entry the backend holds is a hit with the  *)
(* identical content and is cached (if it fits max_proxy_blob_size); any   *)
(* fault yields a miss or an error, never a hit with short / long /        *)
(* mis-sized content; after every request nothing is reserved, no          *)
(* temporary file is left, the backend reader is closed, and the index     *)
(* holds the entry iff it was committed; a later fault-free request        *)
(* succeeds (no poisoning).                                                *)
(***************************************************************************)
EXTENDS Integers, Sequences, FiniteSets, TLC, Json, IOUtils, SequencesExt

CONSTANTS MaxReq,        \* length of a script
          LengthCheck    \* TRUE: the tree as it is (fix 2df3c5b); FALSE: the earlier code, no length check for uncompressed entries

Kinds == {"cas", "ac"}                 \* raw behaves as ac
Modes == {"zstd", "uncompressed"}
\* what the backend call returns
GetFaults == {"none",        \* (reader, true size, nil)
              "err",         \* (nil, -1, error)
              "notFound",    \* (nil, -1, nil)
              "sizeUnknown", \* (reader, -1, nil)
              "sizeWrong",   \* (reader, another size, nil)
              "streamErr",   \* reader fails after a proper prefix
              "streamShort", \* reader ends cleanly after a proper prefix
              "streamLong"}  \* reader delivers the object and then more
Limits == {"fits", "over"}             \* object size vs max_proxy_blob_size

Compressed(kind, mode) == kind = "cas" /\ mode = "zstd"

VARIABLES cfg,      \* [kind, mode, known, limit] - fixed per behaviour
          script,   \* faults of the requests still to come
          hist,     \* faults consumed, with the result of each request
          pc, idx, was, resv, tmp, rdr, found, got, res, served, calls
vars == <<cfg, script, hist, pc, idx, was, resv, tmp, rdr, found, got, res, served, calls>>

RECURSIVE Scripts(_)
Scripts(n) == IF n = 0 THEN {<<>>} ELSE {<<f>> \o s : f \in GetFaults, s \in Scripts(n - 1)}
AllScripts == UNION {Scripts(n) : n \in 1..MaxReq}

Init == /\ cfg \in [kind : Kinds, mode : Modes, known : BOOLEAN, limit : Limits]
        /\ (cfg.kind = "ac" => ~cfg.known)            \* action-cache reads never know the size
        /\ script \in AllScripts
        /\ hist = <<>>
        /\ pc = "idle" /\ idx = FALSE /\ was = FALSE /\ resv = 0 /\ tmp = FALSE /\ rdr = FALSE
        /\ found = "none" /\ got = "none" /\ res = "none" /\ served = "none" /\ calls = 0

Fault == Head(script)

\* -- a request begins: local lookup
Lookup == /\ pc = "idle" /\ script # <<>>
          /\ found' = "none" /\ got' = "none" /\ was' = idx
          /\ IF idx THEN pc' = "done" /\ res' = "hit" /\ served' = "full" /\ UNCHANGED resv        \* served from the local file
             ELSE IF cfg.known /\ cfg.limit = "over"
                  THEN pc' = "done" /\ res' = "miss" /\ served' = "none" /\ UNCHANGED resv                     \* size > maxProxyBlobSize: backend not asked
                  ELSE /\ pc' = "reserved"
                       /\ resv' = IF cfg.known THEN 1 ELSE 0                                    \* Reserve(size) only when the size is known
                       /\ res' = "none" /\ served' = "none"
          /\ UNCHANGED <<cfg, script, hist, idx, tmp, rdr, calls>>

\* -- c.proxy.Get
BackendGet == /\ pc = "reserved"
              /\ calls' = calls + 1
              /\ CASE Fault = "err"      -> pc' = "cleanup" /\ res' = "error" /\ rdr' = FALSE /\ found' = "none"
                   [] Fault = "notFound" -> pc' = "cleanup" /\ res' = "miss" /\ rdr' = FALSE /\ found' = "none"
                   [] OTHER              -> /\ pc' = "checksizes" /\ rdr' = TRUE /\ UNCHANGED res
                                            /\ found' = CASE Fault = "sizeUnknown" -> "unknown"
                                                          [] Fault = "sizeWrong" -> "wrong"
                                                          [] OTHER -> "right"
              /\ UNCHANGED <<cfg, script, hist, idx, was, resv, tmp, got, served>>

\* -- foundSize > maxProxyBlobSize; isSizeMismatch(size, foundSize) || foundSize < 0
CheckSizes == /\ pc = "checksizes"
              /\ IF (found # "unknown" /\ cfg.limit = "over")
                    \/ found = "unknown"
                    \/ (found = "wrong" /\ cfg.known)
                 THEN pc' = "cleanup" /\ res' = "miss"
                 ELSE pc' = "create" /\ UNCHANGED res
              /\ UNCHANGED <<cfg, script, hist, idx, was, resv, tmp, rdr, found, got, served, calls>>

CreateFile == /\ pc = "create" /\ tmp' = TRUE /\ pc' = "copy"
              /\ UNCHANGED <<cfg, script, hist, idx, was, resv, rdr, found, got, res, served, calls>>

\* -- io.Copy(tf, r)
Copy == /\ pc = "copy"
        /\ CASE Fault = "streamErr"   -> got' = "prefix" /\ pc' = "cleanup" /\ res' = "error"
             [] Fault = "streamShort" -> got' = "prefix" /\ pc' = "validate" /\ UNCHANGED res
             [] Fault = "streamLong"  -> got' = "longer" /\ pc' = "validate" /\ UNCHANGED res
             [] OTHER                 -> got' = "full" /\ pc' = "validate" /\ UNCHANGED res
        /\ UNCHANGED <<cfg, script, hist, idx, was, resv, tmp, rdr, found, served, calls>>

\* -- length check (uncompressed entries) / header check (compressed CAS)
\* a wrong announced size with a complete stream is a length mismatch too
LengthOK == got = "full" /\ found = "right"
Validate == /\ pc = "validate"
            /\ IF Compressed(cfg.kind, cfg.mode)
               THEN \* readHeader: the offset table must end at the file size, and the header's logical
                    \* size must be the announced one (GetZstdReadCloser / GetUncompressedReadCloser, expectedSize)
                    IF got = "full" /\ found = "right" THEN pc' = "commit" /\ UNCHANGED res
                    ELSE pc' = "cleanup" /\ res' = "error"
               ELSE IF LengthCheck /\ ~LengthOK
                    THEN pc' = "cleanup" /\ res' = "error"
                    ELSE pc' = "commit" /\ UNCHANGED res
            /\ UNCHANGED <<cfg, script, hist, idx, was, resv, tmp, rdr, found, got, served, calls>>

\* -- commit: index insertion, the reservation turns into the entry, the reader is handed out
Commit == /\ pc = "commit"
          /\ idx' = TRUE /\ resv' = 0 /\ tmp' = FALSE        \* the file is now the entry's file
          /\ res' = "hit" /\ served' = got
          /\ pc' = "cleanup"
          /\ UNCHANGED <<cfg, script, hist, was, rdr, found, got, calls>>

\* -- the deferred functions of get: remove the temp file, unreserve, close the backend reader
Cleanup == /\ pc = "cleanup"
           /\ tmp' = FALSE /\ resv' = 0 /\ rdr' = FALSE
           /\ pc' = "done"
           /\ UNCHANGED <<cfg, script, hist, idx, was, found, got, res, served, calls>>

Finish == /\ pc = "done"
          /\ hist' = Append(hist, [fault |-> Fault, res |-> res, served |-> served, cached |-> idx, calls |-> calls])
          /\ script' = Tail(script)
          /\ pc' = "idle"
          /\ UNCHANGED <<cfg, idx, was, resv, tmp, rdr, found, got, res, served, calls>>

Next == Lookup \/ BackendGet \/ CheckSizes \/ CreateFile \/ Copy \/ Validate \/ Commit \/ Cleanup \/ Finish
Spec == Init /\ [][Next]_vars /\ WF_vars(Next)

--------------------------------------------------------------------------
(* Policy *)
\* what the client may see for a request whose backend call meets fault f, given whether the
\* entry was already cached locally
Allowed(f, cachedBefore) ==
    IF cachedBefore THEN {"hit"}
    ELSE IF cfg.limit = "over" THEN {"miss", "error"}            \* never served or cached from the backend
    ELSE CASE f = "none" -> {"hit"}
           [] OTHER -> {"miss", "error"}     \* not-found included: the disk layer answers miss, but the property lets a
                                            \* backend's not-found surface as an error (the gRPC client turns the peer's
                                            \* NotFound status into a stream error)

\* C12 at the end of every request
InvAtDone == pc = "done" =>
    /\ res \in Allowed(Fault, was)
    /\ (res = "hit" => served = "full")                   \* never short, long or mis-sized content
    /\ resv = 0 /\ ~tmp /\ ~rdr                            \* nothing leaked
    /\ (cfg.limit = "over" => ~idx)                        \* nothing oversize is cached
\* the index never holds an entry that was not completely and correctly received
InvNoPoison == idx => (\E i \in 1..Len(hist) : hist[i].res = "hit" /\ hist[i].served = "full") \/ (pc \in {"cleanup", "done"} /\ res = "hit" /\ served = "full")
\* once cached, the backend is not asked again
InvCachedServesLocally == \A i \in 1..Len(hist) - 1 : hist[i].cached => hist[i + 1].calls = hist[i].calls
\* every request comes to an end
Terminates == <>(script = <<>> /\ pc = "idle")

--------------------------------------------------------------------------
(* the table for the harness: every configuration x script with the allowed result of each request *)
RECURSIVE Expect(_, _, _)
Expect(c, s, cached) ==
    IF s = <<>> THEN <<>>
    ELSE LET f == Head(s)
             allowed == IF cached THEN {"hit"}
                        ELSE IF c.limit = "over" THEN {"miss", "error"}
                        ELSE CASE f = "none" -> {"hit"} [] OTHER -> {"miss", "error"}
             nowCached == cached \/ (f = "none" /\ c.limit = "fits")
         IN <<[fault |-> f, allowed |-> allowed, cached_after |-> nowCached, backend_asked |-> ~cached /\ ~(c.known /\ c.limit = "over")]>>
            \o Expect(c, Tail(s), nowCached)
Configs == {c \in [kind : Kinds, mode : Modes, known : BOOLEAN, limit : Limits] : c.kind = "ac" => ~c.known}
ASSUME "VERIF_CASES_OUT" \in DOMAIN IOEnv =>
          JsonSerialize(IOEnv.VERIF_CASES_OUT,
                        SetToSeq({[cfg |-> c, script |-> s, expect |-> Expect(c, s, FALSE)] : c \in Configs, s \in AllScripts}))
=============================================================================
