SPECIFICATION Spec
CONSTANTS
  Block = 2
  Procs = {p1, p2}
  Keys = {k1, k2}
  Items <- ItemsSmall
  MaxSize = 4
  HardLimit = 0
  MaxOps = 2
  CorruptInit = FALSE
  StaleFix = TRUE
  WithCrash = FALSE
  CreateMayFail = TRUE
  WithBackend = FALSE
INVARIANTS InvAccounting InvLogical InvWithinMax InvReserved InvQuiescentResv InvNoHang InvMapList InvDirEqualsIndex InvIndexedHasFile InvBacklog InvLruOrder InvWholeValue
PROPERTIES EvictsOnlyUnderPressure
CONSTRAINT StateConstraint
VIEW View
CHECK_DEADLOCK FALSE
