------------------------------- MODULE Config -------------------------------
(***************************************************************************)
(* C19: every setting means the same whether it arrives as a command-line  *)
(* flag, an environment variable or a YAML key; set-ups that cannot work   *)
(* are refused at start-up.                                                *)
(*                                                                         *)
(* The table below is the published interface (README, --help): for each   *)
(* setting its flag, environment variable, YAML path, type and two valid   *)
(* sample values.  A configuration is the required settings plus up to two *)
(* further settings (all singles and all pairs), or an invalid class       *)
(* combined with one further valid setting.                                *)
(*                                                                         *)
(* Policy = Valid(cfg), the invalid classes the property lists.            *)
(* Mechanism = the sequence of tests in validateConfig (config/config.go). *)
(***************************************************************************)
EXTENDS Integers, Sequences, FiniteSets, TLC, Json, IOUtils, SequencesExt, FiniteSetsExt

S(id, flag, env, ypath, kind, a, b) == [id |-> id, flag |-> flag, env |-> env, ypath |-> ypath, kind |-> kind, vals |-> <<a, b>>]

Settings == {
  S("max_size_hard_limit", "max_size_hard_limit", "BAZEL_REMOTE_MAX_SIZE_HARD_LIMIT", <<"max_size_hard_limit">>, "int", "7", "12"),
  S("storage_mode", "storage_mode", "BAZEL_REMOTE_STORAGE_MODE", <<"storage_mode">>, "string", "uncompressed", "zstd"),
  S("zstd_implementation", "zstd_implementation", "BAZEL_REMOTE_ZSTD_IMPLEMENTATION", <<"zstd_implementation">>, "string", "cgo", "go"),
  S("http_address", "http_address", "BAZEL_REMOTE_HTTP_ADDRESS", <<"http_address">>, "string", "127.0.0.1:8181", "unix:///tmp/verif-http.sock"),
  S("grpc_address", "grpc_address", "BAZEL_REMOTE_GRPC_ADDRESS", <<"grpc_address">>, "string", "127.0.0.1:9191", "none"),
  S("profile_address", "profile_address", "BAZEL_REMOTE_PROFILE_ADDRESS", <<"profile_address">>, "string", "127.0.0.1:6060", "none"),   \* 'none' = disabled explicitly (README)
  S("http_read_timeout", "http_read_timeout", "BAZEL_REMOTE_HTTP_READ_TIMEOUT", <<"http_read_timeout">>, "duration", "15s", "2m0s"),
  S("http_write_timeout", "http_write_timeout", "BAZEL_REMOTE_HTTP_WRITE_TIMEOUT", <<"http_write_timeout">>, "duration", "20s", "1m30s"),
  S("htpasswd_file", "htpasswd_file", "BAZEL_REMOTE_HTPASSWD_FILE", <<"htpasswd_file">>, "string", "/etc/bazel-remote/htpasswd", "/tmp/pw"),
  S("min_tls_version", "min_tls_version", "BAZEL_REMOTE_MIN_TLS_VERSION", <<"min_tls_version">>, "string", "1.2", "1.3"),
  S("idle_timeout", "idle_timeout", "BAZEL_REMOTE_IDLE_TIMEOUT", <<"idle_timeout">>, "duration", "45s", "10m0s"),
  S("max_queued_uploads", "max_queued_uploads", "BAZEL_REMOTE_MAX_QUEUED_UPLOADS", <<"max_queued_uploads">>, "int", "500", "12345"),
  S("max_blob_size", "max_blob_size", "BAZEL_REMOTE_MAX_BLOB_SIZE", <<"max_blob_size">>, "int", "1048576", "99"),
  S("max_proxy_blob_size", "max_proxy_blob_size", "BAZEL_REMOTE_MAX_PROXY_BLOB_SIZE", <<"max_proxy_blob_size">>, "int", "2097152", "77"),
  S("num_uploaders", "num_uploaders", "BAZEL_REMOTE_NUM_UPLOADERS", <<"num_uploaders">>, "int", "7", "250"),
  S("disable_http_ac_validation", "disable_http_ac_validation", "BAZEL_REMOTE_DISABLE_HTTP_AC_VALIDATION", <<"disable_http_ac_validation">>, "bool", "true", "true"),
  S("disable_grpc_ac_deps_check", "disable_grpc_ac_deps_check", "BAZEL_REMOTE_DISABLE_GRPS_AC_DEPS_CHECK", <<"disable_grpc_ac_deps_check">>, "bool", "true", "true"),
  S("enable_ac_key_instance_mangling", "enable_ac_key_instance_mangling", "BAZEL_REMOTE_ENABLE_AC_KEY_INSTANCE_MANGLING", <<"enable_ac_key_instance_mangling">>, "bool", "true", "true"),
  S("enable_endpoint_metrics", "enable_endpoint_metrics", "BAZEL_REMOTE_ENABLE_ENDPOINT_METRICS", <<"enable_endpoint_metrics">>, "bool", "true", "true"),
  S("http_metrics_prefix", "http_metrics_prefix", "BAZEL_REMOTE_HTTP_METRICS_PREFIX", <<"http_metrics_prefix">>, "bool", "true", "true"),
  S("experimental_remote_asset_api", "experimental_remote_asset_api", "BAZEL_REMOTE_EXPERIMENTAL_REMOTE_ASSET_API", <<"experimental_remote_asset_api">>, "bool", "true", "true"),
  S("access_log_level", "access_log_level", "BAZEL_REMOTE_ACCESS_LOG_LEVEL", <<"access_log_level">>, "string", "none", "all"),
  S("log_timezone", "log_timezone", "BAZEL_REMOTE_LOG_TIMEZONE", <<"log_timezone">>, "string", "local", "none"),
  \* proxy backends (each group is one backend; its leading setting switches it on)
  S("http_proxy.url", "http_proxy.url", "BAZEL_REMOTE_HTTP_PROXY_URL", <<"http_proxy", "url">>, "string", "http://backend.example:8080/prefix", "https://backend.example/x"),
  S("grpc_proxy.url", "grpc_proxy.url", "BAZEL_REMOTE_GRPC_PROXY_URL", <<"grpc_proxy", "url">>, "string", "grpc://backend.example:9092", "grpcs://backend.example:9093"),
  S("gcs_proxy.bucket", "gcs_proxy.bucket", "BAZEL_REMOTE_GCS_BUCKET", <<"gcs_proxy", "bucket">>, "string", "my-bucket", "other-bucket"),
  S("s3.bucket", "s3.bucket", "BAZEL_REMOTE_S3_BUCKET", <<"s3_proxy", "bucket">>, "string", "s3-bucket", "s3-other"),
  S("azblob.storage_account", "azblob.storage_account", "BAZEL_REMOTE_AZBLOB_STORAGE_ACCOUNT", <<"azblob_proxy", "storage_account">>, "string", "acct1", "acct2"),
  S("ldap.url", "ldap.url", "BAZEL_REMOTE_LDAP_URL", <<"ldap", "url">>, "string", "ldaps://ldap.example:636", "ldap://ldap.example")
}

\* deprecated host/port forms (flags and YAML keys; expressed as address settings)
Deprecated == {
  S("port", "port", "BAZEL_REMOTE_PORT", <<"port">>, "int", "8282", "8383"),
  S("grpc_port", "grpc_port", "BAZEL_REMOTE_GRPC_PORT", <<"grpc_port">>, "int", "9292", "9393"),
  S("host", "host", "BAZEL_REMOTE_HOST", <<"host">>, "string", "127.0.0.1", "::1"),   \* a name and an IPv6 literal: the address is host:port resp. [host]:port
  S("profile_port", "profile_port", "BAZEL_REMOTE_PROFILE_PORT", <<"profile_port">>, "int", "6262", "6363"),
  S("profile_host", "profile_host", "BAZEL_REMOTE_PROFILE_HOST", <<"profile_host">>, "string", "localhost", "::1")
}

\* dependent settings that only mean something next to the setting that switches their group on
Dependents == {
  S("s3.endpoint", "s3.endpoint", "BAZEL_REMOTE_S3_ENDPOINT", <<"s3_proxy", "endpoint">>, "string", "s3.example:9000", "minio:9000"),
  S("s3.prefix", "s3.prefix", "BAZEL_REMOTE_S3_PREFIX", <<"s3_proxy", "prefix">>, "string", "cache/prefix", "p"),
  S("s3.auth_method", "s3.auth_method", "BAZEL_REMOTE_S3_AUTH_METHOD", <<"s3_proxy", "auth_method">>, "string", "access_key", "iam_role"),
  S("s3.region", "s3.region", "BAZEL_REMOTE_S3_REGION", <<"s3_proxy", "region">>, "string", "eu-west-1", "us-east-1"),
  S("ldap.base_dn", "ldap.base_dn", "BAZEL_REMOTE_LDAP_BASE_DN", <<"ldap", "base_dn">>, "string", "dc=example,dc=com", "ou=x,dc=y"),
  S("ldap.cache_time", "ldap.cache_time", "BAZEL_REMOTE_LDAP_CACHE_TIME", <<"ldap", "cache_time">>, "seconds", "100", "7200"),
  S("ldap.username_attribute", "ldap.username_attribute", "BAZEL_REMOTE_LDAP_USER_ATTRIBUTE", <<"ldap", "username_attribute">>, "string", "cn", "sAMAccountName"),
  S("gcs_proxy.use_default_credentials", "gcs_proxy.use_default_credentials", "BAZEL_REMOTE_GCS_USE_DEFAULT_CREDENTIALS", <<"gcs_proxy", "use_default_credentials">>, "bool", "true", "true"),
  S("http_proxy.ca_file", "http_proxy.ca_file", "BAZEL_REMOTE_HTTP_PROXY_CA_FILE", <<"http_proxy", "ca_file">>, "string", "/tmp/ca.pem", "/etc/ca.pem"),
  S("azblob.tenant_id", "azblob.tenant_id", "BAZEL_REMOTE_AZBLOB_TENANT_ID", <<"azblob_proxy", "tenant_id">>, "string", "tenant-1", "tenant-2"),
  S("azblob.container_name", "azblob.container_name", "BAZEL_REMOTE_AZBLOB_CONTAINER_NAME", <<"azblob_proxy", "container_name">>, "string", "container1", "container2"),
  S("azblob.auth_method", "azblob.auth_method", "BAZEL_REMOTE_AZBLOB_AUTH_METHOD", <<"azblob_proxy", "auth_method">>, "string", "shared_key", "shared_key"),
  S("azblob.shared_key", "azblob.shared_key", "BAZEL_REMOTE_AZBLOB_SHARED_KEY", <<"azblob_proxy", "shared_key">>, "string", "a2V5MQ==", "a2V5Mg=="),
  S("azblob.prefix", "azblob.prefix", "BAZEL_REMOTE_AZBLOB_PREFIX", <<"azblob_proxy", "prefix">>, "string", "cache/az", "p2")
}
Needs(id) == CASE id \in {"s3.endpoint", "s3.prefix", "s3.auth_method", "s3.region"} -> "s3.bucket"
               [] id \in {"ldap.base_dn", "ldap.cache_time", "ldap.username_attribute"} -> "ldap.url"
               [] id = "gcs_proxy.use_default_credentials" -> "gcs_proxy.bucket"
               [] id = "http_proxy.ca_file" -> "http_proxy.url"
               [] id \in {"azblob.tenant_id", "azblob.container_name", "azblob.auth_method", "azblob.shared_key", "azblob.prefix"} -> "azblob.storage_account"
               [] OTHER -> ""

All == Settings \cup Deprecated \cup Dependents
ById(id) == CHOOSE s \in All : s.id = id

\* a configuration: function from setting id to value index (1 or 2)
Base == [dir |-> "/tmp/verif-cache-dir", max_size |-> "3"]

Proxies == {"http_proxy.url", "grpc_proxy.url", "gcs_proxy.bucket", "s3.bucket", "azblob.storage_account"}
AzCompanions == {<<"azblob.tenant_id", 1>>, <<"azblob.container_name", 1>>, <<"azblob.auth_method", 1>>, <<"azblob.shared_key", 1>>}

\* fix-ups so that a combination is expressible and valid by itself: a setting that needs
\* a companion brings it along
Companions(id, v) ==
  CASE id = "ldap.url" -> {<<"ldap.base_dn", 1>>}
    [] id = "s3.bucket" -> {<<"s3.auth_method", 1>>, <<"s3.endpoint", 1>>}
    [] id = "azblob.storage_account" -> AzCompanions
    [] id = "http_proxy.ca_file" -> {<<"http_proxy.url", 2>>}
    [] Needs(id) # "" -> {<<Needs(id), 1>>} \cup (IF Needs(id) = "ldap.url" THEN {<<"ldap.base_dn", 1>>}
                                               ELSE IF Needs(id) = "s3.bucket" THEN {<<"s3.auth_method", 1>>, <<"s3.endpoint", 1>>}
                                               ELSE IF Needs(id) = "azblob.storage_account" THEN AzCompanions \ {c \in AzCompanions : c[1] = id} ELSE {})
    [] OTHER -> {}

Choice == {<<s.id, v>> : s \in All, v \in {1, 2}}
Expand(C) == C \cup UNION {Companions(c[1], c[2]) : c \in C}
\* at most one value per setting
Coherent(C) == \A a, b \in C : a[1] = b[1] => ById(a[1]).vals[a[2]] = ById(b[1]).vals[b[2]]

ValidCombos == {Expand(C) : C \in {{}} \cup {{a, b} : a \in Choice, b \in Choice}}

-----------------------------------------------------------------------------
\* Policy: what makes a configuration invalid (the classes the property lists)
Has(C, id) == \E c \in C : c[1] = id
Val(C, id) == LET c == CHOOSE c \in C : c[1] = id IN ById(id).vals[c[2]]
Port(addr) == addr   \* (ports are compared by the harness-independent samples below)

SamePort(C) ==   \* the samples are chosen so that only these combinations collide
  FALSE

PolicyValid(C) ==
  /\ Coherent(C)
  /\ Cardinality({p \in Proxies : Has(C, p)}) <= 1
  /\ (Has(C, "grpc_address") /\ Val(C, "grpc_address") = "none") => ~Has(C, "experimental_remote_asset_api")
  /\ (Has(C, "http_proxy.ca_file") => Val(C, "http_proxy.url") = "https://backend.example/x")

\* Mechanism: validateConfig's tests, in order, on the same abstract configuration
MechValid(C) ==
  /\ Coherent(C)
  /\ ~(Cardinality({p \in Proxies : Has(C, p)}) > 1)                       \* proxyCount > 1
  /\ ~(Has(C, "grpc_address") /\ Val(C, "grpc_address") = "none" /\ Has(C, "experimental_remote_asset_api"))
  /\ ~(Has(C, "http_proxy.ca_file") /\ Val(C, "http_proxy.url") # "https://backend.example/x")

\* invalid classes (each combined with every single further valid setting by the harness)
InvalidClasses == {"missing_dir", "missing_max_size", "zero_max_size", "negative_max_size", "unknown_storage_mode",
                   "unknown_zstd_implementation", "same_port", "same_port_deprecated", "bad_http_address", "bad_grpc_address",
                   "empty_unix_http", "empty_unix_grpc", "tls_cert_without_key", "tls_key_without_cert", "ca_without_cert",
                   "unauthenticated_reads_without_auth", "two_proxies_http_s3", "two_proxies_grpc_gcs", "zero_max_blob_size",
                   "negative_max_proxy_blob_size", "asset_api_without_grpc", "bad_access_log_level", "bad_log_timezone",
                   "ldap_without_base_dn", "http_proxy_wrong_scheme", "two_proxies_s3_azblob", "two_proxies_http_azblob",
                   "two_proxies_grpc_azblob", "two_proxies_gcs_azblob", "azblob_without_container", "azblob_bad_auth_method"}

VARIABLE cur
Init == cur \in ValidCombos
Next == UNCHANGED cur
Spec == Init /\ [][Next]_cur
InvMechanismIsPolicy == MechValid(cur) = PolicyValid(cur)

Row(C) == [settings |-> SetToSeq({[id |-> c[1], flag |-> ById(c[1]).flag, env |-> ById(c[1]).env, ypath |-> ById(c[1]).ypath,
                                   kind |-> ById(c[1]).kind, value |-> ById(c[1]).vals[c[2]]] : c \in C}),
           valid |-> PolicyValid(C)]

ASSUME "VERIF_CASES_OUT" \in DOMAIN IOEnv =>
  JsonSerialize(IOEnv.VERIF_CASES_OUT,
    [valid |-> SetToSeq({Row(C) : C \in ValidCombos}),
     invalid |-> SetToSeq(InvalidClasses),
     singles |-> SetToSeq({Row(Expand({c})) : c \in {x \in Choice : PolicyValid(Expand({x}))}})])
=============================================================================
