SPECIFICATION Spec
CONSTANTS
  Size = 2
  MaxMsgs = 3
  RejectEmpty = TRUE
  ClosePipe = TRUE
INVARIANTS InvOkMeansStored InvCommittedSize InvMalformedFails InvMalformedStoresNothing
PROPERTY Terminates
CHECK_DEADLOCK FALSE
