SPECIFICATION Spec
CONSTANTS
  Block = 1
  Keys = {"k1", "k2", "k3"}
  Sizes = {0, 1, 2, 3}
  MaxFiles = 4
  MaxMax = 6
  DedupFirst = FALSE
INVARIANTS InvSurvivors InvOrder InvDirectory InvAccounting
CHECK_DEADLOCK FALSE
