SPECIFICATION Spec
CONSTANTS
  MaxReq = 3
  LengthCheck = TRUE
INVARIANTS InvAtDone InvNoPoison InvCachedServesLocally
PROPERTIES Terminates
CHECK_DEADLOCK FALSE
