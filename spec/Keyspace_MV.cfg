SPECIFICATION Spec
CONSTANTS
  Mangle = TRUE
  Validate = TRUE
  MaxOps = 3
INVARIANTS InvIsolation PrintFinal
CHECK_DEADLOCK FALSE
