SPECIFICATION Spec
CONSTANTS
  MaxReq = 2
  LengthCheck = FALSE
INVARIANTS InvAtDone InvNoPoison InvCachedServesLocally
CHECK_DEADLOCK FALSE
