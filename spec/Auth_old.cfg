SPECIFICATION Spec
CONSTANT StatusRewrapBug = TRUE
INVARIANT InvMechanismIsPolicy
CHECK_DEADLOCK FALSE
