SPECIFICATION Spec
CONSTANT TlsExclusiveBug = FALSE
CONSTANT IdleBypassBug = FALSE
CONSTANT StatusRewrapBug = TRUE
INVARIANT InvMechanismIsPolicy
CHECK_DEADLOCK FALSE
