------------------------------- MODULE Crash --------------------------------
(***************************************************************************)
(* Kill at any point, restart on the same directory (C08).                 *)
(*                                                                         *)
(* One key.  Optionally an earlier upload of the key has completed and     *)
(* been acknowledged ("old").  A writer - a client upload or a fetch from  *)
(* the backend - is storing a version "new" through the steps of           *)
(* disk.Put / writeAndCloseFile / casblob.WriteAndClose / commit:          *)
(*                                                                         *)
(*   Create     the file is created under its final name (tempfile.Create) *)
(*              - for a compressed CAS blob the header goes out at once,   *)
(*              with an all-zero chunk table                               *)
(*   Write      chunks / slices are appended                               *)
(*   Finalise   compressed CAS only: the chunk table is filled in, after   *)
(*              the hash has been verified                                 *)
(*   Close      fsync + close                                              *)
(*   Index      commit: the index entry is replaced, the reservation       *)
(*              released, the old file handed to the remover               *)
(*   Ack        the client is told                                         *)
(*   Unlink     the remover deletes the old file                           *)
(*                                                                         *)
(* The process may be killed between any two steps; what the completed     *)
(* write() calls put in the files stays.  Restart runs the loader          *)
(* (load.go): one index entry per file name, logical size from the name    *)
(* (compressed CAS) or from the file length (everything else), of several  *)
(* files of one key the most recently used survives and the others are     *)
(* deleted.  Then the key is read, with the size known or unknown.         *)
(***************************************************************************)
EXTENDS Integers, Sequences, FiniteSets, TLC, Json, IOUtils, SequencesExt

CONSTANTS SizeCheck,        \* TRUE: a header is valid only if its chunk table ends at the file size (readHeader); a file
                            \* fetched from the backend is a byte-for-byte copy of the stored object - its header and
                            \* table are complete from the first bytes on, only this check tells that data is missing
          LoaderValidates   \* TRUE: among duplicates of a compressed CAS key the loader prefers a file whose header is valid
                            \* FALSE: the most recently used file wins whatever it holds

Kinds == {"cas", "ac"}                  \* raw behaves as ac
Modes == {"zstd", "uncompressed"}
Compressed(c) == c.kind = "cas" /\ c.mode = "zstd"

VARIABLES cfg,     \* [kind, mode, old, known, writer]
          phase,   \* "running" | "down" | "up" | "read"
          pc,      \* the writer's next step
          new,     \* state of the new file: "none" | "header" (created) | "partial" | "data" (all bytes, table not final) | "complete"
          old,     \* state of the old file: "none" | "complete"
          idx,     \* which version the index holds: "none" | "old" | "new"; after the restart with the size it believes: <<ver, "right"|"short">>
          acked,   \* versions acknowledged to a client
          point,   \* the writer step after which the kill happened
          result   \* outcome of the read after the restart
vars == <<cfg, phase, pc, new, old, idx, acked, point, result>>

Init == /\ cfg \in [kind : Kinds, mode : Modes, old : BOOLEAN, known : BOOLEAN, writer : {"upload", "fetch"}]
        /\ (cfg.kind = "ac" => ~cfg.known)
        /\ (cfg.writer = "fetch" => ~cfg.old)         \* a fetch happens on a local miss only
        /\ phase = "running" /\ pc = "create" /\ new = "none"
        /\ old = (IF cfg.old THEN "complete" ELSE "none")
        /\ idx = (IF cfg.old THEN "old" ELSE "none")
        /\ acked = (IF cfg.old THEN {"old"} ELSE {})
        /\ point = "start" /\ result = "none"

Step(from, to) == phase = "running" /\ pc = from /\ pc' = to /\ point' = from
Create   == Step("create", "write") /\ new' = "header" /\ UNCHANGED <<cfg, phase, old, idx, acked, result>>
\* the data goes out in several writes
WriteA   == Step("write", "write2") /\ new' = "partial" /\ UNCHANGED <<cfg, phase, old, idx, acked, result>>
WriteB   == Step("write2", IF Compressed(cfg) THEN "finalise" ELSE "close")
            /\ new' = (IF Compressed(cfg) THEN "data" ELSE "complete")        \* an uncompressed file is complete with its last byte
            /\ UNCHANGED <<cfg, phase, old, idx, acked, result>>
Finalise == Step("finalise", "close") /\ new' = "complete" /\ UNCHANGED <<cfg, phase, old, idx, acked, result>>
Close    == Step("close", "index") /\ UNCHANGED <<cfg, phase, new, old, idx, acked, result>>
Index    == Step("index", "ack") /\ idx' = "new" /\ UNCHANGED <<cfg, phase, new, old, acked, result>>
Ack      == Step("ack", "unlink") /\ acked' = acked \cup {"new"} /\ UNCHANGED <<cfg, phase, new, old, idx, result>>
Unlink   == Step("unlink", "done") /\ old' = "none" /\ UNCHANGED <<cfg, phase, new, idx, acked, result>>
\* a failing upload removes its file again
Abort    == /\ phase = "running" /\ pc \in {"write", "write2", "finalise"} /\ pc' = "done" /\ point' = "abort"
            /\ new' = "none" /\ UNCHANGED <<cfg, phase, old, idx, acked, result>>

Kill == /\ phase = "running" /\ phase' = "down"
        /\ UNCHANGED <<cfg, pc, new, old, idx, acked, point, result>>

\* -- the loader
Size(ver) == IF ver = "old" THEN "right"
             ELSE IF Compressed(cfg) THEN "right"                        \* from the file name
             ELSE IF new = "complete" THEN "right" ELSE "short"          \* from the file length
HeaderValid(ver) == \/ ver = "old" \/ new = "complete"
                    \/ (~SizeCheck /\ cfg.writer = "fetch" /\ new \in {"partial", "data"})
Restart ==
    /\ phase = "down" /\ phase' = "up"
    /\ LET files == {v \in {"old", "new"} : (v = "old" /\ old # "none") \/ (v = "new" /\ new # "none")}
           \* the new file was created after the old one was last used
           pick == IF files = {} THEN "none"
                   ELSE IF files = {"old"} THEN "old"
                   ELSE IF files = {"new"} THEN "new"
                   ELSE IF LoaderValidates /\ Compressed(cfg) /\ ~HeaderValid("new") THEN "old"
                   ELSE "new"
       IN /\ idx' = IF pick = "none" THEN <<"none", "right">> ELSE <<pick, Size(pick)>>
          /\ old' = IF pick = "old" \/ files = {} THEN old ELSE "none"    \* the other duplicates are deleted
          /\ new' = IF pick = "new" \/ files = {} THEN new ELSE "none"
    /\ UNCHANGED <<cfg, pc, acked, point, result>>

\* -- a read after the restart
Read ==
    /\ phase = "up" /\ phase' = "read"
    /\ LET ver == idx[1]   sz == idx[2] IN
       result' =
         IF ver = "none" THEN "miss"
         ELSE IF Compressed(cfg)
              THEN IF ~HeaderValid(ver) THEN "miss"                       \* readHeader rejects the file, the entry is dropped
                   ELSE IF ver = "new" /\ new # "complete" THEN "torn" ELSE ver
              ELSE IF cfg.known /\ sz = "short" THEN "miss"               \* size mismatch
              ELSE IF sz = "short" THEN "torn" ELSE ver                   \* the file is served as it is
    /\ UNCHANGED <<cfg, pc, new, old, idx, acked, point>>

Next == Create \/ WriteA \/ WriteB \/ Finalise \/ Close \/ Index \/ Ack \/ Unlink \/ Abort \/ Kill \/ Restart \/ Read
Spec == Init /\ [][Next]_vars

--------------------------------------------------------------------------
(* C08 *)
\* no read returns bytes that are not one completely uploaded version
InvNoTornRead == phase = "read" => result \in {"miss", "old", "new"}
\* an acknowledged upload is served (by itself or by a complete later version of the key)
InvAckedServed == (phase = "read" /\ acked # {}) => result \in {"old", "new"} /\ (("new" \in acked) => result = "new")
\* what is served as "new" is complete
InvServedComplete == (phase = "read" /\ result = "new") => new = "complete"

\* the cases this tree is known to get wrong (known_findings.jsonl, C08): files other than compressed CAS blobs
\* carry nothing a reader could validate, and are written in place under their final name
KnownTorn == ~Compressed(cfg) /\ ~cfg.known /\ phase = "read" /\ result = "torn"
\* consequences of the same finding: the torn file has displaced the acknowledged one
KnownLost == ~Compressed(cfg) /\ phase = "read" /\ idx[1] = "new" /\ new # "complete"
NotKnown == ~(KnownTorn \/ KnownLost)
\* the invariants outside the known finding
InvNoTornReadK == NotKnown => InvNoTornRead
InvAckedServedK == NotKnown => InvAckedServed
InvServedCompleteK == NotKnown => InvServedComplete

--------------------------------------------------------------------------
(* the table for the harness: every configuration x kill point (= the last step the writer completed) with what
   a read of the key may return afterwards *)
Points == <<"start", "create", "write", "write2", "finalise", "close", "index", "ack", "unlink">>
PointsOf(c) == {Points[i] : i \in 1..Len(Points)} \ (IF Compressed(c) THEN {} ELSE {"finalise"})
AckedAt(c, p) == (IF c.old THEN {"old"} ELSE {}) \cup (IF p \in {"ack", "unlink"} THEN {"new"} ELSE {})
AllowedAt(c, p) == IF "new" \in AckedAt(c, p) THEN {"new"}
                   ELSE IF "old" \in AckedAt(c, p) THEN {"old", "new"}
                   ELSE {"miss", "new"}
\* the known finding applies where a file without self-validation exists half written
KnownAt(c, p) == ~Compressed(c) /\ p \in {"create", "write"}
TableConfigs == [kind : Kinds, mode : Modes, old : BOOLEAN]
ASSUME "VERIF_CASES_OUT" \in DOMAIN IOEnv =>
          JsonSerialize(IOEnv.VERIF_CASES_OUT,
            SetToSeq(UNION {{[kind |-> c.kind, mode |-> c.mode, old |-> c.old, point |-> p,
                              allowed |-> AllowedAt(c, p), acked |-> AckedAt(c, p), known |-> KnownAt(c, p)] : p \in PointsOf(c)} :
                            c \in TableConfigs}))
=============================================================================
